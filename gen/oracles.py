"""Exact-rational oracles written from the property statements (independent of the library's interpolators)."""
from fractions import Fraction
from math import gcd


def _sc():
    import partitura.score as sc
    return sc


def quarter_changes(part):
    """the divisions in force, as (time, divisions) pairs.  A generator that knows what an edit history MEANS records it on the part
    (`_verif_intended_quarter_changes`); then the oracle follows the meaning, not the part's own table"""
    intended = getattr(part, "_verif_intended_quarter_changes", None)
    if intended is not None:
        return [(int(t), int(q)) for t, q in intended]
    return list(zip([int(t) for t in part._quarter_times], [int(q) for q in part._quarter_durations]))


def q_in_force(part, t):
    v = quarter_changes(part)[0][1]
    for tq, dq in quarter_changes(part):
        if tq <= t:
            v = dq
    return int(v)


def ts_in_force(part, t, musical=False):
    """(beats, beat_type, musical_beats) of the latest time signature starting at or before t (first one before it)"""
    sc = _sc()
    tss = sorted(part.iter_all(sc.TimeSignature), key=lambda x: x.start.t)
    if not tss:
        return None
    cur = tss[0]
    for ts in tss:
        if ts.start.t <= t:
            cur = ts
    return cur


def _integral(part, a, b, kind, musical=False):
    """exact integral over [a, b] of 1/q (quarters) or (beat_type/4)/q (beats) [times musical_beats/beats]"""
    sc = _sc()
    if b < a:
        return -_integral(part, b, a, kind, musical)
    cuts = {a, b}
    for tq, _ in quarter_changes(part):
        if a < tq < b:
            cuts.add(tq)
    tss = sorted(part.iter_all(sc.TimeSignature), key=lambda x: x.start.t)
    for ts in tss:
        if a < ts.start.t < b:
            cuts.add(ts.start.t)
    cuts = sorted(cuts)
    total = Fraction(0)
    for lo, hi in zip(cuts[:-1], cuts[1:]):
        q = q_in_force(part, lo)
        f = Fraction(1, q)
        if kind == "beat":
            # the beat factor in force: of the latest signature at or before lo; before the first signature the factor is 1
            cur = None
            for ts in tss:
                if ts.start.t <= lo:
                    cur = ts
            if cur is not None:
                f *= Fraction(cur.beat_type, 4)
                if musical:
                    f *= Fraction(cur.musical_beats, cur.beats)
        total += f * (hi - lo)
    return total


def pickup_shift(part, kind, musical=False):
    """length of the first measure if it is shorter than its time signature says (a pickup), else 0 - in the map's unit"""
    sc = _sc()
    fp = part.first_point
    if fp is None:
        return Fraction(0)
    m1 = next(iter(fp.starting_objects.get(sc.Measure, [])), None)
    if m1 is None or m1.end is None:
        return Fraction(0)
    ts = next(iter(m1.start.starting_objects.get(sc.TimeSignature, [])), None)
    if ts is None:
        return Fraction(0)
    actual = _integral(part, m1.start.t, m1.end.t, kind, musical)
    normal = Fraction(ts.beats)
    if kind == "quarter":
        normal = Fraction(ts.beats * 4, ts.beat_type)
    if musical and kind == "beat":
        normal = Fraction(ts.musical_beats)
    return actual if actual < normal else Fraction(0)


def quarter_pos(part, t):
    """quarter position of timeline time t: zero at the first time point, or at the end of a pickup first measure"""
    return _integral(part, part.first_point.t, t, "quarter") - pickup_shift(part, "quarter")


def beat_pos(part, t, musical=False):
    return _integral(part, part.first_point.t, t, "beat", musical) - pickup_shift(part, "beat", musical)


def lcm(xs):
    r = 1
    for x in xs:
        x = int(x)
        r = r * x // gcd(r, x)
    return r


_BASE_PC = {"C": 0, "D": 2, "E": 4, "F": 5, "G": 7, "A": 9, "B": 11}


def spelled_pitch(n):
    """MIDI pitch of a note from its spelling by twelve-tone arithmetic (C4 = 60, each accidental one semitone), whatever numeric type the
    attributes have; notes without a spelling (unpitched) keep the library's value"""
    step = getattr(n, "step", None)
    if step is None or getattr(n, "octave", None) is None or str(step).upper() not in _BASE_PC:
        return n.midi_pitch
    alter = getattr(n, "alter", None)
    return 12 * (int(n.octave) + 1) + _BASE_PC[str(step).upper()] + (0 if alter is None else int(alter))


def sounding_notes(part):
    """(onset_div, duration_div, midi_pitch, first note) per sounding note: tie chains merged, grace notes zero duration"""
    sc = _sc()
    out = []
    for n in part.iter_all(sc.Note, include_subclasses=True):
        if n.tie_prev is not None:
            continue
        end = n
        while end.tie_next is not None:
            end = end.tie_next
        dur = 0 if isinstance(n, sc.GraceNote) else end.end.t - n.start.t
        out.append((n.start.t, dur, spelled_pitch(n), n))
    return out
