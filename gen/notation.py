"""Abstract scores and two independent writers (MEI, Humdrum **kern) written from the format descriptions (C19).

A Doc is a list of staves (one part per staff in both readers), each a list of measures, each a list of layers (MEI) / one layer
(kern), each a list of events.  `expected(doc)` gives, in exact quarter notes, what the notation denotes."""
from fractions import Fraction


class Ev:
    def __init__(self, kind, pitches=(), dur=4, dots=0, tuplet=None, tie=None, staff=None, note_staffs=None):
        self.kind = kind            # note | chord | rest | grace
        self.pitches = list(pitches)  # (step, alter, octave)
        self.dur, self.dots, self.tuplet = dur, dots, tuplet   # tuplet = (num, numbase): num notes in the time of numbase
        self.tie = tie              # None | start | stop | cont   (for every pitch of the event)
        self.staff = staff          # cross-staff override (MEI only)
        self.note_staffs = note_staffs  # per chord note cross-staff override (MEI only)

    def quarters(self):
        if self.kind == "grace":
            return Fraction(0)
        if self.kind == "mrest":
            return Fraction(self.dur)  # a measure rest lasts one bar of the meter in force: `dur` holds that length in quarters
        q = Fraction(4, self.dur) * (2 - Fraction(1, 2 ** self.dots))
        if self.tuplet:
            q = q * Fraction(self.tuplet[1], self.tuplet[0])
        return q


class Staff:
    def __init__(self, n, clef=("G", 2), key=0, meter=(4, 4), measures=(), meter_changes=None, key_changes=None):
        self.n, self.clef, self.key, self.meter = n, clef, key, meter
        self.measures = [list(m) for m in measures]   # measure -> list of layers -> list of Ev
        self.meter_changes = meter_changes or {}      # measure index -> (count, unit)
        self.key_changes = key_changes or {}          # measure index -> fifths (of the first staff: a key change applies to the whole score)


class Doc:
    def __init__(self, staves, names=None):
        self.staves = staves
        self.names = names  # measure names (encoded numbers), default 1..


def measure_lengths(doc):
    n = len(doc.staves[0].measures)
    out = []
    for i in range(n):
        out.append(max(sum((e.quarters() for e in layer), Fraction(0)) for st in doc.staves for layer in st.measures[i]))
    return out


def expected(doc):
    """per staff: notes [(layer, onset_q, dur_q, step, alter, octave, staff)] with ties joined NOT applied (written notes), the tie links
    as index pairs, measure starts, rests"""
    lens = measure_lengths(doc)
    starts = [sum(lens[:i], Fraction(0)) for i in range(len(lens) + 1)]
    out = []
    for st in doc.staves:
        notes, rests, ties = [], [], []
        open_tie = {}
        for i, layers in enumerate(st.measures):
            for li, layer in enumerate(layers):
                pos = starts[i]
                for e in layer:
                    q = e.quarters()
                    if e.kind in ("rest", "mrest"):
                        rests.append((li + 1, pos, q))
                    else:
                        for k, (step, alter, octv) in enumerate(e.pitches):
                            stf = st.n
                            if e.staff is not None:
                                stf = e.staff
                            if e.note_staffs and e.note_staffs[k] is not None:
                                stf = e.note_staffs[k]
                            idx = len(notes)
                            notes.append((li + 1, pos, q, step, alter, octv, stf, e.kind == "grace"))
                            key = (li, step, alter, octv)
                            if e.tie in ("stop", "cont") and key in open_tie:
                                ties.append((open_tie.pop(key), idx))
                            if e.tie in ("start", "cont"):
                                open_tie[key] = idx
                    pos += q
        out.append({"notes": notes, "rests": rests, "ties": ties, "measure_starts": starts[:-1], "end": starts[-1]})
    return out


def sounding(exp_staff):
    """written notes -> sounding notes with tie chains joined: (onset, duration, step, alter, octave)"""
    notes, ties = exp_staff["notes"], exp_staff["ties"]
    nxt = {a: b for a, b in ties}
    has_prev = {b for a, b in ties}
    out = []
    for i, n in enumerate(notes):
        if i in has_prev:
            continue
        end = n[1] + n[2]
        j = i
        while j in nxt:
            j = nxt[j]
            end = notes[j][1] + notes[j][2]
        out.append((n[1], end - n[1], n[3], n[4] or 0, n[5]))
    return sorted(out)


# ------------------------------------------------------------------------------------------------ MEI
ACC = {None: None, 0: "n", 1: "s", -1: "f", 2: "ss", -2: "ff"}


def to_mei(doc, with_ppq=False, attrs_as_children=True, ppq=None, beams=None):
    """a minimal MEI 4 document: one staffDef per staff inside a staffGrp, measures with staff/layer/note|chord|rest|tuplet"""
    lines = ['<?xml version="1.0" encoding="UTF-8"?>', '<mei xmlns="http://www.music-encoding.org/ns/mei" meiversion="4.0.0">',
             '<meiHead><fileDesc><titleStmt><title>generated</title></titleStmt><pubStmt/></fileDesc></meiHead>',
             '<music><body><mdiv xml:id="mdiv1"><score xml:id="score1">', '<scoreDef xml:id="sd1">', '<staffGrp xml:id="sg1" symbol="bracket">']
    for st in doc.staves:
        ppq_attr = ' ppq="%d"' % ppq if (with_ppq and ppq) else ""
        if attrs_as_children:
            lines.append('<staffDef xml:id="P%d" n="%d" lines="5"%s><label>Staff %d</label><clef xml:id="clef%d" shape="%s" line="%d"/>'
                         '<keySig xml:id="ks%d" sig="%s"/><meterSig xml:id="ms%d" count="%d" unit="%d"/></staffDef>'
                         % (st.n, st.n, ppq_attr, st.n, st.n, st.clef[0], st.clef[1], st.n, _sig(st.key), st.n, st.meter[0], st.meter[1]))
        else:
            lines.append('<staffDef xml:id="P%d" n="%d" lines="5"%s clef.shape="%s" clef.line="%d" key.sig="%s" meter.count="%d" meter.unit="%d"/>'
                         % (st.n, st.n, ppq_attr, st.clef[0], st.clef[1], _sig(st.key), st.meter[0], st.meter[1]))
    lines.append('</staffGrp></scoreDef>')
    lines.append('<section xml:id="sec1">')
    nmeas = len(doc.staves[0].measures)
    ids = [0]

    def nid(prefix):
        ids[0] += 1
        return "%s%d" % (prefix, ids[0])
    open_tie = {}
    for i in range(nmeas):
        mc = doc.staves[0].meter_changes.get(i)
        kc = doc.staves[0].key_changes.get(i)
        if mc or kc is not None:
            if attrs_as_children:
                lines.append('<scoreDef xml:id="%s">%s%s</scoreDef>' % (nid("sdc"), ('<keySig xml:id="%s" sig="%s"/>' % (nid("ksc"), _sig(kc))) if kc is not None else "",
                                                                      ('<meterSig xml:id="%s" count="%d" unit="%d"/>' % (nid("msc"), mc[0], mc[1])) if mc else ""))
            else:
                lines.append('<scoreDef xml:id="%s"%s%s/>' % (nid("sdc"), (' meter.count="%d" meter.unit="%d"' % mc) if mc else "", (' key.sig="%s"' % _sig(kc)) if kc is not None else ""))
        name = doc.names[i] if doc.names else str(i + 1)
        lines.append('<measure xml:id="%s" n="%s">' % (nid("m"), name))
        tie_els = []
        for st in doc.staves:
            lines.append('<staff xml:id="%s" n="%d">' % (nid("s"), st.n))
            for li, layer in enumerate(st.measures[i]):
                lines.append('<layer xml:id="%s" n="%d">' % (nid("l"), li + 1))
                k = 0
                while k < len(layer):
                    e = layer[k]
                    run = [e]
                    if e.tuplet:
                        j = k + 1
                        total = e.quarters()
                        unit = Fraction(4, e.dur) * e.tuplet[1]  # the span of one complete tuplet group
                        while j < len(layer) and layer[j].tuplet == e.tuplet and total < unit:
                            run.append(layer[j])
                            total += layer[j].quarters()
                            j += 1
                        beamed = beams is not None and all(x.dur >= 8 and x.kind in ("note", "chord") for x in run) and len(run) > 1
                        if beamed and beams == "around_tuplets":
                            lines.append('<beam xml:id="%s">' % nid("bm"))
                        lines.append('<tuplet xml:id="%s" num="%d" numbase="%d">' % (nid("t"), e.tuplet[0], e.tuplet[1]))
                        if beamed and beams == "inside_tuplets":
                            lines.append('<beam xml:id="%s">' % nid("bm"))
                    for ev in run:
                        lines.extend(_mei_event(ev, st, li, nid, open_tie, tie_els, with_ppq, ppq))
                    if e.tuplet:
                        if beamed and beams == "inside_tuplets":
                            lines.append('</beam>')
                        lines.append('</tuplet>')
                        if beamed and beams == "around_tuplets":
                            lines.append('</beam>')
                    k += len(run)
                lines.append('</layer>')
            lines.append('</staff>')
        lines.extend(tie_els)
        lines.append('</measure>')
    lines.append('</section></score></mdiv></body></music></mei>')
    return "\n".join(lines)


def _sig(fifths):
    return "0" if fifths == 0 else ("%ds" % fifths if fifths > 0 else "%df" % -fifths)


def _mei_event(ev, st, li, nid, open_tie, tie_els, with_ppq, ppq):
    dur_attrs = "" if ev.kind == "mrest" else ' dur="%d"' % ev.dur + (' dots="%d"' % ev.dots if ev.dots else "")
    if with_ppq and ppq and ev.kind == "grace":
        v = Fraction(4, ev.dur) * ppq  # the notated value; a grace note takes no time whatever this attribute says
        if v.denominator == 1:
            dur_attrs += ' dur.ppq="%d"' % int(v)
    if with_ppq and ppq and ev.kind != "grace":
        v = ev.quarters() * ppq
        assert v.denominator == 1
        dur_attrs += ' dur.ppq="%d"' % int(v)
    if ev.kind == "grace":
        dur_attrs += ' grace="unacc"'
    if ev.kind == "mrest":
        return ['<mRest xml:id="%s"/>' % nid("mr")]
    if ev.kind == "rest":
        return ['<rest xml:id="%s"%s/>' % (nid("r"), dur_attrs)]

    def note_el(k, p, attrs):
        step, alter, octv = p
        i = nid("n")
        acc = ' accid="%s"' % ACC[alter] if alter is not None else ""
        stf = ""
        if ev.note_staffs and ev.note_staffs[k] is not None:
            stf = ' staff="%d"' % ev.note_staffs[k]
        key = (st.n, li, step, alter, octv)
        if ev.tie in ("stop", "cont") and key in open_tie:
            tie_els.append('<tie xml:id="%s" startid="#%s" endid="#%s"/>' % (nid("tie"), open_tie.pop(key), i))
        if ev.tie in ("start", "cont"):
            open_tie[key] = i
        return '<note xml:id="%s"%s pname="%s" oct="%d"%s%s/>' % (i, attrs, step.lower(), octv, acc, stf)
    if ev.kind == "chord":
        stf = ' staff="%d"' % ev.staff if ev.staff is not None else ""
        out = ['<chord xml:id="%s"%s%s>' % (nid("c"), dur_attrs, stf)]
        for k, p in enumerate(ev.pitches):
            out.append(note_el(k, p, ""))
        out.append('</chord>')
        return out
    stf = ' staff="%d"' % ev.staff if ev.staff is not None else ""
    return [note_el(0, ev.pitches[0], dur_attrs + stf)]


# ------------------------------------------------------------------------------------------------ kern
def kern_pitch(step, alter, octv):
    if octv >= 4:
        s = step.lower() * (octv - 3)
    else:
        s = step.upper() * (4 - octv)
    acc = {None: "", 0: "n", 1: "#", -1: "-", 2: "##", -2: "--"}[alter]
    return s + acc


def kern_recip(ev):
    """reciprocal duration: a tuplet of num in the time of numbase on value dur is dur * num / numbase"""
    v = Fraction(ev.dur)
    if ev.tuplet:
        v = v * Fraction(ev.tuplet[0], ev.tuplet[1])
    assert v.denominator == 1, "not expressible as a plain kern reciprocal"
    return "%d%s" % (int(v), "." * ev.dots)


def kern_token(ev):
    r = kern_recip(ev)
    if ev.kind == "rest":
        return r + "r"
    toks = []
    for p in ev.pitches:
        t = r + kern_pitch(*p)
        if ev.kind == "grace":
            t += "q"
        if ev.tie == "start":
            t = "[" + t
        elif ev.tie == "stop":
            t = t + "]"
        elif ev.tie == "cont":
            t = t + "_"
        toks.append(t)
    return " ".join(toks)


KERN_KEYS = {0: "", 1: "f#", 2: "f#c#", 3: "f#c#g#", 4: "f#c#g#d#", -1: "b-", -2: "b-e-", -3: "b-e-a-", -4: "b-e-a-d-"}


def to_kern(doc, same_part=False):
    """one **kern spine per staff (lowest staff first, as the format prescribes: spines are written bottom-up), layers: first layer only"""
    staves = list(reversed(doc.staves))
    rows = [["**kern"] * len(staves)] + ([["*part1"] * len(staves)] if same_part else []) + [["*staff%d" % st.n for st in staves], ["*clef%s%d" % st.clef for st in staves],
            ["*k[%s]" % KERN_KEYS[st.key] for st in staves], ["*M%d/%d" % st.meter for st in staves]]
    nmeas = len(staves[0].measures)
    for i in range(nmeas):
        mc = doc.staves[0].meter_changes.get(i)
        name = doc.names[i] if doc.names else str(i + 1)
        rows.append(["=%s" % name] * len(staves))
        kc = doc.staves[0].key_changes.get(i)
        if kc is not None:
            rows.append(["*k[%s]" % KERN_KEYS[kc]] * len(staves))
        if mc:
            rows.append(["*M%d/%d" % mc] * len(staves))
        # time-aligned rows
        cols = []
        for st in staves:
            pos = Fraction(0)
            col = []
            for e in st.measures[i][0]:
                col.append((pos, e))
                pos += e.quarters()
            cols.append(col)
        idx = [0] * len(staves)
        while any(idx[c] < len(cols[c]) for c in range(len(staves))):
            t = min(cols[c][idx[c]][0] for c in range(len(staves)) if idx[c] < len(cols[c]))
            # grace notes (zero duration) come one per row before the event that shares their onset
            grace_cols = [c for c in range(len(staves)) if idx[c] < len(cols[c]) and cols[c][idx[c]][0] == t and cols[c][idx[c]][1].kind == "grace"]
            row = []
            for c in range(len(staves)):
                if idx[c] < len(cols[c]) and cols[c][idx[c]][0] == t and (not grace_cols or c in grace_cols):
                    row.append(kern_token(cols[c][idx[c]][1]))
                    idx[c] += 1
                else:
                    row.append(".")
            rows.append(row)
    # no final "==" barline: whether a measure "starts" at the closing barline is not settled by the property (the reader adds an empty one)
    rows.append(["*-"] * len(staves))
    return "\n".join("\t".join(r) for r in rows) + "\n"


# ------------------------------------------------------------------------------------------------ catalogue
def N(step, octv, dur=4, dots=0, alter=None, **kw):
    return Ev("note", [(step, alter, octv)], dur, dots, **kw)


def R(dur=4, dots=0, **kw):
    return Ev("rest", [], dur, dots, **kw)


def C(pitches, dur=4, dots=0, **kw):
    return Ev("chord", [(s, a, o) for (s, a, o) in pitches], dur, dots, **kw)


def G(step, octv, dur=8, alter=None, **kw):
    return Ev("grace", [(step, alter, octv)], dur, 0, **kw)


def catalogue(tier="quick"):
    """(name, Doc, formats) - formats: which writers can express the document"""
    out = []
    both = ("mei", "kern")
    out.append(("plain", Doc([Staff(1, measures=[[[N("C", 4), N("D", 4), N("E", 4, 2)]], [[N("F", 4, 1)]]])]), both))
    out.append(("values_and_dots", Doc([Staff(1, key=2, measures=[[[N("C", 4, 4, 1), N("D", 4, 8), N("E", 4, 2)]],
                                                                    [[N("F", 4, 2, 1, alter=1), N("G", 4, 8, 1), N("A", 4, 16)]],
                                                                    [[N("B", 3, 16), N("C", 5, 16), N("D", 5, 8), R(4), R(2)]]])]), both))
    out.append(("double_dots", Doc([Staff(1, measures=[[[N("C", 4, 4, 2), N("D", 4, 16), N("E", 4, 2)]], [[N("F", 4, 2, 2), N("G", 4, 8)]],
                                                        [[R(4, 2), N("A", 4, 16), N("B", 4, 2)]]])]), both))
    out.append(("triple_dot", Doc([Staff(1, measures=[[[N("C", 4, 2, 3), N("D", 4, 16)]], [[N("E", 4, 1)]]])]), both))
    out.append(("triplets", Doc([Staff(1, measures=[[[N("C", 4, 8, tuplet=(3, 2)), N("D", 4, 8, tuplet=(3, 2)), N("E", 4, 8, tuplet=(3, 2)), N("F", 4), N("G", 4, 2)]],
                                                     [[N("A", 4, 4, tuplet=(3, 2)), N("B", 4, 4, tuplet=(3, 2)), N("C", 5, 4, tuplet=(3, 2)), N("D", 5, 2)]]])]), both))
    out.append(("quintuplet", Doc([Staff(1, measures=[[[N(s, 4, 16, tuplet=(5, 4)) for s in "CDEFG"] + [N("A", 4), N("B", 4, 2)]], [[N("C", 5, 1)]]])]), both))
    out.append(("chords", Doc([Staff(1, measures=[[[C([("C", None, 4), ("E", None, 4), ("G", None, 4)], 2), C([("D", None, 4), ("F", 1, 4)], 4, 1), N("A", 4, 8)]],
                                                   [[C([("B", -1, 3), ("D", None, 4)], 1)]]])]), both))
    out.append(("left_hand_chords_under_a_melody", Doc([Staff(1, measures=[[[N("E", 5, 4), N("F", 5, 4), N("G", 5, 4), N("B", 5, 4)]], [[N("C", 6, 2), N("D", 6, 4), N("E", 6, 4)]]]),
                                                        Staff(2, clef=("F", 4), measures=[[[C([("C", None, 3), ("G", None, 3)], 2), C([("D", None, 3), ("A", None, 3)], 4), N("E", 3, 4)]],
                                                                                          [[C([("F", None, 2), ("C", None, 3), ("A", None, 3)], 4, 1), N("G", 2, 8), C([("C", None, 3), ("E", None, 3)], 2)]]])]), both))
    out.append(("ties", Doc([Staff(1, measures=[[[N("C", 4, 2), N("D", 4, 2, tie="start")]], [[N("D", 4, 4, tie="cont"), N("E", 4, 2, 1)]],
                                                 [[N("D", 4, 2), N("F", 4, 2, tie="start")]], [[N("F", 4, 1, tie="stop")]]])]), both))
    out.append(("tie_chain", Doc([Staff(1, measures=[[[N("G", 4, 1, tie="start")]], [[N("G", 4, 1, tie="cont")]], [[N("G", 4, 2, tie="stop"), R(2)]]])]), both))
    out.append(("grace", Doc([Staff(1, measures=[[[N("C", 4), G("D", 5), N("E", 4), N("F", 4, 2)]], [[G("A", 4), N("G", 4, 1)]]])]), both))
    out.append(("two_staves", Doc([Staff(1, measures=[[[N("C", 5), N("D", 5), N("E", 5, 2)]], [[N("F", 5, 2, 1), N("G", 5)]]]),
                                   Staff(2, clef=("F", 4), measures=[[[N("C", 3, 2), N("G", 2, 4, 1), N("A", 2, 8)]], [[N("F", 2, 1)]]])]), both))
    out.append(("two_staves_key_meter", Doc([Staff(1, key=-3, meter=(3, 4), measures=[[[N("E", 5, 4, alter=-1), N("D", 5), N("C", 5)]], [[N("B", 4, 2, 1, alter=-1)]]]),
                                             Staff(2, clef=("F", 4), key=-3, meter=(3, 4), measures=[[[N("C", 3, 2, 1)]], [[N("G", 2, 2), R(4)]]])]), both))
    out.append(("coarse_lower_fine_upper", Doc([Staff(1, meter=(2, 4), measures=[[[N("C", 5, 8, tuplet=(3, 2)), N("D", 5, 8, tuplet=(3, 2)), N("E", 5, 8, tuplet=(3, 2)), N("F", 5, 8), N("G", 5, 8)]],
                                                                                  [[N(s_, 5, 16, tuplet=(5, 4)) for s_ in "CDEFG"] + [N("A", 5)]]]),
                                                 Staff(2, clef=("F", 4), meter=(2, 4), measures=[[[N("C", 3), N("D", 3)]], [[N("E", 3), N("G", 3)]]])]), both))
    out.append(("triplets_in_the_left_hand", Doc([Staff(1, measures=[[[N("E", 5), N("D", 5), N("C", 5, 2)]], [[N("G", 5, 2), N("E", 5, 2)]]]),
                                                  Staff(2, clef=("F", 4), measures=[[[N("C", 3, 8, tuplet=(3, 2)), N("E", 3, 8, tuplet=(3, 2)), N("G", 3, 8, tuplet=(3, 2)), N("C", 3), N("E", 3, 2)]],
                                                                                    [[N("F", 2, 4, tuplet=(3, 2)), N("A", 2, 4, tuplet=(3, 2)), N("C", 3, 4, tuplet=(3, 2)), N("F", 2, 2)]]])]), both))
    out.append(("pickup", Doc([Staff(1, measures=[[[N("G", 4)]], [[N("C", 5, 2), N("B", 4, 2)]], [[N("A", 4, 2, 1)]]])], names=["0", "1", "2"]), both))
    out.append(("meter_change", Doc([Staff(1, measures=[[[N("C", 4, 1)]], [[N("D", 4, 2, 1)]], [[N("E", 4, 2, 1)]]], meter_changes={1: (3, 4)})]), both))
    out.append(("octaves_and_accidentals", Doc([Staff(1, measures=[[[N("C", 2, 4, alter=1), N("B", 5, 4, alter=-1), N("F", 6, 4, alter=2), N("E", 1, 4, alter=-2)]],
                                                                    [[N("A", 3, 4, alter=0), N("G", 4, 4), R(2)]]])]), both))
    out.append(("meter_and_key_change_at_one_barline", Doc([Staff(1, key=0, measures=[[[N("C", 4, 1)]], [[N("D", 4, 2, 1)]], [[N("F", 4, 2, 1, alter=1)]], [[N("E", 4, 4), N("B", 4, 4, alter=-1)]]],
                                                                 meter_changes={1: (3, 4), 3: (2, 4)}, key_changes={1: 4, 2: -1, 3: -3}),
                                                           Staff(2, clef=("F", 4), key=0, measures=[[[N("C", 3, 1)]], [[N("D", 3, 2, 1)]], [[N("F", 3, 2, 1)]], [[N("E", 3, 2)]]])]), both))
    out.append(("twelve_eight", Doc([Staff(1, meter=(12, 8), measures=[[[N("C", 4, 4, 1), N("D", 4, 4, 1), N("E", 4, 2, 1)]], [[N("G", 4, 1, 1)]]])]), both))
    out.append(("three_sixteen_then_twelve_sixteen", Doc([Staff(1, meter=(3, 16), measures=[[[N("C", 4, 8, 1)]], [[N("D", 4, 2, 1)]], [[N("E", 4, 4, 1), N("F", 4, 4, 1)]]], meter_changes={1: (12, 16)})]), both))
    out.append(("compound_6_8", Doc([Staff(1, meter=(6, 8), measures=[[[N("C", 4, 4, 1), N("D", 4, 8), N("E", 4, 8), N("F", 4, 8)]], [[N("G", 4, 2, 1)]]])]), both))
    # MEI only: layers, cross-staff notes
    mei = ("mei",)
    MR = lambda q: Ev("mrest", [], q)
    out.append(("measure_rests_in_4_8_coarse_divisions", Doc([Staff(1, meter=(4, 8), measures=[[[N("C", 5), N("D", 5)]], [[MR(2)]], [[N("E", 5, 2)]], [[MR(2)]], [[N("F", 5), N("G", 5)]]]),
                                                               Staff(2, clef=("F", 4), meter=(4, 8), measures=[[[MR(2)]], [[MR(2)]], [[N("C", 3, 2)]], [[N("D", 3), N("E", 3)]], [[MR(2)]]])]), mei))
    out.append(("measure_rests_in_6_8_then_3_4", Doc([Staff(1, meter=(6, 8), measures=[[[N("C", 5, 2, 1)]], [[MR(3)]], [[MR(3)]], [[N("E", 5, 2, 1)]]], meter_changes={2: (3, 4)}),
                                                       Staff(2, clef=("F", 4), meter=(6, 8), measures=[[[MR(3)]], [[MR(3)]], [[N("C", 3, 2, 1)]], [[MR(3)]]])]), mei))
    out.append(("two_layers", Doc([Staff(1, measures=[[[N("E", 5, 2), N("D", 5, 2)], [N("C", 4), N("D", 4), N("E", 4), N("F", 4)]],
                                                       [[N("C", 5, 1)], [N("G", 3, 2), N("C", 4, 2)]]])]), mei))
    T3 = lambda st_, o_, d_=8: N(st_, o_, d_, tuplet=(3, 2))
    out.append(("triplets_in_the_second_layer_and_in_the_left_hand", Doc([Staff(1, measures=[[[N("E", 5, 2), N("D", 5, 2)], [T3("C", 4), T3("D", 4), T3("E", 4), N("F", 4), T3("G", 4, 4), T3("A", 4, 4), T3("B", 4, 4)]],
                                                                                        [[N("C", 5, 1)], [N("G", 3, 2), T3("C", 4), T3("B", 3), T3("A", 3), N("G", 3)]]]),
                                                                      Staff(2, clef=("F", 4), measures=[[[T3("C", 3), T3("E", 3), T3("G", 3), N("C", 3), N("E", 3, 2)]],
                                                                                                        [[T3("F", 2, 4), T3("A", 2, 4), T3("C", 3, 4), N("F", 2, 2)]]])]), mei))
    out.append(("cross_staff_note", Doc([Staff(1, measures=[[[N("C", 4), N("G", 3, staff=2), N("E", 4, 2)]]]),
                                         Staff(2, clef=("F", 4), measures=[[[N("C", 3, 1)]]])]), mei))
    out.append(("cross_staff_grace_notes", Doc([Staff(1, measures=[[[N("C", 5), G("G", 3, staff=2), N("E", 5), N("G", 5, 2)]], [[G("A", 3, staff=2), G("B", 3, staff=2), N("C", 5, 1)]]]),
                                                Staff(2, clef=("F", 4), measures=[[[N("C", 3, 2), G("E", 5, staff=1), N("G", 2, 2)]], [[N("C", 2, 1)]]])]), mei))
    out.append(("cross_staff_chord_notes", Doc([Staff(1, measures=[[[C([("G", None, 3), ("E", None, 4), ("C", None, 5)], 2, note_staffs=[2, None, None]),
                                                                      C([("A", None, 3), ("F", None, 4)], 2, note_staffs=[None, 2])]],
                                                                    [[C([("F", None, 3), ("D", None, 4), ("B", None, 4)], 1, staff=2, note_staffs=[None, 1, None])]]]),
                                                Staff(2, clef=("F", 4), measures=[[[N("C", 3, 1)]], [[N("G", 2, 1)]]])]), mei))
    if tier == "thorough":
        import itertools
        import random
        rnd = random.Random(19)
        steps = "CDEFGAB"
        for k in range(40):
            nst = rnd.choice([1, 1, 2])
            nm = rnd.choice([2, 3])
            staves = []
            for s in range(nst):
                measures = []
                for m in range(nm):
                    layer, left = [], Fraction(4)
                    while left > 0:
                        opts = [(d, dots, None) for d in (1, 2, 4, 8, 16) for dots in (0, 1, 2)] + [(8, 0, (3, 2)), (4, 0, (3, 2))]
                        rnd.shuffle(opts)
                        for d, dots, tup in opts:
                            e = Ev("note", [(rnd.choice(steps), rnd.choice([None, None, 1, -1]), rnd.choice([3, 4, 5]))], d, dots, tup)
                            n = 3 if tup else 1
                            if e.quarters() * n <= left and ((left - e.quarters() * n) * 4).denominator == 1:
                                for _ in range(n):
                                    kind = rnd.choice(["note", "note", "chord", "rest"])
                                    p = [(rnd.choice(steps), rnd.choice([None, None, 1, -1]), rnd.choice([3, 4, 5]))]
                                    if kind == "chord":
                                        p.append((rnd.choice(steps), None, 2))
                                    layer.append(Ev(kind, [] if kind == "rest" else p, d, dots, tup))
                                left -= e.quarters() * n
                                break
                    measures.append([layer])
                staves.append(Staff(s + 1, clef=("G", 2) if s == 0 else ("F", 4), key=rnd.choice([0, 1, -2]), measures=measures))
            out.append(("random_%d" % k, Doc(staves), both))
    return out
