"""Feature lattice of scores that MusicXML can express, built through the public API (C03).

Every score is three or four measures long; `features` switches notational devices on.  Objects are created with the classes the
MusicXML reader itself uses for the same notation (directions through partitura.directions.parse_direction), voices and staves are
explicit, every note carries its symbolic duration - so the expected result of load(save(s)) is s itself."""
from fractions import Fraction

FEATURES = ["pickup", "chord", "two_voices", "two_staves", "tie_barline", "tie_chain", "tie_cross_voice", "grace", "grace_chain", "grace_run_below", "underfilled_measures", "slur", "slur_chain", "slur_overlap", "slur_barline",
            "tuplet", "dynamics", "every_dynamic_mark", "wedge", "wedge_overlap", "dashes", "dashes_overlap", "part_name_of_two_lines", "words", "words_quantified", "constant_directions_of_three_families", "pedal", "pedal_barline", "pedal_change_inside_a_measure", "tempo", "tempo_mid", "tempo_dotted_units", "repeat", "repeat_inside_measures", "ending", "fermata_note", "fermata_barline", "fermata_inner_barline",
            "articulation", "articulation_order", "fingering", "stem", "unpitched", "rests", "key_change", "ts_change", "clef_change", "divisions_change",
            "divisions_change_mid", "dotted", "page", "two_parts", "group", "nested_group", "nested_group_first", "voice_gap", "polyphony", "polyphony_two_voices", "polyphony_with_voices_1_and_3",
            "measure_names", "irregular_measure", "accidentals", "duplicate_ids"]

SYM = {Fraction(4): ("whole", 0), Fraction(3): ("half", 1), Fraction(2): ("half", 0), Fraction(3, 2): ("quarter", 1), Fraction(1): ("quarter", 0),
       Fraction(1, 2): ("eighth", 0), Fraction(3, 4): ("eighth", 1), Fraction(1, 4): ("16th", 0)}


def _sym(qdur, tuplet=None):
    if tuplet:
        return dict(type=tuplet[2], actual_notes=tuplet[0], normal_notes=tuplet[1])
    t, d = SYM[Fraction(qdur)]
    out = dict(type=t)
    if d:
        out["dots"] = d
    return out


class _B:
    """position bookkeeping: quarter positions -> divisions under a divisions schedule"""

    def __init__(self, part, schedule):
        self.part = part
        self.schedule = sorted(schedule)  # (quarter position, divisions)
        self.byid = {}

    def t(self, q):
        q = Fraction(q)
        t = Fraction(0)
        for i, (q0, d) in enumerate(self.schedule):
            q1 = self.schedule[i + 1][0] if i + 1 < len(self.schedule) else None
            if q1 is None or q < q1:
                t += (q - q0) * d
                break
            t += (q1 - q0) * d
        assert t.denominator == 1, (q, t)
        return int(t)


def build(features, pid="P1", seed=0):
    import partitura.score as sc
    from partitura.directions import parse_direction
    f = set(features)
    pk = 1 if "pickup" in f else 0           # pickup of one quarter
    m3len = 3 if "ts_change" in f else 4
    # quarter positions of the measure starts
    M = [0]
    if pk:
        M.append(1)
    M.append(M[-1] + 4)
    M.append(M[-1] + (2 if "irregular_measure" in f else 4))
    M.append(M[-1] + m3len)
    m1, m2, m3, mend = M[-4], M[-3], M[-2], M[-1]
    sched = [(0, 12)]
    if "divisions_change" in f:
        sched.append((m2, 6))
    if "divisions_change_mid" in f:
        sched.append((m1 + 2, 24))
        if "divisions_change" not in f:
            sched.append((m2, 12))
    part = sc.Part(pid, part_name="Part " + pid, quarter_duration=12)
    B = _B(part, sched)
    for q0, d in sched[1:]:
        part.set_quarter_duration(B.t(q0), d)
    two_v = bool(f & {"two_voices", "two_staves", "tie_chain", "polyphony_two_voices", "voice_gap"})
    st2 = 2 if "two_staves" in f else 1

    pre = "" if pid == "P1" else pid.lower() + "_"   # ids are unique in a document

    def note(nid, q0, qd, step, octave, alter=None, voice=1, staff=1, tuplet=None, cls=None, **kw):
        key, nid = nid, pre + nid
        if cls is sc.Rest:
            n = sc.Rest(id=nid, voice=voice, staff=staff, symbolic_duration=_sym(qd, tuplet), **kw)
        elif cls is sc.UnpitchedNote:
            n = sc.UnpitchedNote(step=step, octave=octave, id=nid, voice=voice, staff=staff, symbolic_duration=_sym(qd, tuplet), **kw)
        else:
            n = sc.Note(step=step, octave=octave, alter=alter, id=nid, voice=voice, staff=staff, symbolic_duration=_sym(qd, tuplet), **kw)
        part.add(n, B.t(q0), B.t(Fraction(q0) + Fraction(qd)))
        B.byid[key] = n
        return n

    def tie(a, b):
        B.byid[a].tie_next = B.byid[b]
        B.byid[b].tie_prev = B.byid[a]

    # ---- attributes
    part.add(sc.TimeSignature(4, 4), 0)
    part.add(sc.KeySignature(-1, "major"), 0)
    if "two_staves" in f:
        part.add(sc.Clef(staff=1, sign="G", line=2, octave_change=0), 0)
        part.add(sc.Clef(staff=2, sign="F", line=4, octave_change=0), 0)
    else:
        part.add(sc.Clef(staff=1, sign="G", line=2, octave_change=0), 0)
    if "page" in f:
        part.add(sc.Page(1), 0)
        part.add(sc.System(1), 0)
        part.add(sc.System(2), B.t(m3))
    if "key_change" in f:
        part.add(sc.KeySignature(2, "minor"), B.t(m2))
    if "ts_change" in f:
        part.add(sc.TimeSignature(3, 4), B.t(m3))
    if "clef_change" in f:
        part.add(sc.Clef(staff=1, sign="C", line=3, octave_change=0), B.t(m2))
        part.add(sc.Clef(staff=1, sign="G", line=2, octave_change=-1), B.t(m2 + 2))

    # ---- voice 1
    if pk:
        note("pk", 0, 1, "G", 4)
    note("n0", m1, 1, "C", 4, alter=(1 if "accidentals" in f else None), articulations=(["accent", "staccato"] if "articulation" in f else ["staccato", "accent"] if "articulation_order" in f else None))
    if "rests" in f:
        note("r1", m1 + 1, 1, None, None, cls=sc.Rest)
    else:
        note("n1", m1 + 1, 1, "D", 4, alter=(-1 if "accidentals" in f else None), technical=([sc.Fingering(3)] if "fingering" in f else None))
    if "chord" in f:
        note("n1c", m1 + 1, 1, "F", 4)
        note("n1d", m1 + 1, 1, "A", 4, alter=(2 if "accidentals" in f else None))
    if "dotted" in f:
        note("n2", m1 + 2, Fraction(3, 2), "E", 4, stem_direction=("up" if "stem" in f else None))
        note("n2b", m1 + Fraction(7, 2), Fraction(1, 2), "F", 4)
    else:
        # (underfilled: nothing sounds in the last beat of the first full measure, and no rest stands there)
        note("n2", m1 + 2, 1 if "underfilled_measures" in f else 2, "E", 4, stem_direction=("up" if "stem" in f else None))
    if "polyphony_with_voices_1_and_3" in f:
        # voice numbers with a hole (1 and 3, as after deleting a voice; notation programs also number 1, 2, 5, 6): the note that has to
        # leave voice 1 must get a number that is not in use
        note("pv3a", m1, 4, "C", 3, voice=3, staff=1)
        note("pv3b", m2, m3 - m2, "D", 3, voice=3, staff=1)
    if "polyphony" in f or "polyphony_two_voices" in f or "polyphony_with_voices_1_and_3" in f:
        # a note overlapping the next onset of its own voice: has to move to a free voice on export
        note("px", m1 + 1, 2, "B", 4)
    m2len = m3 - m2
    if m2len == 4:
        note("n3", m2, 2, "F", 4, stem_direction=("down" if "stem" in f else None))
        if "tuplet" in f:
            for k, (nid, step) in enumerate((("t0", "G"), ("t1", "A"), ("t2", "B"))):
                note(nid, m2 + 2 + Fraction(k, 3), Fraction(1, 3), step, 4, tuplet=(3, 2, "eighth"))
        elif "unpitched" in f:
            note("u4", m2 + 2, 1, "E", 4, cls=sc.UnpitchedNote, notehead="x", noteheadstyle=True)
        else:
            note("n4", m2 + 2, 1, "G", 4)
        note("n5", m2 + 3, 1, "A", 4)
    else:
        note("n3", m2, 1, "F", 4)
        note("n5", m2 + 1, 1, "A", 4)
    if m3len == 4:
        note("n6", m3, 2 if "underfilled_measures" in f else 4, "C", 5)  # (underfilled: the last measure is half empty)
    else:
        note("n6", m3, 3, "C", 5)
    if "tie_barline" in f:
        note("n5t", m3, m3len, "A", 4)
        tie("n5", "n5t")
    # ---- voice 2
    if two_v and "divisions_change_mid" in f and "split_at_change" in f:
        # voice 2 changes note exactly where the divisions change: no note sounds across the change
        note("b0", m1, 2, "C", 3, voice=2, staff=st2)
        note("b0b", m1 + 2, 2, "D", 3, voice=2, staff=st2)
    elif two_v:
        note("b0", m1, 4, "C", 3, voice=2, staff=st2)
        if "voice_gap" in f:
            # voice 2 is silent for the first quarter of the second measure, without a rest
            note("b1", m2 + 1, 1, "G", 2, voice=2, staff=st2)
            if m2len == 4:
                note("b1b", m2 + 3, 1, "G", 2, voice=2, staff=st2)
        else:
            note("b1", m2, m2len, "G", 2, voice=2, staff=st2)
        note("b2", m3, m3len, "G", 2, voice=2, staff=st2)
        if "tie_chain" in f:
            note("b3", m3, m3len, "C", 3, voice=2, staff=st2)
            B.byid["b1x"] = note("b1x", m2, m2len, "C", 3, voice=2, staff=st2) if "voice_gap" not in f else None
            if B.byid["b1x"] is not None:
                tie("b0", "b1x")
                tie("b1x", "b3")
        if "polyphony_two_voices" in f:
            note("py", m1, 3, "E", 3, voice=2, staff=st2)
    if "tie_cross_voice" in f:
        note("xv", m3, 1, "A", 4, voice=3, staff=1)
        if "tie_barline" not in f:
            tie("n5", "xv")
    # ---- grace notes
    if "grace" in f or "grace_chain" in f:
        g = sc.GraceNote("acciaccatura", step="E", octave=5, id=pre + "g0", voice=1, staff=1, symbolic_duration=dict(type="eighth"))
        part.add(g, B.t(m2), B.t(m2))
        B.byid["g0"] = g
        last = g
        if "grace_chain" in f:
            g1 = sc.GraceNote("grace", step="D", octave=5, id=pre + "g1", voice=1, staff=1, symbolic_duration=dict(type="16th"))
            part.add(g1, B.t(m2), B.t(m2))
            g.grace_next = g1
            g1.grace_prev = g
            last = g1
        last.grace_next = B.byid["n3"]
    if "grace_run_below" in f:
        # upward runs of two grace notes that lie BELOW their main notes: before n3 (F4, first note of its measure, more notes of the voice follow)
        # and before n5 (A4, last note of its measure)
        for main, steps in (("n3", ("C", "D")), ("n5", ("E", "G"))):
            ga = sc.GraceNote("grace", step=steps[0], octave=4, id=pre + "gb0" + main, voice=1, staff=1, symbolic_duration=dict(type="16th"))
            gb = sc.GraceNote("grace", step=steps[1], octave=4, id=pre + "gb1" + main, voice=1, staff=1, symbolic_duration=dict(type="16th"))
            tm = B.byid[main].start.t
            part.add(ga, tm, tm)
            part.add(gb, tm, tm)
            ga.grace_next, gb.grace_prev = gb, ga
            gb.grace_next = B.byid[main]
    # ---- slurs / tuplets
    if "slur" in f:
        a, b = B.byid["n0"], B.byid["n2"]
        part.add(sc.Slur(a, b), a.start.t, b.end.t)
    if "slur_chain" in f:
        # two consecutive slurs sharing a note: one ends on the note the next begins on
        a, b, c = B.byid["n0"], B.byid["n2"], B.byid["n3"]
        part.add(sc.Slur(a, b), a.start.t, b.end.t)
        part.add(sc.Slur(b, c), b.start.t, c.end.t)
    if "slur_overlap" in f:
        # A ends while B is open, then C starts while B is still open
        for x, y in (("n0", "n2"), ("n1" if "n1" in B.byid else "n0", "n5"), ("n3", "n6")):
            a, b = B.byid[x], B.byid[y]
            part.add(sc.Slur(a, b), a.start.t, b.end.t)
    if "slur_barline" in f:
        a, b = B.byid["n5"], B.byid["n6"]
        part.add(sc.Slur(a, b), a.start.t, b.end.t)
    if "tuplet_cross_voice" in f and "n4" in B.byid:
        part.remove(B.byid["n4"])
        del B.byid["n4"]
        note("x0", m2 + 2, Fraction(1, 3), "G", 4, voice=3, staff=1, tuplet=(3, 2, "eighth"))
        note("x1", m2 + 2 + Fraction(1, 3), Fraction(1, 3), "A", 4, voice=1, staff=1, tuplet=(3, 2, "eighth"))
        note("x2", m2 + 2 + Fraction(2, 3), Fraction(1, 3), "B", 4, voice=1, staff=1, tuplet=(3, 2, "eighth"))
        a, b = B.byid["x0"], B.byid["x2"]
        part.add(sc.Tuplet(a, b, actual_notes=3, normal_notes=2, actual_type="eighth", normal_type="eighth"), a.start.t, b.end.t)
    if "tuplet" in f and "t0" in B.byid:
        a, b = B.byid["t0"], B.byid["t2"]
        part.add(sc.Tuplet(a, b, actual_notes=3, normal_notes=2, actual_type="eighth", normal_type="eighth"), a.start.t, b.end.t)
    # ---- directions
    def direction(text, q0, q1=None):
        for d in parse_direction(text):
            part.add(d, B.t(q0), B.t(q1) if q1 is not None else None)
    if "direction_inside_last_note" in f:
        part.add(sc.ConstantLoudnessDirection("mf"), B.t(m1 + 3))
        for d in parse_direction("dolce"):
            part.add(d, B.t(m2 + Fraction(7, 2)))
    if "dynamics_both_staves" in f:
        part.add(sc.ConstantLoudnessDirection("p"), B.t(m1))
        part.add(sc.ConstantLoudnessDirection("p", staff=2), B.t(m1))
        part.add(sc.ConstantLoudnessDirection("f"), B.t(m2))
        part.add(sc.ConstantLoudnessDirection("mf", staff=2), B.t(m3))
        part.add(sc.ConstantLoudnessDirection("mf"), B.t(m3))
    if "dynamics" in f:
        part.add(sc.ConstantLoudnessDirection("f"), B.t(m1 + 1))
        part.add(sc.ImpulsiveLoudnessDirection("sfz"), B.t(m2))
        part.add(sc.ConstantLoudnessDirection("pp", staff=(2 if "two_staves" in f else None)), B.t(m3))
    if "every_dynamic_mark" in f:
        # every level from pppppp to ffffff and n lasts until the next level; every accent-like mark (sf, sfz, fz, rf, fp, ...) stands at one
        # instant (the classification is written out here, not taken from the library's tables)
        levels = ["pppppp", "ppppp", "pppp", "ppp", "pp", "p", "mp", "mf", "f", "ff", "fff", "ffff", "fffff", "ffffff", "n"]
        accents = ["fp", "pf", "rf", "rfz", "fz", "sf", "sffz", "sfp", "sfzp", "sfpp", "sfz"]
        unit = Fraction(1, 4)
        pos = Fraction(m1)
        for k_ in range(max(len(levels), len(accents))):
            if k_ < len(levels):
                part.add(sc.ConstantLoudnessDirection(levels[k_]), B.t(pos))
                pos += unit
            if k_ < len(accents):
                part.add(sc.ImpulsiveLoudnessDirection(accents[k_]), B.t(pos))
                pos += unit
    if "wedge_overlap" in f:
        part.add(sc.IncreasingLoudnessDirection("crescendo", wedge=True), B.t(m1), B.t(m1 + 2))
        part.add(sc.DecreasingLoudnessDirection("diminuendo", wedge=True), B.t(m1 + 1), B.t(m2 + 2))
        part.add(sc.IncreasingLoudnessDirection("crescendo", wedge=True), B.t(m2), B.t(m3))
    if "wedge" in f:
        part.add(sc.IncreasingLoudnessDirection("crescendo", wedge=True), B.t(m2), B.t(m2 + 1))
        # (with two staves the second hairpin stands below the lower staff)
        part.add(sc.DecreasingLoudnessDirection("diminuendo", wedge=True, staff=(2 if "two_staves" in f else None)), B.t(m3), B.t(m3 + 2))
    if "dashes" in f:
        direction("cresc.", m1 + 2, m2 + 1)
    if "dashes_overlap" in f:
        # two dashed directions of different families that overlap in time (the writer numbers them 1 and 2)
        direction("cresc.", m1, m2 + 1)
        direction("rit.", m1 + 2, m3)
    if "part_name_of_two_lines" in f:
        # a line break and a tab are legal characters of XML text
        part.part_name = "Clarinet\nin B flat"
        part.part_abbreviation = "Cl.\tB"
    if "words" in f:
        direction("dolce", m1)
        direction("some unknown words", m3)
    if "constant_directions_of_three_families" in f:
        # open-ended loudness, tempo and articulation marks interleaved: each lasts until the next mark OF ITS OWN family
        part.add(sc.ConstantLoudnessDirection("p"), B.t(m1))
        part.add(sc.ConstantTempoDirection("allegro", raw_text="Allegro"), B.t(m1))
        part.add(sc.ConstantArticulationDirection("legato", staff=(2 if "two_staves" in f else None)), B.t(m1 + 2))
        part.add(sc.ConstantLoudnessDirection("f"), B.t(m2))
        part.add(sc.ConstantArticulationDirection("staccato"), B.t(m2 + 2))
        part.add(sc.ConstantTempoDirection("adagio", raw_text="Adagio"), B.t(m3))
    if "words_quantified" in f:
        # printed texts that are more than the normalised term: a quantifier before it, two terms joined by a conjunction
        # (built by hand, not through the library's own parser: the printed text is the datum under test)
        part.add(sc.DecreasingTempoDirection("ritardando", raw_text="poco rit."), B.t(m1 + 1), B.t(m2))
        part.add(sc.ConstantTempoDirection("stretto", raw_text="molto stretto"), B.t(m2 + 1))
        part.add(sc.IncreasingLoudnessDirection("crescendo", raw_text="sempre cresc."), B.t(m3), B.t(m3 + 2))
    if "pedal" in f:
        part.add(sc.SustainPedalDirection(line=False), B.t(m1), B.t(m1 + 2))
        # (one sustain pedal cannot be down twice: with the pedal held across the barline into m3 the second one starts after that is released)
        late = 1 if "pedal_barline" in f else 0
        part.add(sc.SustainPedalDirection(line=True, staff=(2 if "two_staves" in f else None)), B.t(m3 + late), B.t(m3 + 1 + late))
    if "pedal_barline" in f:
        part.add(sc.SustainPedalDirection(line=False), B.t(m2 + 2), B.t(m3 + 1))
    if "pedal_change_inside_a_measure" in f:
        # legato pedalling: the pedal pressed in one bar is lifted inside the next bar at the very place where it is pressed again
        part.add(sc.SustainPedalDirection(line=True), B.t(m1 + 1), B.t(m2 + 2))
        part.add(sc.SustainPedalDirection(line=True), B.t(m2 + 2), B.t(m3 + 1))
    if "tempo" in f:
        part.add(sc.Tempo(100, "q"), 0)
        part.add(sc.Tempo(60, "q"), B.t(m2))
    if "tempo_mid" in f:
        part.add(sc.Tempo(72, "q"), B.t(m2 + 1))
    if "tempo_dotted_units" in f:
        # metronome marks on units with no, one, two and three dots
        part.add(sc.Tempo(48, "h."), 0)
        part.add(sc.Tempo(40, "q.."), B.t(m2))
        part.add(sc.Tempo(64, "e."), B.t(m2 + 1))
        part.add(sc.Tempo(32, "q..."), B.t(m3))
    # ---- repeats, endings, fermatas
    if "repeat_inside_measures" in f:
        # a repeat that begins in the middle of the first full measure and ends in the middle of the last one, where the long last note of voice 1 sounds across the sign
        part.add(sc.Repeat(), B.t(m1 + 2), B.t(m3 + 2))
    if "repeat" in f and "ending" not in f:
        part.add(sc.Repeat(), B.t(m1), B.t(m3))
    if "ending" in f:
        part.add(sc.Repeat(), B.t(m1), B.t(m3))
        part.add(sc.Ending("1"), B.t(m2), B.t(m3))
        part.add(sc.Ending("2"), B.t(m3), B.t(mend))
    if "fermata_note" in f:
        n = B.byid["n6"]
        fm = sc.Fermata(n)
        part.add(fm, n.start.t)
        n.fermata = fm
    if "fermata_barline" in f:
        part.add(sc.Fermata("right"), B.t(mend))
    if "fermata_inner_barline" in f:
        part.add(sc.Fermata("right"), B.t(m3))
    # ---- measures
    names = ["0", "1", "2", "3"] if pk else ["1", "2", "3"]
    if "measure_names" in f:
        names = ["X" + n for n in names]
    bounds = list(zip(M[:-1], M[1:]))
    for i, ((a, b), nm) in enumerate(zip(bounds, names)):
        part.add(sc.Measure(number=i + 1, name=nm), B.t(a), B.t(b))
    if "duplicate_ids" in f:
        B.byid["n5"].id = "n0"
    return part


def score(features, seed=0):
    import partitura.score as sc
    f = set(features)
    parts = [build(features, "P1", seed)]
    if "nested_group_first" in f:
        # a nested group that is NOT the last child of its parent, followed by a sibling part and by a part outside every group
        keep = [x for x in features if x in ("pickup", "ts_change", "irregular_measure")]
        parts += [build(keep, "P2", seed), build(keep, "P3", seed), build(keep, "P4", seed)]
        inner = sc.PartGroup(group_symbol="bracket", group_name="violins", number=2)
        inner.children = parts[0:2]
        for p in inner.children:
            p.parent = inner
        outer = sc.PartGroup(group_symbol="brace", group_name="strings", number=1)
        outer.children = [inner, parts[2]]
        inner.parent = outer
        parts[2].parent = outer
        return sc.Score(partlist=[outer, parts[3]], id="S")
    if f & {"two_parts", "group", "nested_group"}:
        parts.append(build([x for x in features if x in ("pickup", "ts_change", "irregular_measure", "rests", "tie_barline")], "P2", seed))
    if "nested_group" in f:
        parts.append(build([x for x in features if x in ("pickup", "ts_change", "irregular_measure")], "P3", seed))
        inner = sc.PartGroup(group_symbol="bracket", group_name="inner", number=2)
        inner.children = parts[1:]
        for p in parts[1:]:
            p.parent = inner
        outer = sc.PartGroup(group_symbol="brace", group_name="outer", number=1)
        outer.children = [parts[0], inner]
        parts[0].parent = outer
        inner.parent = outer
        return sc.Score(partlist=[outer], id="S")
    if "group" in f:
        g = sc.PartGroup(group_symbol="bracket", group_name="strings", number=1)
        g.children = parts
        for p in parts:
            p.parent = g
        return sc.Score(partlist=[g], id="S")
    return sc.Score(partlist=parts, id="S")


def catalogue(tier="quick"):
    """(name, feature list): each feature alone, everything compatible together, and (thorough) all pairs"""
    import itertools
    out = [("base", [])]
    for x in FEATURES:
        out.append((x, [x]))
    combos = [
        ("rich_a", ["pickup", "chord", "two_staves", "tie_barline", "grace_chain", "slur", "tuplet", "dynamics", "wedge", "words", "tempo", "ending",
                    "fermata_note", "articulation", "fingering", "stem", "key_change", "page", "accidentals"]),
        ("rich_b", ["two_voices", "tie_chain", "slur_barline", "dashes", "tempo_mid", "repeat", "fermata_barline", "rests", "ts_change", "clef_change",
                    "divisions_change", "dotted", "group", "measure_names"]),
        ("rich_c", ["pickup", "two_voices", "voice_gap", "unpitched", "divisions_change_mid", "irregular_measure", "nested_group", "tie_cross_voice", "grace"]),
        ("polyphony_both", ["two_voices", "polyphony", "polyphony_two_voices"]),
        ("two_voices_divisions_change_between_notes", ["two_voices", "divisions_change_mid", "split_at_change"]),
        ("two_staves_divisions_change_between_notes_pickup", ["pickup", "two_staves", "divisions_change_mid", "split_at_change", "divisions_change"]),
        ("same_dynamic_on_both_staves", ["two_staves", "dynamics_both_staves"]),
        ("two_voices_direction_inside_the_last_note_of_voice_1", ["two_voices", "direction_inside_last_note"]),
        ("two_staves_direction_inside_the_last_note_pickup", ["pickup", "two_staves", "direction_inside_last_note", "tie_barline"]),
        ("tuplet_that_starts_in_voice_3_and_ends_in_voice_1", ["tuplet_cross_voice"]),
        ("polyphony_ties", ["polyphony", "tie_barline", "tie_cross_voice", "two_staves"]),
        ("two_staves_hairpin_and_words_on_the_lower_staff", ["two_staves", "wedge", "constant_directions_of_three_families", "dynamics"]),
        ("two_voices_repeat_signs_inside_measures", ["two_voices", "repeat_inside_measures"]),
        ("repeat_sign_where_the_divisions_change_inside_a_measure", ["repeat_inside_measures", "divisions_change_mid"]),
        ("underfilled_measures_in_two_parts_with_a_pickup", ["pickup", "underfilled_measures", "group"]),
    ]
    out += combos
    if tier == "thorough":
        # pairs of features that put two things where notation has room for one are left out: two metronome marks at one instant, two
        # sustain-pedal spans that overlap, repeats that cross each other, two separately built groups of grace notes before one note (which of
        # them comes first is not stated), and a grace chain that ends on a note whose id another note shares
        clash = {frozenset(x) for x in (("tempo", "tempo_dotted_units"), ("tempo_mid", "tempo_dotted_units"), ("pedal", "pedal_change_inside_a_measure"),
                                        ("pedal_barline", "pedal_change_inside_a_measure"), ("repeat", "repeat_inside_measures"), ("repeat_inside_measures", "ending"),
                                        ("dynamics", "every_dynamic_mark"), ("dynamics_both_staves", "every_dynamic_mark"), ("constant_directions_of_three_families", "every_dynamic_mark"),
                                        ("direction_inside_last_note", "every_dynamic_mark"), ("grace", "grace_run_below"), ("grace_chain", "grace_run_below"), ("grace_run_below", "duplicate_ids"))}
        for a, b in itertools.combinations(FEATURES, 2):
            # (the dynamic marks stand on a sixteenth grid, which the coarser divisions of the divisions-change features cannot hold)
            if "every_dynamic_mark" in (a, b) and ("divisions_change" in a + b or "split_at_change" in (a, b)):
                continue
            if frozenset((a, b)) not in clash:
                out.append((a + "+" + b, [a, b]))
    return out
