"""Small-scope generators of scores/parts built through the public partitura API, and a structural fingerprint.
Deterministic: the same tier gives the same cases; randomised extensions take an explicit seed."""
import itertools
import random
from fractions import Fraction

import numpy as np


def _sc():
    import partitura.score as sc
    return sc


# ------------------------------------------------------------------------------------------- fingerprint
def _val(v, index, depth=0):
    sc = _sc()
    if isinstance(v, (str, int, float, bool, type(None))):
        return v
    if isinstance(v, (np.integer,)):
        return int(v)
    if isinstance(v, (np.floating,)):
        return float(v)
    if isinstance(v, Fraction):
        return "F%s/%s" % (v.numerator, v.denominator)
    if isinstance(v, sc.TimedObject):
        return ("ref", index.get(id(v), ("ext", type(v).__name__, getattr(v, "id", None))))
    if isinstance(v, sc.TimePoint):
        return ("tp", v.t)
    if isinstance(v, (list, tuple)):
        return [_val(x, index, depth + 1) for x in v]
    if isinstance(v, dict):
        return sorted((str(k), _val(x, index, depth + 1)) for k, x in v.items())
    if isinstance(v, set):
        return sorted(repr(_val(x, index, depth + 1)) for x in v)
    if isinstance(v, np.ndarray):
        return v.tolist()
    d = getattr(v, "__dict__", None)
    if d is not None and depth < 3:
        return (type(v).__name__, sorted((k, _val(x, index, depth + 1)) for k, x in d.items()))
    return repr(v)


def fingerprint(obj, skip_pitch=False, natural_is_none=False):
    """canonical description of a Part / Score / Performance / PerformedPart: objects, times, attributes and links.
    Excluded by declaration: empty defaultdict registries and the Part._number_of_staves cache."""
    sc = _sc()
    import partitura.performance as pf
    if isinstance(obj, sc.Score):
        return ("Score", obj.id, [fingerprint(p, skip_pitch, natural_is_none) for p in obj.parts],
                [_group(g) for g in obj.part_structure])
    if isinstance(obj, pf.Performance):
        return ("Performance", obj.id, [fingerprint(p) for p in obj.performedparts])
    if isinstance(obj, pf.PerformedPart):
        return ("PerformedPart", obj.id, obj.part_name, [sorted(((k, _val(v, {})) for k, v in dict(n).items()), key=repr) for n in obj.notes],
                [sorted(c.items(), key=repr) for c in obj.controls], [sorted(p.items(), key=repr) for p in obj.programs],
                obj.ppq, obj.mpq, obj.sustain_pedal_threshold)
    if isinstance(obj, (list, tuple)):
        return [fingerprint(x, skip_pitch) for x in obj]
    if isinstance(obj, np.ndarray):
        return ("ndarray", str(obj.dtype), obj.tolist())
    part = obj
    objs = []
    index = {}
    for tp in part._points:
        for reg, tag in ((tp.starting_objects, "s"), (tp.ending_objects, "e")):
            for cls in sorted(reg.keys(), key=lambda c: c.__name__):
                for o in reg[cls]:
                    if id(o) not in index:
                        index[id(o)] = len(index)
                        objs.append(o)
    out = []
    for o in objs:
        d = {}
        for k, v in o.__dict__.items():
            if k in ("start", "end"):
                continue
            if skip_pitch and k in ("step", "alter", "octave"):
                continue
            if natural_is_none and k == "alter" and v == 0:
                v = None
            d[k] = _val(v, index)
        out.append((index[id(o)], type(o).__name__, o.start.t if o.start is not None else None,
                    o.end.t if o.end is not None else None, sorted(d.items(), key=lambda kv: kv[0])))
    points = []
    for tp in part._points:
        points.append((tp.t, tp.quarter, tp.prev.t if tp.prev is not None else None, tp.next.t if tp.next is not None else None,
                       [(c.__name__, [index[id(o)] for o in reg]) for c, reg in sorted(tp.starting_objects.items(), key=lambda kv: kv[0].__name__) if len(reg)],
                       [(c.__name__, [index[id(o)] for o in reg]) for c, reg in sorted(tp.ending_objects.items(), key=lambda kv: kv[0].__name__) if len(reg)]))
    return ("Part", part.id, part.part_name, list(part._quarter_times), list(part._quarter_durations), points, out,
            getattr(part, "_use_musical_beat", None))


def _group(g):
    sc = _sc()
    if isinstance(g, sc.PartGroup):
        return ("group", g.group_symbol, g.group_name, g.number, [_group(c) for c in g.children])
    return ("part", g.id)


# ------------------------------------------------------------------------------------------- builders
def build_part(pid="P1", divs=4, ts=((0, 4, 4),), notes=(), rests=(), ties=(), graces=(), key=None, clefs=(), measures="auto",
               quarter_changes=(), tie_auto=False, extra=None):
    """notes: (id, onset, dur, step, alter, octave, voice, staff); ties: (id_a, id_b); graces: (id, onset, step, alter, octave, voice, staff, main_id)"""
    sc = _sc()
    part = sc.Part(pid, part_name=pid, quarter_duration=divs)
    for t, q in quarter_changes:
        part.set_quarter_duration(t, q)
    for t, b, bt in ts:
        part.add(sc.TimeSignature(b, bt), t)
    if key is not None:
        part.add(sc.KeySignature(key[0], key[1]), 0)
    for t, staff, sign, line in clefs:
        part.add(sc.Clef(staff=staff, sign=sign, line=line, octave_change=0), t)
    byid = {}
    for (nid, on, dur, step, alter, octv, voice, staff) in notes:
        n = sc.Note(step=step, octave=octv, alter=alter, id=nid, voice=voice, staff=staff)
        part.add(n, on, on + dur)
        byid[nid] = n
    for (rid, on, dur, voice, staff) in rests:
        r = sc.Rest(id=rid, voice=voice, staff=staff)
        part.add(r, on, on + dur)
        byid[rid] = r
    for (gid, on, step, alter, octv, voice, staff, main) in graces:
        g = sc.GraceNote("acciaccatura", step=step, octave=octv, alter=alter, id=gid, voice=voice, staff=staff)
        part.add(g, on, on)
        byid[gid] = g
        if main in byid:
            g.grace_next = byid[main]
            byid[main].grace_prev = g
    for a, c in ties:
        byid[a].tie_next = byid[c]
        byid[c].tie_prev = byid[a]
    if extra:
        extra(part, byid)
    if measures == "auto":
        sc.add_measures(part)
    elif measures:
        for i, (s, e) in enumerate(measures):
            part.add(sc.Measure(number=i + 1, name=str(i + 1)), s, e)
    if tie_auto:
        sc.tie_notes(part)
    return part


def simple_score(parts):
    sc = _sc()
    return sc.Score(partlist=parts, id="S")


def transposable_scores(tier="quick"):
    """(name, maker) list; every maker returns a fresh Score"""
    out = []

    def s1():
        return simple_score([build_part("P1", 4, notes=[("n0", 0, 4, "C", None, 4, 1, 1), ("n1", 4, 4, "E", 0, 4, 1, 1),
                                                          ("n2", 8, 8, "G", 1, 4, 1, 1), ("n3", 16, 4, "B", -1, 3, 1, 1)], key=(0, "major"))])
    out.append(("plain", s1))

    def s2():
        # tie over a barline + chord + grace note
        return simple_score([build_part("P1", 4,
                                        notes=[("n0", 0, 12, "F", 1, 4, 1, 1), ("n1", 12, 4, "A", None, 4, 1, 1), ("n1t", 16, 4, "A", None, 4, 1, 1),
                                               ("n2", 20, 4, "C", 0, 5, 1, 1), ("n2c", 20, 4, "E", -1, 5, 1, 1), ("n3", 24, 8, "B", 0, 3, 2, 1)],
                                        ties=[("n1", "n1t")], graces=[("g0", 20, "D", 1, 5, 1, 1, "n2")], key=(-3, "minor"))])
    out.append(("tie_chord_grace", s2))

    def s3():
        # long tie chain over two barlines, two parts with different divisions
        p1 = build_part("P1", 2, notes=[("a0", 0, 8, "B", None, 3, 1, 1), ("a1", 8, 8, "B", None, 3, 1, 1), ("a2", 16, 4, "B", None, 3, 1, 1),
                                        ("a3", 20, 4, "C", 1, 4, 1, 1)], ties=[("a0", "a1"), ("a1", "a2")])
        p2 = build_part("P2", 3, ts=((0, 3, 4),), notes=[("b0", 0, 9, "E", -1, 2, 1, 1), ("b1", 9, 9, "G", 2, 2, 1, 1)],
                        rests=[("r0", 18, 9, 1, 1)], graces=[("gb", 9, "F", None, 2, 1, 1, "b1")])
        return simple_score([p1, p2])
    out.append(("tie_chain_two_parts", s3))
    if tier == "thorough":
        def s4():
            return simple_score([build_part("P1", 12, ts=((0, 6, 8),), notes=[("n%d" % i, 6 * i, 6, st, al, 4 + (i % 2), 1 + i % 2, 1)
                                                                              for i, (st, al) in enumerate(itertools.product("CDEFGAB", (-2, -1, 0, 1, 2)))][:20])])
        out.append(("all_spellings", s4))
    return out


# ------------------------------------------------------------------------------------------- catalogues
def rich_part(pid="P1", divs=4):
    """two staves, two voices, chord with unequal durations, tie over barline, grace note, slur, tuplet, dynamics, tempo,
    key/time signature change, pickup measure"""
    sc = _sc()
    d = divs

    def extra(part, byid):
        sl = sc.Slur(byid["n1"], byid["n3"])
        part.add(sl, byid["n1"].start.t, byid["n3"].end.t)
        tup = sc.Tuplet(byid["t0"], byid["t2"], actual_notes=3, normal_notes=2, actual_type="eighth", normal_type="eighth")
        part.add(tup, byid["t0"].start.t, byid["t2"].end.t)
        part.add(sc.ConstantLoudnessDirection("f"), 1 * d)
        part.add(sc.Tempo(100, "q"), 0)
        part.add(sc.TimeSignature(3, 4), 9 * d)
        part.add(sc.KeySignature(2, "major"), 9 * d)
        part.add(sc.Words("dolce"), 5 * d)
    q = d
    notes = [("n0", 0, q, "G", None, 4, 1, 1),  # pickup
             ("n1", 1 * q, 2 * q, "C", None, 5, 1, 1), ("n1c", 1 * q, q, "E", None, 5, 1, 1),  # chord, unequal durations
             ("n2", 3 * q, q, "D", 1, 5, 1, 1), ("n3", 4 * q, q, "E", 0, 5, 1, 1),
             ("n4", 5 * q, 4 * q, "F", None, 4, 1, 1), ("n4t", 9 * q, 2 * q, "F", None, 4, 1, 1),  # tie over barline
             ("b0", 1 * q, 4 * q, "C", None, 3, 2, 2), ("b1", 5 * q, 4 * q, "G", -1, 2, 2, 2), ("b2", 9 * q, 3 * q, "A", None, 2, 2, 2),
             ("t0", 11 * q, q * 2 // 3 if (q * 2) % 3 == 0 else q, "A", None, 4, 1, 1),
             ]
    if (2 * q) % 3 == 0:
        u = q // 3  # three triplet eighths fill the last quarter of the last measure
        notes[-1] = ("t0", 11 * q - 0, u, "A", None, 4, 1, 1)
        notes += [("t1", 11 * q + u, u, "B", None, 4, 1, 1), ("t2", 11 * q + 2 * u, u, "C", 1, 5, 1, 1)]
        notes = [n for n in notes if n[0] != "n4t"] + [("n4t", 9 * q, 2 * q, "F", None, 4, 1, 1)]
    else:
        notes = notes[:-1] + [("t0", 11 * q, q // 2, "A", None, 4, 1, 1), ("t1", 11 * q + q // 2, q // 2, "B", None, 4, 1, 1),
                              ("t2", 12 * q - 0, 0, "C", 1, 5, 1, 1)]
    part = build_part(pid, divs, ts=((0, 4, 4),), notes=[n for n in notes if n[2] > 0], ties=[("n4", "n4t")],
                      graces=[("g0", 3 * q, "C", 1, 5, 1, 1, "n2")], key=(-1, "major"),
                      clefs=[(0, 1, "G", 2), (0, 2, "F", 4)], measures=[(0, q), (q, 5 * q), (5 * q, 9 * q), (9 * q, 12 * q)],
                      extra=lambda p, b: extra(p, b) if "t2" in b else None)
    # notes that carry markings of both kinds (lists owned by the note), of one kind only, and none
    for n in part.iter_all(sc.Note):
        if n.id == "n2":
            n.articulations, n.ornaments = ["accent", "staccato"], ["trill-mark"]
        elif n.id == "n3":
            n.articulations = ["tenuto"]
        elif n.id == "b1":
            n.ornaments = ["mordent"]
    return part


def all_scores(tier="quick"):
    import os
    import partitura as pt
    out = list(transposable_scores(tier))
    out.append(("rich_divs12", lambda: simple_score([rich_part("P1", 12)])))
    out.append(("rich_two_parts", lambda: simple_score([rich_part("P1", 6), build_part("P2", 4, notes=[("x0", 0, 8, "C", None, 3, 1, 1), ("x1", 8, 8, "D", None, 3, 1, 1)])])))
    base = os.path.join(os.path.dirname(pt.__file__), "..", "tests", "data", "musicxml")
    files = ["test_note_ties.xml", "test_grace_note.xml", "test_polyphonic.xml", "test_unfold_timeline.xml", "test_anacrusis.xml"]
    if tier == "thorough":
        files += ["test_unfold_complex.xml", "test_unfold_dacapo.xml", "test_unfold_volta_numbers.xml", "test_part_group.xml",
                  "test_multi_part_change_divs.xml", "test_tuplet_attributes.musicxml", "test_cross_staff_voices.musicxml",
                  "mozart_k265_var1.musicxml", "test_partial_measures.xml", "test_clef_map.musicxml"]
    for f in files:
        path = os.path.join(base, f)
        if os.path.exists(path):
            out.append(("file:" + f, (lambda p: (lambda: pt.load_musicxml(p)))(path)))
    return out


def build_performance(notes, controls=(), programs=(), pid="PP", ppq=480, mpq=500000, track=0):
    import partitura.performance as pf
    nl = [dict(id="n%d" % i, midi_pitch=p, note_on=on, note_off=off, velocity=v, track=track, channel=ch)
          for i, (p, on, off, v, ch) in enumerate(notes)]
    cl = [dict(number=num, time=t, value=val, track=track, channel=0) for (num, t, val) in controls]
    pl = [dict(time=t, program=pr, track=track, channel=ch) for (t, pr, ch) in programs]
    return pf.PerformedPart(nl, id=pid, part_name=pid, controls=cl, programs=pl, ppq=ppq, mpq=mpq)


def all_performances(tier="quick"):
    import partitura.performance as pf
    p1 = build_performance([(60, 0.0, 0.5, 64, 0), (64, 0.5, 1.0, 70, 0), (67, 1.0, 2.0, 50, 1), (60, 1.5, 2.5, 90, 0)],
                           controls=[(64, 0.2, 127), (64, 1.2, 0), (67, 0.1, 100), (64, 1.7, 80), (64, 3.0, 10)], programs=[(0.0, 5, 0)])
    p2 = build_performance([(72, 0.25, 0.75, 100, 2), (48, 0.0, 3.0, 30, 3)], pid="PP2", track=1)
    return [pf.Performance(id="perf", performedparts=[p1]), pf.Performance(id="perf2", performedparts=[p1, p2])]
