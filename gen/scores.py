"""Small-scope generators of scores/parts built through the public partitura API, and a structural fingerprint.
Deterministic: the same tier gives the same cases; randomised extensions take an explicit seed."""
import itertools
import random
from fractions import Fraction

import numpy as np


def _sc():
    import partitura.score as sc
    return sc


# ------------------------------------------------------------------------------------------- fingerprint
def _val(v, index, depth=0):
    sc = _sc()
    if isinstance(v, (str, int, float, bool, type(None))):
        return v
    if isinstance(v, (np.integer,)):
        return int(v)
    if isinstance(v, (np.floating,)):
        return float(v)
    if isinstance(v, Fraction):
        return "F%s/%s" % (v.numerator, v.denominator)
    if isinstance(v, sc.TimedObject):
        return ("ref", index.get(id(v), ("ext", type(v).__name__, getattr(v, "id", None))))
    if isinstance(v, sc.TimePoint):
        return ("tp", v.t)
    if isinstance(v, (list, tuple)):
        return [_val(x, index, depth + 1) for x in v]
    if isinstance(v, dict):
        return sorted((str(k), _val(x, index, depth + 1)) for k, x in v.items())
    if isinstance(v, set):
        return sorted(repr(_val(x, index, depth + 1)) for x in v)
    if isinstance(v, np.ndarray):
        return v.tolist()
    d = getattr(v, "__dict__", None)
    if d is not None and depth < 3:
        return (type(v).__name__, sorted((k, _val(x, index, depth + 1)) for k, x in d.items()))
    return repr(v)


def fingerprint(obj, skip_pitch=False, natural_is_none=False):
    """canonical description of a Part / Score / Performance / PerformedPart: objects, times, attributes and links.
    Excluded by declaration: empty defaultdict registries and the Part._number_of_staves cache."""
    sc = _sc()
    import partitura.performance as pf
    if isinstance(obj, sc.Score):
        return ("Score", obj.id, [fingerprint(p, skip_pitch, natural_is_none) for p in obj.parts],
                [_group(g) for g in obj.part_structure])
    if isinstance(obj, pf.Performance):
        return ("Performance", obj.id, [fingerprint(p) for p in obj.performedparts])
    if isinstance(obj, pf.PerformedPart):
        return ("PerformedPart", obj.id, obj.part_name, [sorted((k, _val(v, {})) for k, v in dict(n).items()) for n in obj.notes],
                [sorted(c.items()) for c in obj.controls], [sorted(p.items()) for p in obj.programs],
                obj.ppq, obj.mpq, obj.sustain_pedal_threshold)
    if isinstance(obj, (list, tuple)):
        return [fingerprint(x, skip_pitch) for x in obj]
    if isinstance(obj, np.ndarray):
        return ("ndarray", str(obj.dtype), obj.tolist())
    part = obj
    objs = []
    index = {}
    for tp in part._points:
        for reg, tag in ((tp.starting_objects, "s"), (tp.ending_objects, "e")):
            for cls in sorted(reg.keys(), key=lambda c: c.__name__):
                for o in reg[cls]:
                    if id(o) not in index:
                        index[id(o)] = len(index)
                        objs.append(o)
    out = []
    for o in objs:
        d = {}
        for k, v in o.__dict__.items():
            if k in ("start", "end"):
                continue
            if skip_pitch and k in ("step", "alter", "octave"):
                continue
            if natural_is_none and k == "alter" and v == 0:
                v = None
            d[k] = _val(v, index)
        out.append((index[id(o)], type(o).__name__, o.start.t if o.start is not None else None,
                    o.end.t if o.end is not None else None, sorted(d.items(), key=lambda kv: kv[0])))
    points = []
    for tp in part._points:
        points.append((tp.t, tp.quarter, tp.prev.t if tp.prev is not None else None, tp.next.t if tp.next is not None else None,
                       [(c.__name__, [index[id(o)] for o in reg]) for c, reg in sorted(tp.starting_objects.items(), key=lambda kv: kv[0].__name__) if len(reg)],
                       [(c.__name__, [index[id(o)] for o in reg]) for c, reg in sorted(tp.ending_objects.items(), key=lambda kv: kv[0].__name__) if len(reg)]))
    return ("Part", part.id, part.part_name, list(part._quarter_times), list(part._quarter_durations), points, out,
            getattr(part, "_use_musical_beat", None))


def _group(g):
    sc = _sc()
    if isinstance(g, sc.PartGroup):
        return ("group", g.group_symbol, g.group_name, g.number, [_group(c) for c in g.children])
    return ("part", g.id)


# ------------------------------------------------------------------------------------------- builders
def build_part(pid="P1", divs=4, ts=((0, 4, 4),), notes=(), rests=(), ties=(), graces=(), key=None, clefs=(), measures="auto",
               quarter_changes=(), tie_auto=False, extra=None):
    """notes: (id, onset, dur, step, alter, octave, voice, staff); ties: (id_a, id_b); graces: (id, onset, step, alter, octave, voice, staff, main_id)"""
    sc = _sc()
    part = sc.Part(pid, part_name=pid, quarter_duration=divs)
    for t, q in quarter_changes:
        part.set_quarter_duration(t, q)
    for t, b, bt in ts:
        part.add(sc.TimeSignature(b, bt), t)
    if key is not None:
        part.add(sc.KeySignature(key[0], key[1]), 0)
    for t, staff, sign, line in clefs:
        part.add(sc.Clef(staff=staff, sign=sign, line=line, octave_change=0), t)
    byid = {}
    for (nid, on, dur, step, alter, octv, voice, staff) in notes:
        n = sc.Note(step=step, octave=octv, alter=alter, id=nid, voice=voice, staff=staff)
        part.add(n, on, on + dur)
        byid[nid] = n
    for (rid, on, dur, voice, staff) in rests:
        r = sc.Rest(id=rid, voice=voice, staff=staff)
        part.add(r, on, on + dur)
        byid[rid] = r
    for (gid, on, step, alter, octv, voice, staff, main) in graces:
        g = sc.GraceNote("acciaccatura", step=step, octave=octv, alter=alter, id=gid, voice=voice, staff=staff)
        part.add(g, on, on)
        byid[gid] = g
        if main in byid:
            g.grace_next = byid[main]
            byid[main].grace_prev = g
    for a, c in ties:
        byid[a].tie_next = byid[c]
        byid[c].tie_prev = byid[a]
    if extra:
        extra(part, byid)
    if measures == "auto":
        sc.add_measures(part)
    elif measures:
        for i, (s, e) in enumerate(measures):
            part.add(sc.Measure(number=i + 1, name=str(i + 1)), s, e)
    if tie_auto:
        sc.tie_notes(part)
    return part


def simple_score(parts):
    sc = _sc()
    return sc.Score(partlist=parts, id="S")


def transposable_scores(tier="quick"):
    """(name, maker) list; every maker returns a fresh Score"""
    out = []

    def s1():
        return simple_score([build_part("P1", 4, notes=[("n0", 0, 4, "C", None, 4, 1, 1), ("n1", 4, 4, "E", 0, 4, 1, 1),
                                                          ("n2", 8, 8, "G", 1, 4, 1, 1), ("n3", 16, 4, "B", -1, 3, 1, 1)], key=(0, "major"))])
    out.append(("plain", s1))

    def s2():
        # tie over a barline + chord + grace note
        return simple_score([build_part("P1", 4,
                                        notes=[("n0", 0, 12, "F", 1, 4, 1, 1), ("n1", 12, 4, "A", None, 4, 1, 1), ("n1t", 16, 4, "A", None, 4, 1, 1),
                                               ("n2", 20, 4, "C", 0, 5, 1, 1), ("n2c", 20, 4, "E", -1, 5, 1, 1), ("n3", 24, 8, "B", 0, 3, 2, 1)],
                                        ties=[("n1", "n1t")], graces=[("g0", 20, "D", 1, 5, 1, 1, "n2")], key=(-3, "minor"))])
    out.append(("tie_chord_grace", s2))

    def s3():
        # long tie chain over two barlines, two parts with different divisions
        p1 = build_part("P1", 2, notes=[("a0", 0, 8, "B", None, 3, 1, 1), ("a1", 8, 8, "B", None, 3, 1, 1), ("a2", 16, 4, "B", None, 3, 1, 1),
                                        ("a3", 20, 4, "C", 1, 4, 1, 1)], ties=[("a0", "a1"), ("a1", "a2")])
        p2 = build_part("P2", 3, ts=((0, 3, 4),), notes=[("b0", 0, 9, "E", -1, 2, 1, 1), ("b1", 9, 9, "G", 2, 2, 1, 1)],
                        rests=[("r0", 18, 9, 1, 1)], graces=[("gb", 9, "F", None, 2, 1, 1, "b1")])
        return simple_score([p1, p2])
    out.append(("tie_chain_two_parts", s3))
    if tier == "thorough":
        def s4():
            return simple_score([build_part("P1", 12, ts=((0, 6, 8),), notes=[("n%d" % i, 6 * i, 6, st, al, 4 + (i % 2), 1 + i % 2, 1)
                                                                              for i, (st, al) in enumerate(itertools.product("CDEFGAB", (-2, -1, 0, 1, 2)))][:20])])
        out.append(("all_spellings", s4))
    return out
