"""Symbolic-length sequences and heap references (used by the C01 timeline proofs). See heap.py."""
from .sym import EngineLimit


class SymSeq:
    pass


class Ref:
    pass


def slice_concrete(ip, obj, k):
    raise EngineLimit("slice with symbolic bound")


def binop(ip, op, a, b):
    raise EngineLimit("operator on symbolic sequence")


def ref_is(a, b):
    raise EngineLimit("ref identity")


def ref_compare(ip, op, a, b):
    raise EngineLimit("ref comparison")
