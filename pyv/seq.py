"""Heap references and symbolic-length sequences.

Heap: one z3 array per declared field (Ref -> value); references are z3 Ints (0 is None); objects allocated on the
current path get refs alloc0+1, alloc0+2, ... which are provably distinct from every pre-existing ref (<= alloc0).
SymSeq: (length n, z3 Array Int -> Int) modelling a 1-D ndarray of objects / a Python list of ints, with Python
index semantics and explicit bounds splits (IndexError paths are explored, not assumed away).

Trusted contracts used here (listed in evidence): np.searchsorted(left/right) on a sequence sorted by key,
np.insert, np.delete, list.insert, slicing of 1-D sequences.
"""
import ast

import z3

from . import sym
from .engine import PyRaise
from .sym import EngineLimit, Sym, SymBool, SymInt, SymReal, mkbool, sand, snot, sor, zb, zint

INF = float("inf")


class Heap:
    def __init__(self, eng, classes):
        """classes: {cls: {field: kind}}, kind in 'int' | 'ref' | 'optint' | 'py'"""
        self.eng = eng
        self.classes = classes
        self.fields = {}
        self.kinds = {}
        for cls, fs in classes.items():
            for f, k in fs.items():
                self.kinds[f] = k
                if k in ("int", "ref", "optint"):
                    self.fields[f] = z3.Array("H_" + f, z3.IntSort(), z3.IntSort())
                if k == "optint":
                    self.fields[f + "?none"] = z3.Array("H_" + f + "_none", z3.IntSort(), z3.BoolSort())
        self.alloc0 = z3.Int("alloc0")
        eng.assume(self.alloc0 >= 0)
        self.nalloc = 0
        self.local = {}  # (k, field) -> python value, for objects allocated on this path (k = allocation ordinal)
        self.class_of_new = {}
        self.version = 0

    def snapshot(self):
        return dict(self.fields)

    def new(self, cls):
        self.nalloc += 1
        r = Ref(z3.simplify(self.alloc0 + self.nalloc), cls, self, new=self.nalloc)
        return r

    def static_fields(self, cls):
        for k, fs in self.classes.items():
            if k is cls or (isinstance(cls, type) and isinstance(k, type) and issubclass(cls, k)):
                return fs
        return None

    def load(self, ref, name, ip):
        fs = self.static_fields(ref.cls)
        if fs is None or name not in fs:
            if ref.new is not None and (ref.new, name) in self.local:
                return self.local[(ref.new, name)]
            # methods / class attributes
            import inspect
            import types
            from .interp import BoundMethod, _defining_class
            cattr = inspect.getattr_static(ref.cls, name, None)
            if isinstance(cattr, types.FunctionType):
                return BoundMethod(ref, cattr, _defining_class(ref.cls, name))
            if isinstance(cattr, property):
                return ip.call(BoundMethod(ref, cattr.fget, _defining_class(ref.cls, name)), [], {})
            if name == "__class__":
                return ref.cls
            raise EngineLimit("field %s of %s is not in the heap model" % (name, ref.cls.__name__))
        self._nonnull(ref, name)
        kind = fs[name]
        if ref.new is not None and (ref.new, name) in self.local:
            return self.local[(ref.new, name)]
        if kind == "py":
            raise EngineLimit("python-valued field %s of a symbolic reference" % name)
        v = z3.simplify(z3.Select(self.fields[name], ref.z))
        if kind == "int":
            return SymInt(v) if not z3.is_int_value(v) else v.as_long()
        if kind == "ref":
            tcls = fs.get("@" + name, ref.cls)
            return Ref(v, tcls, self)
        if kind == "optint":
            isn = z3.simplify(z3.Select(self.fields[name + "?none"], ref.z))
            if z3.is_true(isn):
                return None
            if z3.is_false(isn):
                return SymInt(v) if not z3.is_int_value(v) else v.as_long()
            if self.eng.decide(isn, "isnone"):
                return None
            return SymInt(v)

    def _nonnull(self, ref, name):
        c = z3.simplify(ref.z == 0)
        if z3.is_false(c):
            return
        if z3.is_true(c) or self.eng.decide(c, "null"):
            raise PyRaise(AttributeError, "'NoneType' object has no attribute '%s'" % name)

    def store(self, ref, name, v, ip):
        fs = self.static_fields(ref.cls)
        if fs is None or name not in fs:
            if ref.new is not None:
                self.local[(ref.new, name)] = v
                return
            raise EngineLimit("store to field %s outside the heap model" % name)
        self._nonnull(ref, name)
        kind = fs[name]
        self.version += 1
        if ref.new is not None:
            self.local.pop((ref.new, name), None)
        if kind == "py":
            if ref.new is None:
                raise EngineLimit("python-valued field store on symbolic reference")
            self.local[(ref.new, name)] = v
            return
        if kind == "int":
            if isinstance(v, float) and v == INF and ref.new is not None:
                self.local[(ref.new, name)] = v
                return
            self.fields[name] = z3.Store(self.fields[name], ref.z, zint(v))
            return
        if kind == "ref":
            if v is None:
                z = z3.IntVal(0)
            elif isinstance(v, Ref):
                z = v.z
            else:
                raise EngineLimit("store of non-reference into reference field")
            self.fields[name] = z3.Store(self.fields[name], ref.z, z)
            return
        if kind == "optint":
            if v is None:
                self.fields[name + "?none"] = z3.Store(self.fields[name + "?none"], ref.z, z3.BoolVal(True))
            else:
                self.fields[name + "?none"] = z3.Store(self.fields[name + "?none"], ref.z, z3.BoolVal(False))
                self.fields[name] = z3.Store(self.fields[name], ref.z, zint(v))

    # logical (side-effect free, no null checks) reads for specifications
    def sel(self, name, refz, fields=None):
        fields = fields if fields is not None else self.fields
        return z3.Select(fields[name], refz)


class Ref:
    """reference to a heap object (z3 Int; 0 = None)"""
    __pyv_symbolic__ = True

    def __init__(self, z, cls, heap, new=None):
        self.z = z
        self.cls = cls
        self.heap = heap
        self.new = new

    def __repr__(self):
        return "Ref(%s:%s)" % (self.cls.__name__, self.z)

    def isinstance(self, t, ip):
        if isinstance(t, tuple):
            return any(self.isinstance(x, ip) for x in t)
        return issubclass(self.cls, t)

    def type_of(self, ip):
        return self.cls

    def __hash__(self):
        raise EngineLimit("heap reference used as hash key")

    def __eq__(self, o):
        raise EngineLimit("== on heap reference outside the interpreter")


def ref_is(a, b):
    za = a.z if isinstance(a, Ref) else (z3.IntVal(0) if a is None else None)
    zb_ = b.z if isinstance(b, Ref) else (z3.IntVal(0) if b is None else None)
    if za is None or zb_ is None:
        return False
    return mkbool(za == zb_)


def ref_compare(ip, op, a, b):
    """rich comparison of heap objects: dispatch to the class's real methods (ComparableMixin) by interpretation"""
    import inspect
    import types
    from .interp import BoundMethod, _defining_class
    nm = {ast.Eq: "__eq__", ast.NotEq: "__ne__", ast.Lt: "__lt__", ast.LtE: "__le__", ast.Gt: "__gt__", ast.GtE: "__ge__"}[op]
    x, y = (a, b) if isinstance(a, Ref) else (b, a)
    if x is b:
        nm = {"__lt__": "__gt__", "__gt__": "__lt__", "__le__": "__ge__", "__ge__": "__le__"}.get(nm, nm)
    m = inspect.getattr_static(x.cls, nm, None)
    if isinstance(m, types.FunctionType):
        return ip.call(BoundMethod(x, m, _defining_class(x.cls, nm)), [y], {})
    if op is ast.Eq:
        return ref_is(a, b)
    if op is ast.NotEq:
        r = ref_is(a, b)
        return snot(r) if isinstance(r, Sym) else (not r)
    raise PyRaise(TypeError, "unorderable heap objects")


class SymSeq:
    """sequence of symbolic length.  elem: 'int' or a class (references).  mutable=True models a Python list
    (insert/setitem in place), mutable=False a numpy array treated as a value (np.insert/np.delete return new ones)."""
    _ctr = [0]
    __pyv_symbolic__ = True

    def __init__(self, n, arr, elem, heap=None, mutable=False, key_field=None, kind="ndarray"):
        self.n = n
        self.arr = arr
        self.elem = elem
        self.heap = heap
        self.mutable = mutable
        self.key_field = key_field
        self.kind = kind

    @classmethod
    def fresh(cls, name, elem, eng, heap=None, mutable=False, key_field=None, kind="ndarray"):
        n = z3.Int(name + "#len")
        arr = z3.Array(name, z3.IntSort(), z3.IntSort())
        eng.assume(n >= 0)
        return cls(n, arr, elem, heap, mutable, key_field, kind)

    def clone(self, n=None, arr=None):
        return SymSeq(self.n if n is None else n, self.arr if arr is None else arr, self.elem, self.heap, self.mutable,
                      self.key_field, self.kind)

    def length(self):
        n = z3.simplify(self.n)
        return n.as_long() if z3.is_int_value(n) else SymInt(n)

    def isinstance(self, t):
        import numpy as np
        ts = t if isinstance(t, tuple) else (t,)
        if self.kind == "list":
            return list in ts
        return np.ndarray in ts

    def wrap(self, z):
        z = z3.simplify(z)
        if self.elem == "int":
            return z.as_long() if z3.is_int_value(z) else SymInt(z)
        return Ref(z, self.elem, self.heap)

    def unwrap(self, v):
        if self.elem == "int":
            return zint(v)
        if v is None:
            return z3.IntVal(0)
        if isinstance(v, Ref):
            return v.z
        raise EngineLimit("element of wrong kind stored into sequence")

    def _index(self, k, ip, what="index out of range"):
        """Python index semantics -> z3 index in [0,n) ; explores the IndexError path"""
        kz = zint(k)
        n = self.n
        j = ip.eng.choose([z3.And(kz >= 0, kz < n), z3.And(kz < 0, kz >= -n), z3.Or(kz >= n, kz < -n)], "idx")
        if j == 2:
            raise PyRaise(IndexError, what)
        return kz if j == 0 else z3.simplify(n + kz)

    def getitem(self, k, ip):
        if isinstance(k, slice):
            if k.step not in (None, 1):
                raise EngineLimit("strided slice of symbolic sequence")
            lo = self._bound(k.start, 0, ip)
            hi = self._bound(k.stop, None, ip)
            return SeqSlice(self, lo, hi)
        if isinstance(k, SymReal) or isinstance(k, float):
            raise PyRaise(IndexError, "only integers are valid indices")
        return self.wrap(z3.Select(self.arr, self._index(k, ip)))

    def _bound(self, b, default, ip):
        n = self.n
        if b is None:
            return z3.IntVal(0) if default == 0 else n
        bz = zint(b)
        j = ip.eng.choose([z3.And(bz >= 0, bz <= n), bz > n, z3.And(bz < 0, bz >= -n), bz < -n], "slice")
        return [bz, n, z3.simplify(n + bz), z3.IntVal(0)][j]

    def setitem(self, k, v, ip):
        if not self.mutable and self.kind != "ndarray":
            raise PyRaise(TypeError, "object does not support item assignment")
        j = self._index(k, ip, "assignment index out of range")
        self.arr = z3.Store(self.arr, j, self.unwrap(v))

    def attr(self, name, ip):
        if self.kind == "list":
            if name == "insert":
                return lambda i, x: self.list_insert(i, x, ip)
            if name == "append":
                return lambda x: self.list_insert(self.length(), x, ip)
            if name == "copy":
                return lambda: self.clone()
        if name in ("shape",):
            return (self.length(),)
        if name == "size":
            return self.length()
        raise EngineLimit("attribute %s of symbolic sequence" % name)

    def list_insert(self, i, x, ip):
        iz = zint(i)
        n = self.n
        j = ip.eng.choose([z3.And(iz >= 0, iz <= n), iz > n, z3.And(iz < 0, iz >= -n), iz < -n], "insert")
        pos = [iz, n, z3.simplify(n + iz), z3.IntVal(0)][j]
        new = inserted(self, pos, self.unwrap(x), ip.eng)
        self.n, self.arr = new.n, new.arr

    def key(self, elemz, fields=None):
        if self.elem == "int":
            return elemz
        return self.heap.sel(self.key_field, elemz, fields)

    def searchsorted(self, v, side, ip):
        """trusted contract of np.searchsorted on a sequence sorted (non-strictly is enough) by key.
        requires: sorted -- generated as an obligation at the call site."""
        eng = ip.eng
        inf = False
        if isinstance(v, Ref):
            if v.new is not None and (v.new, self.key_field) in self.heap.local:
                kv = self.heap.local[(v.new, self.key_field)]
                if kv == INF:
                    inf = True
                else:
                    kv = zint(kv)
            else:
                kv = self.heap.sel(self.key_field, v.z)
        elif isinstance(v, float) and v == INF:
            inf = True
        else:
            kv = sym.znum(v)
        if ip.on_obligation is not None:
            j = z3.Int(sym.fresh_name("ss_j"))
            ip.on_obligation("call-pre", "np.searchsorted.sequence_sorted",
                             mkbool(z3.Implies(z3.And(0 <= j, j < self.n - 1),
                                               self.key(z3.Select(self.arr, j)) <= self.key(z3.Select(self.arr, j + 1)))))
        ip.used_trusted.add("np.searchsorted(side=%s) on a sorted sequence: result i with all keys before i %s v and all keys from i on %s v"
                            % (side, "<" if side == "left" else "<=", ">=" if side == "left" else ">"))
        if inf:
            return self.length()
        i = z3.Int(sym.fresh_name("ss"))
        eng.assume(z3.And(i >= 0, i <= self.n))
        j = z3.Int("j")
        ej = z3.Select(self.arr, j)
        if side == "left":
            eng.assume(z3.ForAll([j], z3.Implies(z3.And(0 <= j, j < i), self.key(ej) < kv), patterns=[ej]))
            eng.assume(z3.ForAll([j], z3.Implies(z3.And(i <= j, j < self.n), self.key(ej) >= kv), patterns=[ej]))
        else:
            eng.assume(z3.ForAll([j], z3.Implies(z3.And(0 <= j, j < i), self.key(ej) <= kv), patterns=[ej]))
            eng.assume(z3.ForAll([j], z3.Implies(z3.And(i <= j, j < self.n), self.key(ej) > kv), patterns=[ej]))
        return SymInt(i)

    def contains(self, x, ip):
        raise EngineLimit("membership in symbolic sequence")


class SeqSlice:
    """view seq[lo:hi] (bounds already clamped to [0,n]); only iterable through a loop invariant"""
    __pyv_symbolic__ = True

    def __init__(self, seq, lo, hi):
        self.seq, self.lo, self.hi = seq, lo, hi


def inserted(seq, pos, xz, eng):
    """np.insert / list.insert: new sequence with x at pos (0 <= pos <= n)"""
    SymSeq._ctr[0] += 1
    arr = z3.Array("%s_ins%d" % ("seq", SymSeq._ctr[0]), z3.IntSort(), z3.IntSort())
    j = z3.Int("j")
    eng.assume(z3.ForAll([j], z3.Select(arr, j) == z3.If(j < pos, z3.Select(seq.arr, j),
                                                         z3.If(j == pos, xz, z3.Select(seq.arr, j - 1))),
                         patterns=[z3.Select(arr, j)]))
    return seq.clone(z3.simplify(seq.n + 1), arr)


def deleted(seq, pos, eng):
    SymSeq._ctr[0] += 1
    arr = z3.Array("%s_del%d" % ("seq", SymSeq._ctr[0]), z3.IntSort(), z3.IntSort())
    j = z3.Int("j")
    eng.assume(z3.ForAll([j], z3.Select(arr, j) == z3.If(j < pos, z3.Select(seq.arr, j), z3.Select(seq.arr, j + 1)),
                         patterns=[z3.Select(arr, j)]))
    return seq.clone(z3.simplify(seq.n - 1), arr)


def np_insert(ip, args, kw):
    seq, i, x = args[0], args[1], args[2]
    if not isinstance(seq, SymSeq):
        raise EngineLimit("np.insert on concrete array with symbolic argument")
    iz = zint(i)
    n = seq.n
    j = ip.eng.choose([z3.And(iz >= 0, iz <= n), z3.And(iz < 0, iz >= -n), z3.Or(iz > n, iz < -n)], "np.insert")
    if j == 2:
        raise PyRaise(IndexError, "index out of bounds for np.insert")
    pos = iz if j == 0 else z3.simplify(n + iz)
    ip.used_trusted.add("np.insert(a, i, x): fresh array a[:i] + [x] + a[i:], IndexError outside [-n, n]")
    r = inserted(seq, pos, seq.unwrap(x), ip.eng)
    r.mutable = False
    return r


def np_delete(ip, args, kw):
    seq, i = args[0], args[1]
    if not isinstance(seq, SymSeq):
        raise EngineLimit("np.delete on concrete array with symbolic argument")
    iz = zint(i)
    n = seq.n
    j = ip.eng.choose([z3.And(iz >= 0, iz < n), z3.And(iz < 0, iz >= -n), z3.Or(iz >= n, iz < -n)], "np.delete")
    if j == 2:
        raise PyRaise(IndexError, "index is out of bounds for axis 0 (np.delete)")
    pos = iz if j == 0 else z3.simplify(n + iz)
    ip.used_trusted.add("np.delete(a, i): fresh array a[:i] + a[i+1:], IndexError outside [-n, n)")
    return deleted(seq, pos, ip.eng)


def slice_concrete(ip, obj, k):
    raise EngineLimit("slice of a concrete sequence with symbolic bound")


def binop(ip, op, a, b):
    raise EngineLimit("operator on symbolic sequence")
