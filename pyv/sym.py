"""Symbolic values for pyv.

Concrete Python values stay concrete (and are operated on by CPython itself); only
unbounded quantities are symbolic.  Three scalar sorts:

  SymInt  -> z3 Int   (Python ints are unbounded: exact)
  SymReal -> z3 Real  (Python float in *real* mode: IEEE arithmetic treated as exact real arithmetic;
                       this is an ASSUMPTION and is printed in every evidence file that uses it)
  SymBool -> z3 Bool

Operators are overloaded so that sidecar contract clauses are ordinary Python expressions that
have both a logical reading (over Sym values) and an executable reading (over concrete values).
``bool(SymBool)`` asks the engine for a decision (path split), so ``and``/``or``/``if`` inside
a contract clause work by case analysis.
"""
import z3
from fractions import Fraction

_engine = None  # set by engine.Engine while a path is running


def set_engine(e):
    global _engine
    _engine = e


class EngineLimit(Exception):
    """A construct outside the modelled subset was reached: the function is *undecided*, never a violation."""


class Sym:
    __slots__ = ("z",)

    def __hash__(self):
        raise EngineLimit("symbolic value used as a hash key")


def is_sym(v):
    return isinstance(v, Sym)


def has_sym(v, depth=0):
    if isinstance(v, Sym):
        return True
    if depth > 6:
        return False
    if isinstance(v, (list, tuple, set, frozenset)):
        return any(has_sym(x, depth + 1) for x in v)
    if isinstance(v, dict):
        return any(has_sym(x, depth + 1) for x in v.values())
    return False


def _num(v):
    """lift a concrete number to z3; returns (zexpr, is_real)"""
    if isinstance(v, SymInt):
        return v.z, False
    if isinstance(v, SymReal):
        return v.z, True
    if isinstance(v, SymBool):
        return z3.If(v.z, z3.IntVal(1), z3.IntVal(0)), False
    if isinstance(v, bool):
        return z3.IntVal(int(v)), False
    if isinstance(v, int):
        return z3.IntVal(v), False
    if isinstance(v, float):
        if v != v or v in (float("inf"), float("-inf")):
            raise EngineLimit("non-finite float in symbolic arithmetic")
        fr = Fraction(v)  # exact value of the double
        return z3.RealVal(str(fr.numerator)) / z3.RealVal(str(fr.denominator)), True
    if isinstance(v, Fraction):
        return z3.RealVal(str(v.numerator)) / z3.RealVal(str(v.denominator)), True
    if isinstance(v, z3.ArithRef):
        return v, v.is_real()
    try:
        import numpy as np
        if isinstance(v, np.integer):
            return z3.IntVal(int(v)), False
        if isinstance(v, np.floating):
            return _num(float(v))
        if isinstance(v, np.bool_):
            return z3.IntVal(int(v)), False
    except ImportError:
        pass
    raise TypeError("not a number: %r" % (type(v),))


def _is_numlike(v):
    if isinstance(v, (SymInt, SymReal, SymBool, bool, int, float, Fraction, z3.ArithRef)):
        return True
    try:
        import numpy as np
        return isinstance(v, (np.integer, np.floating, np.bool_))
    except ImportError:
        return False


def _wrap(z, real):
    z = z3.simplify(z)
    return SymReal(z) if real else SymInt(z)


def py_floordiv(a, b):
    """Python floor division on z3 Ints (z3 div is Euclidean: differs for negative divisors)."""
    if z3.is_int_value(b):
        bv = b.as_long()
        if bv > 0:
            return a / b
        if bv < 0:
            return (-a) / z3.IntVal(-bv)
    return z3.If(b > 0, a / b, (-a) / (-b))


def py_mod(a, b):
    if z3.is_int_value(b):
        bv = b.as_long()
        if bv > 0:
            return a % b
    return a - b * py_floordiv(a, b)


def _binop(op, x, y):
    if not (_is_numlike(x) and _is_numlike(y)):
        return NotImplemented
    a, ra = _num(x)
    b, rb = _num(y)
    real = ra or rb
    if op in ("/",):
        real = True
    if real:
        if not ra:
            a = z3.ToReal(a)
        if not rb:
            b = z3.ToReal(b)
    if op == "+":
        return _wrap(a + b, real)
    if op == "-":
        return _wrap(a - b, real)
    if op == "*":
        return _wrap(a * b, real)
    if op == "/":
        _need_nonzero(b, "division by zero")
        return _wrap(a / b, True)
    if op == "//":
        _need_nonzero(b, "integer division or modulo by zero")
        if real:
            return _wrap(z3.ToReal(z3.ToInt(a / b)), True)  # floor for reals: ToInt is floor in z3
        return _wrap(py_floordiv(a, b), False)
    if op == "%":
        _need_nonzero(b, "integer division or modulo by zero")
        if real:
            q = z3.ToReal(z3.ToInt(a / b))
            return _wrap(a - b * q, True)
        return _wrap(py_mod(a, b), False)
    raise EngineLimit("operator " + op)


def _need_nonzero(b, msg):
    # division by zero is a Python exception: ask the engine to split
    if z3.is_int_value(b) or z3.is_rational_value(b):
        s = z3.simplify(b == 0)
        if z3.is_true(s):
            from .engine import PyRaise
            raise PyRaise(ZeroDivisionError, msg)
        return
    if _engine is not None:
        if _engine.decide(b == 0, "div0"):
            from .engine import PyRaise
            raise PyRaise(ZeroDivisionError, msg)


def _cmp(op, x, y):
    if not (_is_numlike(x) and _is_numlike(y)):
        if op == "==":
            return False
        if op == "!=":
            return True
        return NotImplemented
    a, ra = _num(x)
    b, rb = _num(y)
    if ra and not rb:
        b = z3.ToReal(b)
    if rb and not ra:
        a = z3.ToReal(a)
    z = {"==": a == b, "!=": a != b, "<": a < b, "<=": a <= b, ">": a > b, ">=": a >= b}[op]
    z = z3.simplify(z)
    if z3.is_true(z):
        return True
    if z3.is_false(z):
        return False
    return SymBool(z)


class _Arith(Sym):
    __slots__ = ()
    __hash__ = Sym.__hash__

    def __add__(s, o): return _binop("+", s, o)
    def __radd__(s, o): return _binop("+", o, s)
    def __sub__(s, o): return _binop("-", s, o)
    def __rsub__(s, o): return _binop("-", o, s)
    def __mul__(s, o): return _binop("*", s, o)
    def __rmul__(s, o): return _binop("*", o, s)
    def __truediv__(s, o): return _binop("/", s, o)
    def __rtruediv__(s, o): return _binop("/", o, s)
    def __floordiv__(s, o): return _binop("//", s, o)
    def __rfloordiv__(s, o): return _binop("//", o, s)
    def __mod__(s, o): return _binop("%", s, o)
    def __rmod__(s, o): return _binop("%", o, s)
    def __neg__(s): return _binop("-", 0, s)
    def __pos__(s): return s
    def __eq__(s, o): return _cmp("==", s, o)
    def __ne__(s, o): return _cmp("!=", s, o)
    def __lt__(s, o): return _cmp("<", s, o)
    def __le__(s, o): return _cmp("<=", s, o)
    def __gt__(s, o): return _cmp(">", s, o)
    def __ge__(s, o): return _cmp(">=", s, o)

    def __abs__(s):
        z, real = _num(s)
        return _wrap(z3.If(z >= 0, z, -z), real)

    def __pow__(s, o):
        if isinstance(o, int) and not isinstance(o, bool) and 0 <= o <= 8:
            r = 1
            for _ in range(o):
                r = r * s
            return r
        raise EngineLimit("** with non-constant exponent")

    def __bool__(s):
        return bool(s != 0)

    def __index__(s):
        raise EngineLimit("symbolic integer used where CPython needs a concrete index")


class SymInt(_Arith):
    __slots__ = ()

    def __init__(self, z):
        self.z = z

    def __repr__(self):
        return "SymInt(%s)" % self.z

    def __int__(self):
        raise EngineLimit("int() of symbolic via CPython")


class SymReal(_Arith):
    __slots__ = ()

    def __init__(self, z):
        self.z = z

    def __repr__(self):
        return "SymReal(%s)" % self.z


class SymBool(Sym):
    __slots__ = ()

    def __init__(self, z):
        self.z = z

    def __repr__(self):
        return "SymBool(%s)" % self.z

    def __bool__(self):
        if _engine is None:
            raise EngineLimit("symbolic bool decided outside a run")
        return _engine.decide(self.z, "bool")

    def __and__(s, o): return sand(s, o)
    def __rand__(s, o): return sand(o, s)
    def __or__(s, o): return sor(s, o)
    def __ror__(s, o): return sor(o, s)
    def __invert__(s): return snot(s)
    def __eq__(s, o):
        if isinstance(o, (SymBool, bool)):
            return mkbool(zb(s) == zb(o))
        return _cmp("==", s, o)
    def __ne__(s, o):
        r = s.__eq__(o)
        return snot(r)
    __hash__ = Sym.__hash__
    # ints
    def __add__(s, o): return _binop("+", s, o)
    def __radd__(s, o): return _binop("+", o, s)


def zb(v):
    """bool-ish -> z3 Bool"""
    if isinstance(v, SymBool):
        return v.z
    if isinstance(v, (bool,)):
        return z3.BoolVal(v)
    try:
        import numpy as np
        if isinstance(v, np.bool_):
            return z3.BoolVal(bool(v))
    except ImportError:
        pass
    if isinstance(v, (SymInt, SymReal)):
        return v.z != 0
    if v is None:
        return z3.BoolVal(False)
    if isinstance(v, (int, float)):
        return z3.BoolVal(bool(v))
    raise EngineLimit("cannot view %r as z3 Bool" % (type(v),))


def mkbool(z):
    z = z3.simplify(z)
    if z3.is_true(z):
        return True
    if z3.is_false(z):
        return False
    return SymBool(z)


def _allconc(xs):
    for x in xs:
        if not isinstance(x, bool):
            return False
    return True


def sand(*xs):
    if _allconc(xs):
        return all(xs)
    return mkbool(z3.And(*[zb(x) for x in xs]))


def sor(*xs):
    if _allconc(xs):
        return any(xs)
    return mkbool(z3.Or(*[zb(x) for x in xs]))


def snot(x):
    if isinstance(x, bool):
        return not x
    return mkbool(z3.Not(zb(x)))


def implies(a, b):
    if isinstance(a, bool) and isinstance(b, bool):
        return (not a) or b
    return mkbool(z3.Implies(zb(a), zb(b)))


def ite(c, a, b):
    """value-level if-then-else on numbers/bools (no path split)"""
    if isinstance(c, bool):
        return a if c else b
    if isinstance(a, (SymBool, bool)) and isinstance(b, (SymBool, bool)):
        return mkbool(z3.If(zb(c), zb(a), zb(b)))
    za, ra = _num(a)
    zb_, rb = _num(b)
    if ra and not rb:
        zb_ = z3.ToReal(zb_)
    if rb and not ra:
        za = z3.ToReal(za)
    return _wrap(z3.If(zb(c), za, zb_), ra or rb)


def zint(v):
    z, real = _num(v)
    if real:
        raise EngineLimit("expected an integer, got a real")
    return z


def znum(v):
    return _num(v)[0]


_fresh_ctr = [0]


def fresh_name(base):
    _fresh_ctr[0] += 1
    return "%s!%d" % (base, _fresh_ctr[0])


def concretize(v, model):
    """Evaluate a (possibly nested) value under a z3 model to plain Python."""
    if isinstance(v, SymInt):
        r = model.eval(v.z, model_completion=True)
        return r.as_long()
    if isinstance(v, SymReal):
        r = model.eval(v.z, model_completion=True)
        if z3.is_rational_value(r):
            return Fraction(r.numerator_as_long(), r.denominator_as_long())
        if z3.is_algebraic_value(r):
            r = r.approx(20)
            return Fraction(r.numerator_as_long(), r.denominator_as_long())
        return float(r.as_decimal(17).rstrip("?"))
    if isinstance(v, SymBool):
        return z3.is_true(model.eval(v.z, model_completion=True))
    if isinstance(v, list):
        return [concretize(x, model) for x in v]
    if isinstance(v, tuple):
        return tuple(concretize(x, model) for x in v)
    if isinstance(v, dict):
        return {k: concretize(x, model) for k, x in v.items()}
    return v
