"""Finite-model refutation stage.

When the unbounded query (path condition and quantified hypotheses imply the goal) is not 'unsat', the same query is
instantiated in a small scope: sequence lengths <= K, the allocation counter small, every universally quantified
hypothesis grounded over the integers -1..K+3.  The result is quantifier free, so the solver returns a definite model
or 'unsat-in-scope'.  Grounding weakens the hypotheses, therefore a model is only a CANDIDATE: it is turned into a
concrete input and replayed on the real function; only a native failure counts.
"""
import itertools

import z3


def _skolem_nnf(f):
    g = z3.Goal()
    g.add(f)
    r = z3.Then(z3.Tactic("simplify"), z3.Tactic("nnf"))(g)
    out = []
    for sub in r:
        out.extend(list(sub))
    return out


def _ground(e, dom, depth=0, budget=None):
    """replace every (positive) ForAll in the NNF formula e by the conjunction of its instances over dom"""
    if z3.is_quantifier(e):
        if not e.is_forall():
            return e
        nv = e.num_vars()
        body = e.body()
        insts = []
        for vals in itertools.product(dom, repeat=nv):
            budget[0] -= 1
            if budget[0] < 0:
                break
            # de Bruijn: var 0 is the LAST bound variable
            inst = z3.substitute_vars(body, *reversed(vals))
            insts.append(_ground(z3.simplify(inst), dom, depth + 1, budget))
        return z3.And(*insts) if insts else z3.BoolVal(True)
    if z3.is_app(e) and e.num_args() > 0 and (z3.is_and(e) or z3.is_or(e) or z3.is_not(e) or z3.is_implies(e) or e.decl().kind() == z3.Z3_OP_ITE):
        ch = [_ground(c, dom, depth, budget) for c in e.children()]
        return e.decl()(*ch)
    return e


def find_candidate(assertions, scope=3, timeout_ms=20000, extra_bounds=True):
    dom = [z3.IntVal(i) for i in range(-1, scope + 4)]
    budget = [60000]
    s = z3.Solver()
    s.set("timeout", timeout_ms)
    consts = set()
    for a in assertions:
        for f in _skolem_nnf(a):
            g = _ground(f, dom, 0, budget)
            s.add(g)
            _consts(g, consts)
    if extra_bounds:
        for c in consts:
            nm = c.decl().name()
            if nm.endswith("#len"):
                s.add(c <= scope)
            elif nm == "alloc0":
                s.add(c <= scope + 2)
            elif c.sort() == z3.IntSort():
                s.add(c >= -2, c <= scope + 6)
    r = s.check()
    if r == z3.sat:
        return "sat", s.model()
    if r == z3.unsat:
        return "unsat-in-scope", None
    return "unknown", None


def _consts(e, acc, seen=None):
    seen = seen if seen is not None else set()
    stack = [e]
    while stack:
        x = stack.pop()
        i = x.get_id()
        if i in seen:
            continue
        seen.add(i)
        if z3.is_const(x) and x.decl().kind() == z3.Z3_OP_UNINTERPRETED and z3.is_int(x):
            acc.add(x)
        if z3.is_quantifier(x):
            stack.append(x.body())
        else:
            stack.extend(x.children())
