"""Back end F: modular frame / effect analysis ("this operation leaves its argument as it was").

For every function of /repo/partitura (ASTs parsed on this run) a *mutation summary* is computed bottom-up over the
call graph: which parameters' object graphs the function may write, and which parameters its return value may alias.
A frame obligation `modifies(f, p) = {}` is discharged when summary(f) does not write p.  The analysis is a
conservative may-analysis:

  taint levels per local name:  T(p) the value is (part of) p's object graph ;  E(p) a FRESH container whose elements are
  writes counted: attribute / subscript stores and deletes on T values, augmented assignment on T values, calls of the
  known container mutators on T receivers, calls of /repo functions and methods (and property getters/setters) whose own
  summary writes the corresponding parameter, library calls known to write an argument (np.random.shuffle, out=...).
  fresh: constructor results, literals, comprehensions, copy.deepcopy (fresh and disjoint), list()/sorted()/np.array()
  (fresh container, shared elements), arithmetic results.

What it does NOT see (declared): writes through reflection (setattr/__dict__: treated as 'writes anything'),
insertion of empty entries by reading a defaultdict, the Part._number_of_staves cache (declared benign).
A reported write is a *candidate*: it becomes a VIOLATION only when a native run shows the argument's structural
fingerprint changed; otherwise the frame is 'undecided' and left to the bounded back end.
"""
import ast
import os

from . import loader

MUTATORS = {"append", "extend", "insert", "remove", "pop", "sort", "clear", "update", "add", "discard", "setdefault",
            "popitem", "reverse", "__setitem__", "__delitem__", "fill", "resize", "put", "itemset", "partition", "setflags",
            "popleft", "appendleft"}
FRESH_CALLS = {"deepcopy", "len", "int", "float", "str", "bool", "min", "max", "sum", "abs", "isinstance", "print", "any", "all",
               "round", "range", "type", "id", "hash", "repr", "format", "ord", "chr", "divmod", "pow", "issubclass", "callable",
               "hasattr", "open", "Fraction", "complex", "bytes", "bytearray", "object", "super", "vars_", "input", "locals"}
SHALLOW_CALLS = {"list", "sorted", "tuple", "set", "dict", "reversed", "enumerate", "zip", "iter", "filter", "map", "frozenset",
                 "copy", "array", "OrderedDict", "defaultdict", "chain", "next", "column_stack", "vstack", "hstack", "concatenate",
                 "stack", "unique", "fromiter", "product", "groupby"}
ALIAS_CALLS = {"asarray", "ascontiguousarray", "atleast_1d", "atleast_2d", "squeeze", "ravel", "reshape", "view", "getattr", "cast"}
LIB_MODULES = {"np", "numpy", "math", "re", "os", "sys", "warnings", "itertools", "collections", "scipy", "mido", "etree", "lxml",
               "copy", "json", "logging", "LOGGER", "string", "operator", "functools", "fractions", "difflib", "csv", "zipfile",
               "tempfile", "shutil", "subprocess", "urllib", "io", "glob", "pkg_resources", "platform", "time", "random", "types"}
LIB_ARG_MUTATORS = {("np.random", "shuffle"): 0, ("random", "shuffle"): 0, ("np", "put"): 0, ("np", "copyto"): 0, ("np", "place"): 0,
                    ("np", "putmask"): 0, ("np", "fill_diagonal"): 0, ("heapq", "heappush"): 0, ("heapq", "heappop"): 0}
BENIGN_ATTRS = {"_number_of_staves"}
# numpy functions whose result is a NEW ndarray (the analysis tracks which local names hold ndarrays, flow-sensitively, to give
# subscripts of arrays their numpy meaning: a field / slice / index-array subscript is again an array over the same kind of
# content, not one of its elements)
ARRAY_FUNCS = {"array", "hstack", "vstack", "concatenate", "column_stack", "stack", "zeros", "ones", "empty", "full", "arange", "unique",
               "argsort", "sort", "zeros_like", "ones_like", "empty_like", "full_like", "cumsum", "diff", "clip", "round", "abs", "lexsort",
               "searchsorted", "isin", "isclose", "logical_and", "logical_or", "logical_not", "nonzero", "flatnonzero", "fromiter", "linspace",
               "repeat", "tile", "asarray", "atleast_1d"}
ARRAY_METHODS = {"copy", "astype", "view", "reshape", "ravel", "flatten", "squeeze", "argsort", "cumsum", "round", "clip"}
BUILTIN_CONTAINER_METHODS = MUTATORS | {"copy", "get", "items", "values", "keys", "index", "count", "join", "split", "strip", "lower", "upper",
                                        "format", "startswith", "endswith", "replace", "astype", "tolist", "sum", "mean", "min", "max", "any",
                                        "all", "round", "flatten", "ravel", "reshape", "argsort", "argmax", "argmin", "cumsum", "item", "find",
                                        "encode", "decode", "search", "match", "group", "groups", "union", "intersection", "difference"}
_IMM = {}


def immutable_attrs():
    """attribute names that only ever hold immutable values (int/float/str/bool/None/Fraction/tuples of those) on the objects
    of generated scores and performances - learnt from the REAL classes on every run; an attribute load of such a name yields
    a value that cannot be written through.  Recorded as an assumption of every frame verdict."""
    if "v" in _IMM:
        return _IMM["v"]
    import numbers
    from fractions import Fraction
    seen_mut, seen_imm = set(), set()

    def imm(v, d=0):
        if v is None or isinstance(v, (str, bytes, bool, numbers.Number, Fraction)):
            return True
        if isinstance(v, (tuple, frozenset)) and d < 3:
            return all(imm(x, d + 1) for x in v)
        return False
    try:
        from gen import scores as G
        objs = []
        for name, mk in G.all_scores("quick"):
            sc = mk()
            for p in sc.parts:
                objs.append(p)
                objs.extend(p._points)
                objs.extend(p.iter_all())
        for perf in G.all_performances("quick"):
            objs.append(perf)
            objs.extend(perf.performedparts)
        import inspect
        for o in objs:
            for k, v in getattr(o, "__dict__", {}).items():
                (seen_imm if imm(v) else seen_mut).add(k)
            for k, d in inspect.getmembers(type(o), lambda x: isinstance(x, property)):
                if k in ("segments",):
                    continue
                try:
                    v = getattr(o, k)
                except Exception:
                    continue
                (seen_imm if imm(v) else seen_mut).add(k)
    except Exception:
        pass
    _IMM["v"] = seen_imm - seen_mut
    return _IMM["v"]


class Func:
    def __init__(self, module, qual, node, cls=None):
        self.module, self.qual, self.node, self.cls = module, qual, node, cls
        a = node.args
        self.params = [x.arg for x in a.posonlyargs + a.args] + ([a.vararg.arg] if a.vararg else []) + [x.arg for x in a.kwonlyargs] + (
            [a.kwarg.arg] if a.kwarg else [])
        self.pos = [x.arg for x in a.posonlyargs + a.args]
        self.mutates = {}  # param -> witness (list of strings)
        self.returns = set()  # (param, level)
        self.unknown = {}  # param -> reason
        self.callable_params = {}  # parameter that is CALLED inside -> parameters whose values are passed to it
        self.is_property = False
        self.is_setter = False
        self.is_static = False

    @property
    def name(self):
        return self.module + "." + self.qual


class Program:
    def __init__(self, root=None):
        self.root = root or os.path.join(loader.REPO, "partitura")
        self.funcs = {}  # full name -> Func
        self.by_module = {}  # module -> {name: Func or ("class", clsname)}
        self.classes = {}  # clsname -> {"module":..., "bases":[names], "methods": {name: Func}, "props": {name: Func}, "setters": {...}}
        self.imports = {}  # module -> {alias: (module, name)}
        self._load()

    def _load(self):
        for dp, dn, fn in os.walk(self.root):
            for f in sorted(fn):
                if not f.endswith(".py"):
                    continue
                path = os.path.join(dp, f)
                mod = "partitura" + path[len(self.root):-3].replace(os.sep, ".")
                if mod.endswith(".__init__"):
                    mod = mod[:-9]
                try:
                    tree = ast.parse(open(path, "rb").read(), filename=path)
                except SyntaxError:
                    continue
                self.by_module[mod] = {}
                self.imports[mod] = {}
                self._scan(mod, tree)

    def _scan(self, mod, tree):
        for st in tree.body:
            if isinstance(st, ast.FunctionDef):
                fn = Func(mod, st.name, st)
                self.funcs[fn.name] = fn
                self.by_module[mod][st.name] = fn  # later definition wins, as in Python
            elif isinstance(st, ast.ClassDef):
                info = {"module": mod, "bases": [self._basename(b) for b in st.bases], "methods": {}, "props": {}, "setters": {}}
                for m in st.body:
                    if isinstance(m, ast.FunctionDef):
                        fn = Func(mod, st.name + "." + m.name, m, st.name)
                        decos = [self._basename(d) for d in m.decorator_list]
                        if "property" in decos:
                            fn.is_property = True
                            info["props"][m.name] = fn
                        elif any(d.endswith("setter") for d in decos if d):
                            fn.is_setter = True
                            fn.qual += ".setter"
                            info["setters"][m.name] = fn
                        else:
                            if "staticmethod" in decos:
                                fn.is_static = True
                            info["methods"][m.name] = fn
                        self.funcs[fn.name] = fn
                self.classes[st.name] = info  # later definition wins
                self.by_module[mod][st.name] = ("class", st.name)
            elif isinstance(st, ast.ImportFrom) and st.module:
                for a in st.names:
                    self.imports[mod][a.asname or a.name] = (st.module, a.name)
            elif isinstance(st, ast.Import):
                for a in st.names:
                    self.imports[mod][(a.asname or a.name).split(".")[0]] = (a.name, None)
            elif isinstance(st, (ast.If, ast.Try)):
                sub = ast.Module(body=[x for x in ast.iter_child_nodes(st) if isinstance(x, ast.stmt)], type_ignores=[])
                self._scan(mod, sub)

    @staticmethod
    def _basename(n):
        if isinstance(n, ast.Name):
            return n.id
        if isinstance(n, ast.Attribute):
            return n.attr
        if isinstance(n, ast.Call):
            return Program._basename(n.func)
        return ""

    def mro(self, cname, seen=None):
        seen = seen or []
        if cname in seen or cname not in self.classes:
            return seen
        seen.append(cname)
        for b in self.classes[cname]["bases"]:
            self.mro(b, seen)
        return seen

    def subclasses(self, cname):
        return [c for c in self.classes if cname in self.mro(c)]

    def lookup_member(self, cname, name, kind):
        for c in self.mro(cname):
            d = self.classes[c][kind]
            if name in d:
                return d[name]
        return None

    def members_named(self, name, kind, cls=None):
        """candidates for x.name when the class of x is `cls` (or unknown): dynamic dispatch included"""
        out = []
        if cls is not None and cls in self.classes:
            cands = set(self.subclasses(cls)) | {cls}
            for c in cands:
                f = self.lookup_member(c, name, kind)
                if f is not None and f not in out:
                    out.append(f)
            return out
        for c, info in self.classes.items():
            if name in info[kind]:
                out.append(info[kind][name])
        return out

    def resolve_name(self, mod, name, depth=0):
        """module-level name -> Func | ('class', name) | ('lib', alias) | None"""
        d = self.by_module.get(mod, {})
        if name in d:
            return d[name]
        imp = self.imports.get(mod, {}).get(name)
        if imp is not None and depth < 4:
            m, n = imp
            if m.startswith("partitura"):
                if n is None:
                    return ("module", m)
                r = self.resolve_name(m, n, depth + 1)
                if r is not None:
                    return r
                if m + "." + n in self.by_module:
                    return ("module", m + "." + n)
                return None
            return ("lib", name)
        # star imports from partitura.utils.globals etc.
        return None


T, E = 0, 1  # nesting depth: 0 = (part of) the parameter's object graph, k = fresh containers nested k deep around it


CAP = 4


def up(ts, n=1):
    """wrap in n fresh containers"""
    return {(p, k, min(w + n, CAP)) for (p, k, w) in ts}


def down(ts):
    """element access: unwrap a fresh layer if there is one, otherwise go one dereference deeper into the parameter"""
    return {(p, k, w - 1) if w > 0 else (p, min(k + 1, CAP), 0) for (p, k, w) in ts}


def attr(ts):
    """attribute access: what a fresh object holds / stays inside the parameter's graph"""
    return {(p, k, w - 1) if w > 0 else (p, k, 0) for (p, k, w) in ts}


def flat(ts):
    return {(p, k, 0) for (p, k, w) in ts}


def shallow(ts):
    """a fresh container over the elements (list(x), sorted(x), np.array(x), x.copy())"""
    return {(p, min(k + 1, CAP), 1) if w == 0 else (p, k, w) for (p, k, w) in ts}


def norm(ts):
    return set(ts)


def root_and_depth(node):
    s = 0
    while isinstance(node, ast.Subscript):
        node = node.value
        s += 1
    if isinstance(node, ast.Name):
        return node.id, s
    return None, 0


class Analyzer:
    def __init__(self, prog):
        self.p = prog
        self.changed = False

    def run(self, max_iter=12):
        for it in range(max_iter):
            self.changed = False
            for fn in list(self.p.funcs.values()):
                self.analyze(fn)
            if not self.changed:
                return it + 1
        return max_iter

    # --------------------------------------------------------------------------------
    def analyze(self, fn):
        env = {}
        types = {}
        for prm in fn.params:
            env[prm] = {(prm, 0, 0)}
        if fn.cls and fn.pos and not fn.is_static:
            types[fn.pos[0]] = fn.cls
        ctx = {"fn": fn, "env": env, "types": types, "arr": set()}
        self.block(fn.node.body, ctx)

    def mut(self, ctx, taints, node, what, chain=None, extra_depth=0):
        """a write through a value with no fresh layer left (w == 0) is a write into parameter p, k dereferences deep"""
        fn = ctx["fn"]
        for (prm, k, w) in taints:
            if w != 0:
                continue
            kk = min(k + extra_depth, CAP)
            d = fn.mutates.setdefault(prm, {})
            if kk not in d:
                d[kk] = (chain or []) + ["%s:%d %s" % (fn.name, getattr(node, "lineno", 0), what)]
                self.changed = True

    def unk(self, ctx, taints, node, what):
        fn = ctx["fn"]
        for (prm, k, w) in taints:
            if w == 0 and prm not in fn.unknown:
                fn.unknown[prm] = "%s:%d %s" % (fn.name, getattr(node, "lineno", 0), what)
                self.changed = True

    def ret(self, ctx, taints):
        fn = ctx["fn"]
        for t in taints:
            if t not in fn.returns:
                fn.returns.add(t)
                self.changed = True

    def bind(self, ctx, target, taints, typ=None):
        env = ctx["env"]
        if isinstance(target, ast.Name):
            env[target.id] = norm(taints)  # strong update; branches are joined in stmt()
            if typ == "<ndarray>":
                ctx.setdefault("arr", set()).add(target.id)
                typ = None
            else:
                ctx.setdefault("arr", set()).discard(target.id)
            if typ:
                ctx["types"][target.id] = typ
        elif isinstance(target, (ast.Tuple, ast.List)):
            el = down(taints)
            for e in target.elts:
                self.bind(ctx, e.value if isinstance(e, ast.Starred) else e, el)
        elif isinstance(target, ast.Attribute):
            base = self.expr(target.value, ctx)
            if target.attr not in BENIGN_ATTRS:
                self.mut(ctx, base, target, "store to attribute .%s" % target.attr)
            # property setter with side effects on the assigned value
            cls = self.type_of(target.value, ctx)
            for s in self.p.members_named(target.attr, "setters", cls):
                self.apply_summary(ctx, s, [base, taints], target, via="setter .%s" % target.attr)
        elif isinstance(target, ast.Subscript):
            base = self.expr(target.value, ctx)
            self.expr(target.slice, ctx)
            self.mut(ctx, base, target, "item assignment")
            rname, sdepth = root_and_depth(target)
            if rname is not None and taints:
                env[rname] = env.get(rname, set()) | up(taints, sdepth)
        elif isinstance(target, ast.Starred):
            self.bind(ctx, target.value, taints)

    def type_of(self, node, ctx):
        if isinstance(node, ast.Name):
            return ctx["types"].get(node.id)
        return None

    def block(self, stmts, ctx):
        for st in stmts:
            self.stmt(st, ctx)

    def branches(self, ctx, blocks, loop=False):
        """run alternative blocks from the same environment and join (union) the results"""
        env0 = {k: set(v) for k, v in ctx["env"].items()}
        arr0 = set(ctx.get("arr", ()))
        outs, arrs = [], []
        for blk in blocks:
            ctx["env"] = {k: set(v) for k, v in env0.items()}
            ctx["arr"] = set(arr0)
            self.block(blk, ctx)
            if loop:
                ctx["arr"] &= arr0  # a name is an array inside the loop only if it is one on entry and after an iteration
                self.block(blk, ctx)  # second iteration sees the effects of the first
            outs.append(ctx["env"])
            arrs.append(ctx["arr"])
        ja = set.intersection(*arrs) if arrs else set(arr0)
        if loop or len(blocks) < 2:
            ja &= arr0
        ctx["arr"] = ja
        joined = {k: set(v) for k, v in env0.items()} if loop or len(blocks) < 2 else {}
        for e in outs:
            for k, v in e.items():
                joined[k] = norm(joined.get(k, set()) | v)
        ctx["env"] = joined

    def stmt(self, st, ctx):
        if isinstance(st, ast.Assign):
            v = self.expr(st.value, ctx)
            typ = "<ndarray>" if self.is_array_expr(st.value, ctx) else self.ctor_type(st.value, ctx)
            for t in st.targets:
                self.bind(ctx, t, v, typ)
            # a local name bound to a module-level /repo function (ps = ps13s1): calls through it use that function's summary
            if len(st.targets) == 1 and isinstance(st.targets[0], ast.Name):
                al = ctx.setdefault("fnalias", {})
                tgt = st.targets[0].id
                r = self.p.resolve_name(ctx["fn"].module, st.value.id) if isinstance(st.value, ast.Name) and st.value.id not in ctx["env"] else None
                if isinstance(r, Func):
                    al[tgt] = al.get(tgt, set()) | {r}
                    ctx["env"].setdefault(tgt, set())
                else:
                    al.pop(tgt, None)
        elif isinstance(st, ast.AnnAssign):
            if st.value is not None:
                self.bind(ctx, st.target, self.expr(st.value, ctx))
        elif isinstance(st, ast.AugAssign):
            v = self.expr(st.value, ctx)
            if isinstance(st.target, ast.Name):
                cur = ctx["env"].get(st.target.id, set())
                self.mut(ctx, cur, st, "augmented assignment to %s (in place if the value is a list/array)" % st.target.id)
                ctx["env"][st.target.id] = norm(cur | up(v))
            else:
                self.bind(ctx, st.target, v)
        elif isinstance(st, ast.Expr):
            self.expr(st.value, ctx)
        elif isinstance(st, ast.Return):
            if st.value is not None:
                self.ret(ctx, self.expr(st.value, ctx))
        elif isinstance(st, (ast.For, ast.AsyncFor)):
            it = self.expr(st.iter, ctx)
            self.bind(ctx, st.target, down(it))
            self.branches(ctx, [st.body], loop=True)
            self.block(st.orelse, ctx)
        elif isinstance(st, ast.While):
            self.expr(st.test, ctx)
            self.branches(ctx, [st.body], loop=True)
            self.block(st.orelse, ctx)
        elif isinstance(st, ast.If):
            self.expr(st.test, ctx)
            self.narrow(st.test, ctx)
            self.branches(ctx, [st.body, st.orelse])
        elif isinstance(st, ast.With):
            for item in st.items:
                v = self.expr(item.context_expr, ctx)
                if item.optional_vars is not None:
                    self.bind(ctx, item.optional_vars, v)
            self.block(st.body, ctx)
        elif isinstance(st, ast.Try):
            self.branches(ctx, [st.body + st.orelse] + [h.body for h in st.handlers] + [[]])
            self.block(st.finalbody, ctx)
        elif isinstance(st, ast.Delete):
            for t in st.targets:
                if isinstance(t, (ast.Attribute, ast.Subscript)):
                    self.mut(ctx, self.expr(t.value, ctx), t, "del of attribute/item")
        elif isinstance(st, ast.FunctionDef):
            # nested function: analysed in the enclosing environment; its writes are attributed to the enclosing function
            sub = Func(ctx["fn"].module, ctx["fn"].qual + ".<locals>." + st.name, st)
            nenv = dict(ctx["env"])
            for prm in sub.params:
                nenv[prm] = set()
            nctx = {"fn": ctx["fn"], "env": nenv, "types": dict(ctx["types"]), "nested": sub, "arr": set(ctx.get("arr", ()))}
            rets_before = set(ctx["fn"].returns)
            for _ in range(2):
                self.block(st.body, nctx)
            ctx.setdefault("locals_fn", {})[st.name] = sub
        elif isinstance(st, ast.Assert):
            self.expr(st.test, ctx)
        elif isinstance(st, ast.Raise):
            if st.exc is not None:
                self.expr(st.exc, ctx)

    def narrow(self, test, ctx):
        # isinstance(x, Cls) narrows the receiver class for method resolution
        if isinstance(test, ast.Call) and isinstance(test.func, ast.Name) and test.func.id == "isinstance" and len(test.args) == 2:
            if isinstance(test.args[0], ast.Name):
                c = Program._basename(test.args[1])
                if c in self.p.classes:
                    ctx["types"][test.args[0].id] = c

    def _array_index(self, sl, ctx):
        """kind of a subscript: 'fancy' (an index ARRAY: numpy returns a new array), 'view' (slice / field name: the same storage), None"""
        arr = ctx.get("arr", ())
        if isinstance(sl, ast.Name) and sl.id in arr:
            return "fancy"
        if isinstance(sl, ast.Slice) or (isinstance(sl, ast.Constant) and isinstance(sl.value, str)):
            return "view"
        if isinstance(sl, ast.Tuple) and sl.elts and all(self._array_index(e, ctx) is not None for e in sl.elts):
            return "fancy" if any(self._array_index(e, ctx) == "fancy" for e in sl.elts) else "view"
        return None

    def is_array_expr(self, node, ctx):
        arr = ctx.get("arr", ())
        if isinstance(node, ast.Call) and isinstance(node.func, ast.Attribute):
            f = node.func
            if isinstance(f.value, ast.Name) and f.value.id in ("np", "numpy") and f.value.id not in ctx["env"] and f.attr in ARRAY_FUNCS:
                return True
            if isinstance(f.value, ast.Name) and f.value.id in arr and f.attr in ARRAY_METHODS:
                return True
        if isinstance(node, ast.Subscript):
            kind = self._array_index(node.slice, ctx)
            if kind == "fancy":
                return True  # only an ndarray accepts an index array
            if kind == "view" and isinstance(node.value, ast.Name) and node.value.id in arr:
                return True
        return False

    def ctor_type(self, node, ctx):
        if isinstance(node, ast.Call):
            n = Program._basename(node.func)
            if n in self.p.classes:
                return n
        return None

    # -------------------------------------------------------------------------------- expressions -> taints
    def expr(self, n, ctx):
        if n is None:
            return set()
        env = ctx["env"]
        if isinstance(n, ast.Name):
            return set(env.get(n.id, set()))
        if isinstance(n, ast.Constant):
            return set()
        if isinstance(n, ast.Attribute):
            base = self.expr(n.value, ctx)
            if isinstance(n.value, ast.Name) and n.value.id in LIB_MODULES and not base:
                return set()
            if n.attr in immutable_attrs():
                out = set()
            else:
                out = attr(base)
            if base:
                cls = self.type_of(n.value, ctx)
                for g in self.p.members_named(n.attr, "props", cls):
                    out |= self.apply_summary(ctx, g, [base], n, via="property .%s" % n.attr)
            return out
        if isinstance(n, ast.Subscript):
            base = self.expr(n.value, ctx)
            self.expr(n.slice, ctx)
            kind = self._array_index(n.slice, ctx)
            if kind == "fancy":
                return shallow(base)  # numpy: indexing with an index array copies (a new array over the same element values)
            if kind == "view" and isinstance(n.value, ast.Name) and n.value.id in ctx.get("arr", ()):
                return set(base)  # a field or slice of an ndarray is an ndarray over the same storage
            return down(base)
        if isinstance(n, ast.Slice):
            for x in (n.lower, n.upper, n.step):
                self.expr(x, ctx)
            return set()
        if isinstance(n, (ast.Tuple, ast.List, ast.Set)):
            out = set()
            for e in n.elts:
                out |= up(self.expr(e.value if isinstance(e, ast.Starred) else e, ctx))
            return out
        if isinstance(n, ast.Dict):
            out = set()
            for k, v in zip(n.keys, n.values):
                if k is not None:
                    self.expr(k, ctx)
                out |= up(self.expr(v, ctx))
            return out
        if isinstance(n, (ast.ListComp, ast.SetComp, ast.GeneratorExp, ast.DictComp)):
            for g in n.generators:
                it = self.expr(g.iter, ctx)
                self.bind(ctx, g.target, down(it))
                for c in g.ifs:
                    self.expr(c, ctx)
            if isinstance(n, ast.DictComp):
                self.expr(n.key, ctx)
                el = self.expr(n.value, ctx)
            else:
                el = self.expr(n.elt, ctx)
            return up(el)
        if isinstance(n, ast.BinOp):
            a = self.expr(n.left, ctx) | self.expr(n.right, ctx)
            if isinstance(n.op, (ast.Add, ast.Mult, ast.BitOr, ast.BitAnd)):
                return shallow(a)  # list concatenation / repetition, set union: fresh container, shared elements
            return set()  # arithmetic: a new number / a new array
        if isinstance(n, ast.UnaryOp):
            self.expr(n.operand, ctx)
            return set()
        if isinstance(n, ast.BoolOp):
            out = set()
            for v in n.values:
                out |= self.expr(v, ctx)
            return out
        if isinstance(n, ast.Compare):
            self.expr(n.left, ctx)
            for c in n.comparators:
                self.expr(c, ctx)
            return set()
        if isinstance(n, ast.IfExp):
            self.expr(n.test, ctx)
            return self.expr(n.body, ctx) | self.expr(n.orelse, ctx)
        if isinstance(n, ast.Call):
            return self.call(n, ctx)
        if isinstance(n, (ast.JoinedStr, ast.FormattedValue)):
            for v in ast.iter_child_nodes(n):
                if isinstance(v, ast.expr):
                    self.expr(v, ctx)
            return set()
        if isinstance(n, ast.Lambda):
            return set()
        if isinstance(n, ast.Starred):
            return self.expr(n.value, ctx)
        if isinstance(n, (ast.Yield, ast.YieldFrom)):
            if n.value is not None:
                self.ret(ctx, up(self.expr(n.value, ctx)) if isinstance(n, ast.Yield) else self.expr(n.value, ctx))
            return set()
        if isinstance(n, ast.NamedExpr):
            v = self.expr(n.value, ctx)
            self.bind(ctx, n.target, v)
            return v
        if isinstance(n, ast.Await):
            return self.expr(n.value, ctx)
        return set()

    def apply_summary(self, ctx, callee, arg_taints, node, via="call"):
        """arg_taints: list aligned with callee.pos (positional), or dict name->taints.  returns result taints"""
        out = set()
        if isinstance(arg_taints, list):
            amap = {callee.pos[i]: t for i, t in enumerate(arg_taints) if i < len(callee.pos)}
            extra = [t for i, t in enumerate(arg_taints) if i >= len(callee.pos)]
            if extra and callee.node.args.vararg:
                amap[callee.node.args.vararg.arg] = set().union(*extra)
        else:
            amap = arg_taints
        for prm, kd in list(callee.mutates.items()):
            for kc, wit in list(kd.items()):
                for (p, ka, wa) in amap.get(prm, set()):
                    if kc >= wa:  # the write goes through all fresh layers of the argument and lands in the caller's parameter
                        self.mut(ctx, {(p, min(ka + kc - wa, CAP), 0)}, node, "%s %s writes its parameter '%s'" % (via, callee.name, prm), chain=list(wit))
        for prm, why in list(callee.unknown.items()):
            ts = amap.get(prm, set())
            if ts:
                self.unk(ctx, ts, node, "%s %s has unresolved effects on '%s' (%s)" % (via, callee.name, prm, why))
        for cp, passed in list(callee.callable_params.items()):
            ts = set()
            for prm in passed:
                for (p, k, w) in amap.get(prm, set()):
                    ts.add((p, min(k + 1, CAP), 0))  # the callback receives elements reached from the argument
                    ts.add((p, k, 0))
            if not ts:
                continue
            actual = self.actual_node(callee, node, cp)
            if isinstance(actual, ast.Lambda):
                saved = dict(ctx["env"])
                for a in actual.args.args:
                    ctx["env"][a.arg] = set(ts)
                self.expr(actual.body, ctx)
                ctx["env"] = saved
            elif isinstance(actual, ast.Name) and isinstance(self.p.resolve_name(ctx["fn"].module, actual.id), Func):
                g = self.p.resolve_name(ctx["fn"].module, actual.id)
                self.apply_summary(ctx, g, [set(ts) for _ in g.pos], node, via="callback")
            elif actual is None and cp in [a.arg for a in callee.node.args.args[-len(callee.node.args.defaults or []):]]:
                pass  # default value of the callable parameter (a library function / None)
            else:
                self.unk(ctx, ts, node, "%s %s calls its parameter '%s' (callback not resolvable here)" % (via, callee.name, cp))
        for (prm, kr, wr) in list(callee.returns):
            for (p, ka, wa) in amap.get(prm, set()):
                if kr <= wa:
                    out.add((p, ka, min(wa - kr + wr, CAP)))
                else:
                    out.add((p, min(ka + kr - wa, CAP), wr))
        return out

    def call(self, n, ctx):
        env = ctx["env"]
        args = [self.expr(a.value if isinstance(a, ast.Starred) else a, ctx) for a in n.args]
        kw = {k.arg: self.expr(k.value, ctx) for k in n.keywords}
        allargs = set().union(*args, *kw.values()) if (args or kw) else set()
        f = n.func
        fn = ctx["fn"]
        if "out" in kw and kw["out"]:
            self.mut(ctx, kw["out"], n, "library call with out= argument")
        if isinstance(f, ast.Name):
            name = f.id
            if name in ctx.get("locals_fn", {}):
                sub = ctx["locals_fn"][name]
                # nested function body was analysed in the enclosing environment with untainted parameters: re-run with these arguments
                nenv = dict(env)
                for i, prm in enumerate(sub.pos):
                    nenv[prm] = set(args[i]) if i < len(args) else kw.get(prm, set())
                nctx = {"fn": fn, "env": nenv, "types": dict(ctx["types"]), "locals_fn": ctx.get("locals_fn", {}), "arr": set(ctx.get("arr", ()))}
                before = set(fn.returns)
                depth = ctx.get("depth", 0)
                if depth < 3:
                    nctx["depth"] = depth + 1
                    rets = set()
                    saved = fn.returns
                    fn.returns = set()
                    self.block(sub.node.body, nctx)
                    rets = fn.returns
                    fn.returns = saved
                    return rets
                return flat(allargs)
            if name in fn.params and name in env and not ctx.get("nested"):
                # a callable PARAMETER: resolved at each call site of this function (higher-order summary)
                cp = fn.callable_params.setdefault(name, set())
                new = {p for (p, k, w) in allargs} - cp
                if new:
                    cp |= new
                    self.changed = True
                return flat(allargs)
            if name in ctx.get("fnalias", {}) and not env.get(name):
                out = set()
                for g in ctx["fnalias"][name]:
                    out |= self.apply_summary(ctx, g, self.argmap(g, args, kw), n, via="call through local name %s =" % name)
                return out
            if name in env and name not in self.p.by_module.get(fn.module, {}):
                # a local variable holding a callable
                self.unk(ctx, allargs, n, "call of local callable %s" % name)
                return flat(allargs)
            if name in ("setattr", "delattr"):
                if args:
                    self.mut(ctx, args[0], n, "%s()" % name)
                return set()
            if name in ("vars", "globals"):
                return flat(allargs)
            if name in FRESH_CALLS:
                return set()
            if name in ("zip", "enumerate"):
                return up(shallow(allargs))  # iterable of fresh tuples around the elements
            if name in SHALLOW_CALLS:
                return shallow(allargs)
            if name in ALIAS_CALLS:
                return set(args[0]) if args else set()
            r = self.p.resolve_name(fn.module, name)
            if isinstance(r, Func):
                amap = self.argmap(r, args, kw)
                return self.apply_summary(ctx, r, amap, n)
            if isinstance(r, tuple) and r[0] == "class":
                init = self.p.lookup_member(r[1], "__init__", "methods")
                if init is not None:
                    amap = self.argmap(init, [set()] + args, kw)
                    self.apply_summary(ctx, init, amap, n, via="constructor")
                return up(allargs)
            if isinstance(r, tuple) and r[0] == "lib":
                return set()  # trusted: a library call outside the container list returns a value that does not alias its arguments
            # unresolved global (star import / builtin exception class / unknown)
            if name and name[0].isupper():
                return set()
            cands = [x for x in self.p.funcs.values() if x.qual == name]
            if cands:
                out = set()
                for c in cands:
                    out |= self.apply_summary(ctx, c, self.argmap(c, args, kw), n)
                return out
            return set()
        if isinstance(f, ast.Attribute):
            mname = f.attr
            # library module function: np.xxx(...), copy.deepcopy(...)
            root = f.value
            chain = []
            while isinstance(root, ast.Attribute):
                chain.append(root.attr)
                root = root.value
            if isinstance(root, ast.Name) and root.id not in env:
                rr = self.p.resolve_name(fn.module, root.id)
                if root.id in LIB_MODULES or (isinstance(rr, tuple) and rr[0] == "lib"):
                    key = (".".join([root.id] + list(reversed(chain))), mname)
                    if key in LIB_ARG_MUTATORS and args:
                        self.mut(ctx, args[LIB_ARG_MUTATORS[key]], n, "library call %s.%s writes its argument" % key)
                    if mname == "deepcopy" or mname in FRESH_CALLS:
                        return set()
                    if mname in ALIAS_CALLS:
                        return set(args[0]) if args else set()
                    if mname in SHALLOW_CALLS:
                        return shallow(allargs)
                    return set()
                if isinstance(rr, tuple) and rr[0] == "module":
                    tgt = self.p.resolve_name(rr[1], mname) if not chain else None
                    if isinstance(tgt, Func):
                        return self.apply_summary(ctx, tgt, self.argmap(tgt, args, kw), n)
                    if isinstance(tgt, tuple) and tgt[0] == "class":
                        init = self.p.lookup_member(tgt[1], "__init__", "methods")
                        if init is not None:
                            self.apply_summary(ctx, init, self.argmap(init, [set()] + args, kw), n, via="constructor")
                        return up(allargs)
                    return up(allargs)
                if isinstance(rr, tuple) and rr[0] == "class":
                    # Class.method(...) / classmethod constructors
                    m = self.p.lookup_member(rr[1], mname, "methods")
                    if m is not None:
                        return self.apply_summary(ctx, m, self.argmap(m, ([] if m.is_static else [set()]) + args, kw), n)
                    return up(allargs)
            recv = self.expr(f.value, ctx)
            if isinstance(f.value, ast.Call) and isinstance(f.value.func, ast.Name) and f.value.func.id == "super":
                cls = fn.cls
                out = set()
                if cls:
                    for b in self.p.mro(cls)[1:]:
                        m = self.p.classes[b]["methods"].get(mname)
                        if m is not None:
                            selft = env.get(fn.pos[0], set()) if fn.pos else set()
                            out |= self.apply_summary(ctx, m, self.argmap(m, [selft] + args, kw), n)
                            break
                return out
            out = set()
            if mname in MUTATORS:
                self.mut(ctx, recv, n, "call of container mutator .%s()" % mname)
                if mname in ("pop", "setdefault", "popitem"):
                    out |= down(recv)
                # a tainted value stored into a (fresh) container makes that container hold it
                rname, sdepth = root_and_depth(f.value)
                if rname is not None and mname in ("append", "add", "insert", "extend", "update", "setdefault", "appendleft"):
                    add = up(allargs, sdepth + 1) if mname not in ("extend", "update") else (up(allargs, sdepth) if sdepth else set(allargs))
                    if add:
                        env[rname] = env.get(rname, set()) | add
            if mname == "__setattr__" or mname == "__dict__":
                self.mut(ctx, recv, n, "reflection")
            cls = self.type_of(f.value, ctx)
            if cls is None and mname in BUILTIN_CONTAINER_METHODS:
                cands = []  # assumption (reported): a receiver with no inferred /repo class is a builtin container / ndarray here
            else:
                cands = self.p.members_named(mname, "methods", cls) if recv or cls else []
            if cands and (recv or allargs):
                for m in cands:
                    out |= self.apply_summary(ctx, m, self.argmap(m, ([] if m.is_static else [recv]) + args, kw), n,
                                              via="method call .%s() ->" % mname)
                return out
            if mname in ("copy", "astype", "tolist", "flatten", "items", "values", "keys", "get", "view", "ravel", "reshape", "T",
                         "transpose", "squeeze", "iter_all", "__iter__", "__getitem__", "most_common", "elements"):
                if mname == "astype":
                    return out  # a new numeric/string array: holds no references
                if mname in ("copy", "tolist", "flatten"):
                    return out | shallow(recv)
                if mname == "items":
                    return out | up(shallow(recv))
                return out | set(recv) | up(allargs)
            # unknown method on a tainted receiver: result may alias, arguments may be stored
            return out | set(recv) | up(allargs)
        # call of a computed callable
        ft = self.expr(f, ctx)
        self.unk(ctx, allargs | ft, n, "call of computed callable")
        return flat(allargs)

    @staticmethod
    def actual_node(callee, call, prm):
        if not isinstance(call, ast.Call):
            return None
        for k in call.keywords:
            if k.arg == prm:
                return k.value
        if prm in callee.pos:
            i = callee.pos.index(prm)
            if callee.cls and not callee.is_static and isinstance(call.func, ast.Attribute):
                i -= 1
            if 0 <= i < len(call.args):
                return call.args[i]
        return None

    @staticmethod
    def argmap(callee, args, kw):
        amap = {}
        for i, t in enumerate(args):
            if i < len(callee.pos):
                amap[callee.pos[i]] = set(t)
            elif callee.node.args.vararg:
                amap.setdefault(callee.node.args.vararg.arg, set()).update(t)
        for k, t in kw.items():
            if k in callee.params:
                amap[k] = amap.get(k, set()) | set(t)
            elif callee.node.args.kwarg:
                amap.setdefault(callee.node.args.kwarg.arg, set()).update(t)
        return amap


_cache = {}


def summaries():
    if "prog" not in _cache:
        prog = Program()
        an = Analyzer(prog)
        iters = an.run()
        _cache["prog"] = prog
        _cache["iters"] = iters
    return _cache["prog"]


def find_func(prog, dotted):
    """'partitura.io.exportmusicxml.save_musicxml' / 'partitura.score.Part.note_array' -> Func"""
    if dotted in prog.funcs:
        return prog.funcs[dotted]
    for k, f in prog.funcs.items():
        if k == dotted or k == dotted + ".getter":
            return f
    return None


def run(frames, pid):
    """frames: list of {target, param, modifies(list, must be []), confirm: callable() -> (changed: bool, description) or None}"""
    import time
    out = []
    t0 = time.time()
    prog = summaries()
    for fr in frames:
        tgt, prm = fr["target"], fr["param"]
        name = "%s/%s/frame/%s_not_modified" % (pid, tgt.replace("partitura.", ""), prm)
        f = find_func(prog, tgt)
        res = {"name": name, "target": tgt, "trusted": ["library calls (numpy, scipy, lxml, mido, re) do not write partitura objects unless listed in LIB_ARG_MUTATORS / out="]}
        if f is None:
            res.update(status="undecided", reason="contract cannot be applied: %s not found in the source tree" % tgt)
        elif prm in f.mutates:
            kmin = min(f.mutates[prm])
            wit = f.mutates[prm][kmin]
            confirm = fr.get("confirm")
            native = None
            confirmed = False
            if confirm is not None:
                try:
                    confirmed, native = confirm()
                except Exception as e:
                    native = "native confirmation raised %s: %s" % (type(e).__name__, e)
            if confirmed:
                res.update(status="violated", reason="may write its argument: " + " <- ".join(reversed(wit)), witness=wit, native=native, confirmed=True)
            else:
                res.update(status="candidate", reason="frame not provable: the effect analysis finds a possible write into the argument (no generated input shows a change): "
                           + " <- ".join(reversed(wit))[:600], witness=wit, native=native)
        elif prm in f.unknown:
            res.update(status="undecided", reason="unresolved effect: " + f.unknown[prm])
        else:
            res.update(status="proved", reason="no write to '%s' reachable (summary over %d functions, %d fix-point rounds)" % (prm, len(prog.funcs), _cache["iters"]))
        out.append(res)
    return out
