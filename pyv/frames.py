"""placeholder; replaced below"""
def run(frames, pid):
    return []
