"""Models (assumed contracts) of builtins and trusted externals when called with symbolic arguments.

With fully concrete arguments the real function is called; a model is used only when an argument is
symbolic (or when the model is flagged ``always``: isinstance/type/len etc. that must see through Sym values).
Every model used on a run is listed in the evidence under trusted_base.
"""
import builtins
import math
import types
import copy as _copy

import numpy as np
import z3

from . import sym
from .engine import PyRaise
from .sym import EngineLimit, Sym, SymBool, SymInt, SymReal, has_sym, ite, mkbool, sand, snot, sor, zb, zint, znum


def model(key, label=None, always=False):
    def deco(fn):
        fn.key = key
        fn.label = label or getattr(key, "__name__", str(key))
        fn.always = always
        _ALL.append(fn)
        return fn
    return deco


_ALL = []


def install(interp):
    for fn in _ALL:
        keys = fn.key if isinstance(fn.key, list) else [fn.key]
        for k in keys:
            interp.models[k] = fn


def _isnum(v):
    return isinstance(v, (SymInt, SymReal, int, float, np.integer, np.floating)) and not isinstance(v, bool)


# ---------------------------------------------------------------------------- type tests
def _sym_isinstance(v, t):
    if isinstance(t, tuple):
        return any(_sym_isinstance(v, x) for x in t)
    if isinstance(v, SymBool):
        return t in (bool, int, object) or getattr(t, "__name__", "") in ("Number", "Integral", "Real")
    if isinstance(v, SymInt):
        return t in (int, object) or getattr(t, "__name__", "") in ("Number", "Integral", "Real", "Rational")
    if isinstance(v, SymReal):
        return t in (float, object) or getattr(t, "__name__", "") in ("Number", "Real")
    return None


@model(builtins.isinstance, "isinstance", always=True)
def m_isinstance(ip, args, kw):
    from .seq import SymSeq, Ref
    v, t = args
    if isinstance(v, Sym):
        return _sym_isinstance(v, t)
    if isinstance(v, Ref):
        return v.isinstance(t, ip)
    if isinstance(v, SymSeq):
        return v.isinstance(t)
    from .interp import Opaque, Closure
    if isinstance(v, Opaque):
        return t is str or (isinstance(t, tuple) and str in t)
    if isinstance(v, Closure):
        return t in (types.FunctionType,) or getattr(t, "__name__", "") == "Callable"
    return isinstance(v, t)


@model(builtins.type, "type", always=True)
def m_type(ip, args, kw):
    from .seq import Ref
    if len(args) != 1:
        return ip.native(type, args, kw)
    v = args[0]
    if isinstance(v, SymBool):
        return bool
    if isinstance(v, SymInt):
        return int
    if isinstance(v, SymReal):
        return float
    if isinstance(v, Ref):
        return v.type_of(ip)
    from .interp import Opaque
    if isinstance(v, Opaque):
        return str
    return type(v)


@model(builtins.callable, "callable", always=True)
def m_callable(ip, args, kw):
    from .interp import Closure, BoundMethod
    if isinstance(args[0], (Closure, BoundMethod)):
        return True
    return callable(args[0])


@model(builtins.len, "len", always=True)
def m_len(ip, args, kw):
    from .seq import SymSeq
    v = args[0]
    if isinstance(v, SymSeq):
        return v.length()
    if isinstance(v, Sym):
        raise PyRaise(TypeError, "object has no len()")
    if ip.is_symobj(v):
        import inspect
        m = inspect.getattr_static(type(v), "__len__", None)
        if isinstance(m, types.FunctionType):
            from .interp import BoundMethod
            return ip.call(BoundMethod(v, m), [], {})
    return ip.native(len, [v], {})


@model(builtins.id, "id", always=True)
def m_id(ip, args, kw):
    return id(args[0])


@model(builtins.hasattr, "hasattr", always=True)
def m_hasattr(ip, args, kw):
    try:
        ip.getattr(args[0], args[1])
        return True
    except PyRaise as e:
        if issubclass(e.exc_type, AttributeError):
            return False
        raise


@model(builtins.getattr, "getattr", always=True)
def m_getattr(ip, args, kw):
    try:
        return ip.getattr(args[0], args[1])
    except PyRaise as e:
        if len(args) > 2 and issubclass(e.exc_type, AttributeError):
            return args[2]
        raise


@model(builtins.setattr, "setattr", always=True)
def m_setattr(ip, args, kw):
    ip.setattr(args[0], args[1], args[2])


@model(builtins.iter, "iter", always=True)
def m_iter(ip, args, kw):
    return iter(ip.iterate(args[0]))


@model(builtins.next, "next", always=True)
def m_next(ip, args, kw):
    it = args[0]
    if ip.is_symobj(it):
        import inspect
        from .interp import BoundMethod
        nx = inspect.getattr_static(type(it), "__next__", None)
        if nx is None:
            raise PyRaise(TypeError, "not an iterator")
        try:
            return ip.call(BoundMethod(it, nx), [], {})
        except PyRaise as e:
            if len(args) > 1 and issubclass(e.exc_type, StopIteration):
                return args[1]
            raise
    try:
        return next(it)
    except StopIteration:
        if len(args) > 1:
            return args[1]
        raise PyRaise(StopIteration, "")


@model(builtins.list, "list", always=True)
def m_list(ip, args, kw):
    if not args:
        return []
    return list(ip.iterate(args[0]))


@model(builtins.tuple, "tuple", always=True)
def m_tuple(ip, args, kw):
    if not args:
        return ()
    return tuple(ip.iterate(args[0]))


@model(builtins.sorted, "sorted", always=True)
def m_sorted(ip, args, kw):
    xs = ip.iterate(args[0])
    key = kw.get("key")
    if key is None and not has_sym(xs) and ip.concrete(xs):
        return sorted(xs, reverse=kw.get("reverse", False))
    keys = [ip.call(key, [x], {}) if key is not None else x for x in xs]
    if has_sym(keys):
        raise EngineLimit("sorted() on symbolic keys")
    order = sorted(range(len(xs)), key=lambda i: keys[i], reverse=kw.get("reverse", False))
    return [xs[i] for i in order]


@model(builtins.enumerate, "enumerate", always=True)
def m_enumerate(ip, args, kw):
    start = args[1] if len(args) > 1 else kw.get("start", 0)
    return iter([(start + i, x) for i, x in enumerate(ip.iterate(args[0]))])


@model(builtins.zip, "zip", always=True)
def m_zip(ip, args, kw):
    return iter(list(zip(*[ip.iterate(a) for a in args])))


@model(builtins.reversed, "reversed", always=True)
def m_reversed(ip, args, kw):
    return iter(list(reversed(ip.iterate(args[0]))))


@model(builtins.map, "map", always=True)
def m_map(ip, args, kw):
    f = args[0]
    return iter([ip.call(f, list(xs), {}) for xs in zip(*[ip.iterate(a) for a in args[1:]])])


@model(builtins.filter, "filter", always=True)
def m_filter(ip, args, kw):
    f = args[0]
    return iter([x for x in ip.iterate(args[1]) if ip.truth(ip.call(f, [x], {}) if f is not None else x)])


@model(builtins.all, "all", always=True)
def m_all(ip, args, kw):
    for x in ip.iterate(args[0]):
        if not ip.truth(x):
            return False
    return True


@model(builtins.any, "any", always=True)
def m_any(ip, args, kw):
    for x in ip.iterate(args[0]):
        if ip.truth(x):
            return True
    return False


@model(builtins.sum, "sum", always=True)
def m_sum(ip, args, kw):
    import ast
    acc = args[1] if len(args) > 1 else kw.get("start", 0)
    for x in ip.iterate(args[0]):
        acc = ip.binop(ast.Add, acc, x)
    return acc


def _minmax(ip, args, kw, is_min):
    import ast
    if len(args) == 1:
        xs = ip.iterate(args[0])
    else:
        xs = list(args)
    key = kw.get("key")
    if not xs:
        if "default" in kw:
            return kw["default"]
        raise PyRaise(ValueError, "min()/max() arg is an empty sequence")
    best = xs[0]
    bk = ip.call(key, [best], {}) if key else best
    for x in xs[1:]:
        k = ip.call(key, [x], {}) if key else x
        c = ip.compare(ast.Lt if is_min else ast.Gt, k, bk)
        if ip.truth(c):
            best, bk = x, k
    return best


@model(builtins.min, "min", always=True)
def m_min(ip, args, kw):
    return _minmax(ip, args, kw, True)


@model(builtins.max, "max", always=True)
def m_max(ip, args, kw):
    return _minmax(ip, args, kw, False)


# ---------------------------------------------------------------------------- numbers
@model([builtins.abs, np.abs, np.absolute, math.fabs], "abs")
def m_abs(ip, args, kw):
    v = args[0]
    if isinstance(v, (SymInt, SymReal)):
        return abs(v)
    raise EngineLimit("abs of %s" % type(v).__name__)


@model(builtins.int, "int")
def m_int(ip, args, kw):
    v = args[0]
    if isinstance(v, SymInt):
        return v
    if isinstance(v, SymBool):
        return SymInt(z3.If(v.z, z3.IntVal(1), z3.IntVal(0)))
    if isinstance(v, SymReal):
        # int() truncates toward zero
        z = v.z
        return SymInt(z3.simplify(z3.If(z >= 0, z3.ToInt(z), -z3.ToInt(-z))))
    raise EngineLimit("int() of %s" % type(v).__name__)


@model(builtins.float, "float")
def m_float(ip, args, kw):
    v = args[0]
    if isinstance(v, SymReal):
        return v
    if isinstance(v, (SymInt, SymBool)):
        ip.assumptions.add("float(int) is exact (|value| < 2**53 not checked)")
        return SymReal(z3.ToReal(zint(v)))
    raise EngineLimit("float() of %s" % type(v).__name__)


@model(builtins.bool, "bool")
def m_bool(ip, args, kw):
    return ip.truth(args[0])


@model(builtins.str, "str")
def m_str(ip, args, kw):
    from .interp import OPAQUE
    return OPAQUE


@model(builtins.repr, "repr")
def m_repr(ip, args, kw):
    from .interp import OPAQUE
    return OPAQUE


@model(builtins.print, "print")
def m_print(ip, args, kw):
    return None


@model([np.round, np.around], "np.round (half to even)")
def m_round(ip, args, kw):
    v = args[0]
    nd = args[1] if len(args) > 1 else kw.get("decimals", kw.get("ndigits", 0))
    if nd not in (0, None):
        raise EngineLimit("round with digits")
    if isinstance(v, SymInt):
        return v
    if isinstance(v, SymReal):
        z = v.z
        fl = z3.ToInt(z)
        frac = z - z3.ToReal(fl)
        half = z3.RealVal("1/2")
        r = z3.If(frac < half, fl, z3.If(frac > half, fl + 1, z3.If(fl % 2 == 0, fl, fl + 1)))
        r = z3.simplify(r)
        # builtins.round returns int; np.round returns float of integral value
        return SymRoundResult(r)
    raise EngineLimit("round of %s" % type(v).__name__)


class SymRoundResult(SymReal):
    """result of np.round: a float with integral value; int() of it is exact"""
    __slots__ = ("iz",)

    def __init__(self, iz):
        SymReal.__init__(self, z3.ToReal(iz))
        self.iz = iz


@model(builtins.round, "round (half to even)")
def m_pyround(ip, args, kw):
    r = m_round(ip, args, kw)
    if isinstance(r, SymRoundResult):
        return SymInt(r.iz)
    return r


_int_prev = m_int


@model(builtins.int, "int")
def m_int2(ip, args, kw):
    v = args[0]
    if isinstance(v, SymRoundResult):
        return SymInt(v.iz)
    return _int_prev(ip, args, kw)


@model([math.floor, np.floor], "floor")
def m_floor(ip, args, kw):
    v = args[0]
    if isinstance(v, SymInt):
        return v
    if isinstance(v, SymReal):
        return SymInt(z3.simplify(z3.ToInt(v.z)))
    raise EngineLimit("floor")


@model([math.ceil, np.ceil], "ceil")
def m_ceil(ip, args, kw):
    v = args[0]
    if isinstance(v, SymInt):
        return v
    if isinstance(v, SymReal):
        return SymInt(z3.simplify(-z3.ToInt(-v.z)))
    raise EngineLimit("ceil")


@model([np.mod, np.remainder], "np.mod (floor semantics)")
def m_npmod(ip, args, kw):
    import ast
    return ip.binop(ast.Mod, args[0], args[1])


@model(builtins.divmod, "divmod")
def m_divmod(ip, args, kw):
    import ast
    return (ip.binop(ast.FloorDiv, args[0], args[1]), ip.binop(ast.Mod, args[0], args[1]))


@model(np.sign, "np.sign")
def m_sign(ip, args, kw):
    v = args[0]
    z = znum(v)
    return SymInt(z3.simplify(z3.If(z > 0, z3.IntVal(1), z3.If(z < 0, z3.IntVal(-1), z3.IntVal(0)))))


@model([np.minimum], "np.minimum (scalars)")
def m_npmin(ip, args, kw):
    return _minmax(ip, args[:2], {}, True)


@model([np.maximum], "np.maximum (scalars)")
def m_npmax(ip, args, kw):
    return _minmax(ip, args[:2], {}, False)


@model(builtins.range, "range")
def m_range(ip, args, kw):
    raise EngineLimit("range() with symbolic bound and no loop invariant")


@model(builtins.pow, "pow")
def m_pow(ip, args, kw):
    return args[0] ** args[1]


# ---------------------------------------------------------------------------- numpy searchsorted on concrete sorted tables
@model(np.searchsorted, "np.searchsorted (sorted table, symbolic value)")
def m_searchsorted(ip, args, kw):
    from .seq import SymSeq
    a, v = args[0], args[1]
    side = args[2] if len(args) > 2 else kw.get("side", "left")
    if isinstance(a, SymSeq):
        return a.searchsorted(v, side, ip)
    if isinstance(v, (SymInt, SymReal)) and ip.concrete(a):
        arr = list(np.asarray(a).tolist())
        if any(arr[i] > arr[i + 1] for i in range(len(arr) - 1)):
            raise EngineLimit("searchsorted on unsorted table")
        n = len(arr)
        conds = []
        for i in range(n + 1):
            cs = []
            if i > 0:
                lo = arr[i - 1]
                cs.append(zb(lo < v) if side == "left" else zb(lo <= v))
            if i < n:
                hi = arr[i]
                cs.append(zb(v <= hi) if side == "left" else zb(v < hi))
            conds.append(z3.And(*cs) if cs else z3.BoolVal(True))
        return ip.eng.choose(conds, "searchsorted")
    raise EngineLimit("searchsorted with these argument kinds")


# ---------------------------------------------------------------------------- copy
@model([_copy.copy], "copy.copy (shallow)")
def m_copy(ip, args, kw):
    v = args[0]
    if isinstance(v, Sym):
        return v
    if isinstance(v, (list, dict, set, tuple)):
        return type(v)(v) if not isinstance(v, tuple) else v
    if ip.is_symobj(v):
        o = type(v).__new__(type(v))
        ip.symobjs[id(o)] = o
        o.__dict__.update(v.__dict__)
        return o
    raise EngineLimit("copy.copy of %s" % type(v).__name__)


@model(("dict", "copy"), "dict.copy")
def m_dictcopy(ip, args, kw):
    raise EngineLimit("dict.copy dispatch")


import warnings as _warnings


@model(_warnings.warn, "warnings.warn (assumed not to raise)", always=True)
def m_warn(ip, args, kw):
    return None


# ---------------------------------------------------------------------------- symbolic sequences (seq.py)
from . import seq as _seq


@model(np.insert, "np.insert on a symbolic sequence")
def m_np_insert(ip, args, kw):
    return _seq.np_insert(ip, args, kw)


@model(np.delete, "np.delete on a symbolic sequence")
def m_np_delete(ip, args, kw):
    return _seq.np_delete(ip, args, kw)
