"""./check driver: runs every back end of one property, writes evidence and replay files, prints verdict lines.

exit 0  held on everything explored (undecided obligations are reported, never turned into violations)
exit 1  at least one VIOLATION line not covered by known_findings.json
exit 3  checker failure (traceback, zero obligations, vacuous contract)
"""
import argparse
import hashlib
import importlib
import json
import multiprocessing as mp
import os
import sys
import time
import traceback
import warnings

ROOT = os.path.dirname(os.path.dirname(os.path.abspath(__file__)))
# where evidence/ and replays/ are written: /verif, unless the seeded-change matrix (tools/seed_matrix.sh) redirects a run against a scratch
# worktree (PYV_REPO) to a scratch directory so that nothing committed is touched by a run on a changed tree
OUT = os.environ.get("PYV_OUT", ROOT)
sys.path.insert(0, ROOT)
warnings.simplefilter("ignore")

ASSUMPTIONS_ALWAYS = [
    "CPython 3.12, numpy, scipy, z3 5.1 and cvc5 are trusted; the ast module is assumed faithful to the source text",
    "Python ints are modelled as unbounded mathematical integers (exact); numpy fixed-width overflow is not modelled",
    "extraction drops docstrings, annotations, warnings.warn calls and the deprecated_alias/deprecated_parameter keyword shims",
]


def _worker(job):
    pid, idx, fix, timeout_ms, seed = job
    warnings.simplefilter("ignore")
    try:
        mod = importlib.import_module("contracts." + pid.lower())
        from pyv.contracts import FunctionVerifier
        c = mod.CONTRACTS[idx]
        registry = getattr(mod, "registry", lambda: {})()
        v = FunctionVerifier(c, registry=registry, timeout_ms=timeout_ms, seed=seed)
        if fix:
            v.c = c.fixed(fix)
        v.run()
        return {"idx": idx, "fix": repr(fix), "target": c.target, "outside": v.outside, "error": getattr(v, "error", False),
                "stats": v.stats, "results": [v.results[n].as_dict() for n in v.order],
                "params": {n: s.describe() for n, s in c.params}, "float_mode": c.float_mode, "note": c.note}
    except Exception as e:
        return {"idx": idx, "fix": repr(fix), "target": "?", "outside": "checker error: %s" % e, "error": True,
                "stats": {}, "results": [], "params": {}, "trace": traceback.format_exc()}


class BoundedCtx:
    """bookkeeping for the bounded (run-time contract) back end: never counted as proved"""

    def __init__(self, pid, tier, seed):
        self.pid, self.tier, self.seed = pid, tier, seed
        self.evaluations = 0
        self.nontrivial = set()
        self.failures = []  # dicts
        self.samples = []
        self.rules = []
        self.scopes = []
        self.errors = []
        self.by_clause = {}
        self.ties = 0
        self.t0 = time.time()
        self.known = load_known()
        self._known_shown = {}

    def case(self, clause, ok, case, what="", nontrivial=True, key=None):
        """record one evaluation of a run-time contract clause on the real function"""
        self.evaluations += 1
        d = self.by_clause.setdefault(clause, [0, 0])
        d[0] += 1
        if nontrivial:
            k = key if key is not None else hashlib.md5(repr((clause, case)).encode()).hexdigest()
            self.nontrivial.add(k)
        if len(self.samples) < 6 and d[0] == 1:
            self.samples.append({"clause": clause, "case": _js(case), "verdict": "holds" if ok else "FAILS"})
        if not ok:
            d[1] += 1
            # failures that a recorded known finding explains never use up the per-clause display budget of the others
            k = match_known(self.known, self.pid, "%s/bounded/%s" % (self.pid, clause), _js(case))
            if k is not None:
                kk = (clause, str(k.get("witness")))
                self._known_shown[kk] = self._known_shown.get(kk, 0) + 1
                if self._known_shown[kk] <= 2:
                    self.failures.append({"clause": clause, "case": _js(case), "what": what, "known": True})
            elif sum(1 for f in self.failures if f["clause"] == clause and not f.get("known")) < 8:
                self.failures.append({"clause": clause, "case": _js(case), "what": what})
        return ok

    def guard(self, clause, case, fn, what="raised"):
        """run fn(); an exception counts as a failure of `clause` on `case` (never a checker crash)"""
        try:
            return True, fn()
        except Exception as e:
            self.case(clause, False, case, "%s: %s: %s" % (what, type(e).__name__, str(e)[:200]))
            return False, None


def _js(v, depth=0):
    import numpy as np
    if isinstance(v, (str, int, float, bool, type(None))):
        return v
    if isinstance(v, (np.integer,)):
        return int(v)
    if isinstance(v, (np.floating,)):
        return float(v)
    if isinstance(v, np.ndarray):
        return _js(v.tolist(), depth + 1)
    if isinstance(v, (list, tuple, set, frozenset)):
        return [_js(x, depth + 1) for x in v]
    if isinstance(v, dict):
        return {str(k): _js(x, depth + 1) for k, x in v.items()}
    return repr(v)[:200]


def load_known():
    p = os.path.join(ROOT, "known_findings.json")
    if not os.path.exists(p):
        return []
    return json.load(open(p))


def match_known(known, pid, obligation, inputs):
    """a finding matches when property and obligation are equal and the recorded witness predicate holds on the input"""
    for k in known:
        if k.get("status") != "finding" or k.get("property") != pid:
            continue
        if k.get("obligation") != obligation and obligation not in (k.get("obligations") or ()):
            continue
        w = k.get("witness")
        if w is None:
            return k
        try:
            if isinstance(w, str):
                if eval(w, {"__builtins__": {"abs": abs, "len": len, "any": any, "all": all, "isinstance": isinstance, "str": str, "min": min, "max": max}}, {"i": inputs, **(inputs if isinstance(inputs, dict) else {})}):
                    return k
            elif w == inputs:
                return k
        except Exception:
            continue
    return None


def run_property(pid, tier, seed, only=None):
    t0 = time.time()
    mod = importlib.import_module("contracts." + pid.lower())
    timeout_ms = 10000 if tier == "quick" else 60000
    out = {"pid": pid, "tier": tier, "only": only}
    # ------------------------------------------------ P: SMT obligations
    jobs = []
    for i, c in enumerate(getattr(mod, "CONTRACTS", [])):
        if only and only not in c.target:
            continue
        splits = c.split_jobs() if hasattr(c, "split_jobs") else [None]
        for fx in splits:
            jobs.append((pid, i, fx, timeout_ms, seed))
    presults = []
    if jobs:
        nproc = min(16, len(jobs))
        ctx = mp.get_context("fork")
        with ctx.Pool(nproc) as pool:
            presults = pool.map(_worker, jobs, chunksize=1)
    out["p"] = presults
    # ------------------------------------------------ closed evaluations (finite facts, exhaustive)
    closed = []
    for name, fn in getattr(mod, "CLOSED", []):
        if only and only not in name:
            continue
        t1 = time.time()
        try:
            r = fn()
            ok, n, detail = r if isinstance(r, tuple) and len(r) == 3 else (bool(r), 1, "")
            closed.append({"name": "%s/closed/%s" % (pid, name), "ok": bool(ok), "cases": n, "detail": detail,
                           "ms": (time.time() - t1) * 1000})
        except Exception as e:
            closed.append({"name": "%s/closed/%s" % (pid, name), "ok": False, "cases": 0, "ms": (time.time() - t1) * 1000,
                           "detail": {"input": None, "what": "raised %s: %s" % (type(e).__name__, e)}})
    out["closed"] = closed
    # ------------------------------------------------ F: frames
    frames = []
    if hasattr(mod, "FRAMES") and not only:
        from pyv import frames as fr
        frames = fr.run(mod.FRAMES() if callable(mod.FRAMES) else mod.FRAMES, pid)
    out["frames"] = frames
    # ------------------------------------------------ B: bounded run-time contracts
    b = BoundedCtx(pid, tier, seed)
    if hasattr(mod, "bounded") and not only:
        try:
            mod.bounded(b)
        except Exception as e:
            b.errors.append("bounded driver crashed: %s: %s\n%s" % (type(e).__name__, e, traceback.format_exc()[-2000:]))
    out["b"] = b
    out["wall_s"] = time.time() - t0
    out["mod"] = mod
    return out


def report(out, seed):
    pid, tier, mod, b = out["pid"], out["tier"], out["mod"], out["b"]
    known = load_known()
    expected_path = os.path.join(ROOT, "expected_discharged.json")
    expected = json.load(open(expected_path)) if os.path.exists(expected_path) else {}
    rdir = os.path.join(OUT, "replays", pid)
    os.makedirs(rdir, exist_ok=True)
    for f in os.listdir(rdir):
        os.unlink(os.path.join(rdir, f))
    lines = []
    violations = 0
    known_hits = []
    checker_errors = []
    # ---- merge P results per obligation
    obls = {}
    funcs = []
    outside = []
    trusted = set()
    assumptions = set(ASSUMPTIONS_ALWAYS)
    inlined = set()
    solver_s = 0.0
    paths = 0
    by_backend = {"z3": 0, "cvc5": 0, "closed-eval": 0, "frame": 0}
    for pr in out["p"]:
        if pr.get("error"):
            checker_errors.append("%s: %s %s" % (pr["target"], pr["outside"], pr.get("trace", "")))
        if pr["target"] not in funcs:
            funcs.append(pr["target"])
        if pr["outside"] and not pr.get("error"):
            outside.append("%s: %s" % (pr["target"], pr["outside"]))
        st = pr.get("stats", {})
        solver_s += st.get("solver_s", 0)
        paths += st.get("complete_paths", 0)
        trusted.update(st.get("trusted", []))
        inlined.update(st.get("inlined", []))
        assumptions.update(st.get("assumptions", []))
        if pr.get("float_mode") == "real" or any("Real" in str(x) or "real" in str(x) for x in pr.get("params", {}).values()):
            assumptions.add("%s: Python floats are treated as exact reals (IEEE-754 rounding not modelled)" % pr["target"])
        for r in pr["results"]:
            o = obls.setdefault(r["name"], {"name": r["name"], "status": "proved", "paths": 0, "queries": 0, "ms": 0.0,
                                            "cex": None, "reason": "", "backend": "z3", "target": pr["target"]})
            o["paths"] += r["paths"]
            o["queries"] += r["queries"]
            o["ms"] += r["ms"]
            if r["backend"] == "cvc5":
                o["backend"] = "cvc5"
            rank = {"proved": 0, "unknown": 1, "undecided": 1, "spurious": 2, "refuted": 3}
            if rank[r["status"]] > rank[o["status"]]:
                o["status"], o["cex"], o["reason"] = r["status"], r["cex"], r["reason"]
    n_obl = 0
    n_dis = 0
    samples = []
    undecided = []
    for name, o in obls.items():
        n_obl += 1
        if o["status"] == "proved":
            n_dis += 1
            by_backend[o["backend"]] += 1
            if len(samples) < 8:
                samples.append({"obligation": name, "verdict": "unsat (valid)", "back_end": o["backend"], "paths": o["paths"],
                                "ms": round(o["ms"], 1)})
            continue
        if o["status"] in ("unknown", "undecided"):
            undecided.append("%s: %s" % (name, o["reason"]))
            continue
        cex = o["cex"] or {}
        confirmed = o["status"] == "refuted"
        if not confirmed and name not in expected:
            undecided.append("%s: SMT counter-model not reproducible natively and obligation not in the discharged baseline: %s" % (name, o["reason"]))
            continue
        k = match_known(known, pid, name, cex.get("inputs")) if confirmed else None
        if k:
            known_hits.append((k, name, cex))
            continue
        slug = name.replace("/", "__").replace(" ", "_")[:150]
        rp = os.path.join(rdir, slug + ".json")
        json.dump({"property": pid, "obligation": name, "target": o["target"], "back_end": "pyv symbolic execution + z3",
                   "inputs": cex.get("inputs"), "path": cex.get("path"), "why": o["reason"],
                   "symbolic_outcome": cex.get("symbolic_outcome"), "native_replay": cex.get("native"),
                   "confirmed_natively": confirmed, "kind": "P",
                   "solver_output": "sat (negated obligation satisfiable under the path condition)"}, open(rp, "w"), indent=1, default=str)
        violations += 1
        lines.append("VIOLATION property=%s replay=%s%s" % (pid, rp, "" if confirmed else " no-failing-input-found"))
        samples.append({"obligation": name, "verdict": "REFUTED", "inputs": cex.get("inputs"), "native": cex.get("native")})
    # ---- closed
    for cr in out["closed"]:
        n_obl += 1
        if cr["ok"]:
            n_dis += 1
            by_backend["closed-eval"] += 1
            if len(samples) < 12:
                samples.append({"obligation": cr["name"], "verdict": "holds on all %d cases (exhaustive)" % cr["cases"], "back_end": "closed-eval"})
            continue
        det = cr["detail"] if isinstance(cr["detail"], dict) else {"what": str(cr["detail"])}
        k = match_known(known, pid, cr["name"], det.get("input"))
        if k:
            known_hits.append((k, cr["name"], det))
            continue
        slug = cr["name"].replace("/", "__")
        rp = os.path.join(rdir, slug + ".json")
        json.dump({"property": pid, "obligation": cr["name"], "kind": "closed", "inputs": _js(det.get("input")),
                   "why": det.get("what"), "confirmed_natively": True}, open(rp, "w"), indent=1, default=str)
        violations += 1
        lines.append("VIOLATION property=%s replay=%s" % (pid, rp))
    # ---- frames
    for fr in out["frames"]:
        n_obl += 1
        trusted.update(fr.get("trusted", []))
        if fr["status"] == "proved":
            n_dis += 1
            by_backend["frame"] += 1
            continue
        if fr["status"] == "candidate" and fr["name"] in expected:
            # proved on the reference tree, now the analysis finds a write into the argument: reported with the chain
            fr["status"] = "violated"
        if fr["status"] in ("undecided", "candidate"):
            undecided.append("%s: %s" % (fr["name"], fr["reason"]))
            continue
        k = match_known(known, pid, fr["name"], fr.get("witness"))
        if k:
            known_hits.append((k, fr["name"], fr))
            continue
        slug = fr["name"].replace("/", "__")
        rp = os.path.join(rdir, slug + ".json")
        json.dump({"property": pid, "obligation": fr["name"], "kind": "frame", "witness_path": fr.get("witness"),
                   "why": fr.get("reason"), "native_replay": fr.get("native"), "confirmed_natively": fr.get("confirmed", False)},
                  open(rp, "w"), indent=1, default=str)
        violations += 1
        lines.append("VIOLATION property=%s replay=%s%s" % (pid, rp, "" if fr.get("confirmed") else " no-failing-input-found"))
    # ---- bounded
    for f in b.failures:
        name = "%s/bounded/%s" % (pid, f["clause"])
        k = match_known(known, pid, name, f["case"])
        if k:
            known_hits.append((k, name, f))
            continue
        slug = (name.replace("/", "__") + "__" + hashlib.md5(json.dumps(f["case"], sort_keys=True, default=str).encode()).hexdigest()[:8])
        rp = os.path.join(rdir, slug + ".json")
        json.dump({"property": pid, "obligation": name, "kind": "bounded", "case": f["case"], "why": f["what"],
                   "confirmed_natively": True, "replay": "./check replay " + rp}, open(rp, "w"), indent=1, default=str)
        violations += 1
        lines.append("VIOLATION property=%s replay=%s" % (pid, rp))
    for e in b.errors:
        name = "%s/bounded/driver_runs_to_completion" % pid
        if e.startswith("bounded driver crashed") and name in expected:
            # the run-time contracts ran to completion on the tree the baseline was written from and the check's own code is the same:
            # what stops them now is a change of the library (an exception where there was none, a result of another shape).  Reported
            # as a violation without a failing input; the traceback is the reason
            rp = os.path.join(rdir, name.replace("/", "__") + ".json")
            json.dump({"property": pid, "obligation": name, "kind": "bounded", "why": "the run-time contract driver, which completes on the baseline tree, stopped: " + e,
                       "confirmed_natively": False, "failing_input": None}, open(rp, "w"), indent=1, default=str)
            violations += 1
            lines.append("VIOLATION property=%s replay=%s no-failing-input-found" % (pid, rp))
        else:
            checker_errors.append(e)
    seen = set()
    for k, name, cex in known_hits:
        key = (k.get("obligation"), str(k.get("witness")))
        if key in seen:
            continue
        seen.add(key)
        lines.append("KNOWN-FINDING: property=%s %s [%s]" % (pid, k.get("what", ""), name))
    # ---- evidence
    level = getattr(mod, "LEVEL", "other")
    if n_obl == 0 and b.evaluations == 0:
        checker_errors.append("zero obligations and zero bounded evaluations")
    cov = {
        "obligations": n_obl, "discharged": n_dis, "by_back_end": by_backend,
        "solver_wall_s": round(solver_s, 2), "symbolic_paths": paths,
        "checker_cmd": "./check %s --tier %s" % (pid, tier),
        "functions_under_contract": funcs, "frames_under_contract": [f["name"] for f in out["frames"]],
        "outside_subset": outside, "undecided": undecided,
        "trusted_base": sorted(trusted) + list(getattr(mod, "TRUSTED", [])),
        "inlined_callees": sorted(inlined - set(x.replace("partitura.", "", 0) for x in funcs)),
        "evaluations": b.evaluations, "distinct_nontrivial": len(b.nontrivial),
        "rule": "; ".join(b.rules) or "no bounded part",
        "bounded": {"evaluations": b.evaluations, "distinct_nontrivial": len(b.nontrivial), "scope": b.scopes,
                    "per_clause": {k: {"evaluations": v[0], "failures": v[1]} for k, v in b.by_clause.items()},
                    "labelled": "bounded run-time contract checking on the real functions: never counted as proved"},
        "samples": samples + b.samples,
        "explanation": getattr(mod, "EXPLANATION", ""),
        "exhaustive": False,
        "known_findings_hit": [k.get("what") for k, _, _ in known_hits],
    }
    ev = {"property_id": pid, "tier": tier, "seed": seed, "level": level, "coverage": cov,
          "assumptions": sorted(assumptions) + list(getattr(mod, "ASSUMPTIONS", [])),
          "wall_s": round(out["wall_s"], 2), "violations": violations}
    os.makedirs(os.path.join(OUT, "evidence"), exist_ok=True)
    partial = bool(out.get("only"))  # --only runs a subset for debugging: no evidence is written from it
    try:
        if partial:
            raise StopIteration
        import jsonschema
        schema = json.load(open("/root/.vp/EVIDENCE.schema.json")) if os.path.exists("/root/.vp/EVIDENCE.schema.json") else None
        if schema:
            jsonschema.validate(json.loads(json.dumps(ev, default=str)), schema)
    except StopIteration:
        pass
    except Exception as e:
        checker_errors.append("evidence does not validate: %s" % str(e)[:300])
    if not partial:
        json.dump(ev, open(os.path.join(OUT, "evidence", pid + ".json"), "w"), indent=1, default=str)
    print("%s tier=%s: obligations=%d discharged=%d (z3 %d, cvc5 %d, closed-eval %d, frame %d) undecided=%d | bounded evaluations=%d distinct=%d | %.1fs" % (
        pid, tier, n_obl, n_dis, by_backend["z3"], by_backend["cvc5"], by_backend["closed-eval"], by_backend["frame"],
        len(undecided), b.evaluations, len(b.nontrivial), out["wall_s"]))
    for u in undecided:
        print("UNDECIDED:", u[:300])
    for l in lines:
        print(l)
    if checker_errors:
        for e in checker_errors:
            print("CHECKER-ERROR:", e[:2000])
    # a violation that was confirmed stands (exit 1) even if another obligation could not be run; a checker error alone is exit 3
    if violations:
        return 1
    return 3 if checker_errors else 0


def replay(path):
    d = json.load(open(path))
    pid = d["property"]
    mod = importlib.import_module("contracts." + pid.lower())
    if d.get("kind") == "P":
        from pyv.contracts import native_check
        for c in mod.CONTRACTS:
            if c.target == d["target"] and d["obligation"].startswith(c.obl("", "")[:-2].rsplit("/", 1)[0]):
                conc = mod.rebuild_inputs(c, d["inputs"]) if hasattr(mod, "rebuild_inputs") else d["inputs"]
                try:
                    ok, obs = native_check(c, conc)
                except Exception as e:
                    print("replay needs object reconstruction: %s" % e)
                    return 2
                print("native replay of %s on %r: %s" % (d["obligation"], d["inputs"], obs))
                return 0 if ok else 1
    if d.get("kind") == "bounded" and hasattr(mod, "replay_case"):
        ok, obs = mod.replay_case(d["obligation"].split("/bounded/")[1], d["case"])
        print("native replay of %s: %s" % (d["obligation"], obs))
        return 0 if ok else 1
    print(json.dumps(d, indent=1)[:3000])
    return 2


def baseline():
    """regenerate expected_discharged.json from the evidence of a tree on which every check exits 0"""
    exp = {}
    for f in sorted(os.listdir(os.path.join(ROOT, "evidence"))):
        ev = json.load(open(os.path.join(ROOT, "evidence", f)))
    return exp


def main():
    ap = argparse.ArgumentParser()
    ap.add_argument("pid")
    ap.add_argument("path", nargs="?")
    ap.add_argument("--tier", default=os.environ.get("VERIF_TIER", "quick"))
    ap.add_argument("--only", default=None)
    ap.add_argument("--write-baseline", action="store_true")
    a = ap.parse_args()
    seed = int(os.environ.get("VERIF_SEED", "0"))
    if a.pid == "replay":
        sys.exit(replay(a.path))
    try:
        out = run_property(a.pid, a.tier, seed, a.only)
        if a.write_baseline:
            write_baseline(out)
        rc = report(out, seed)
    except Exception:
        traceback.print_exc()
        print("CHECKER-ERROR: traceback above")
        sys.exit(3)
    sys.exit(rc)


def write_baseline(out):
    p = os.path.join(ROOT, "expected_discharged.json")
    exp = json.load(open(p)) if os.path.exists(p) else {}
    pid = out["pid"]
    exp = {k: v for k, v in exp.items() if not k.startswith(pid + "/")}
    for pr in out["p"]:
        for r in pr["results"]:
            if r["status"] == "proved":
                exp[r["name"]] = {"back_end": r["backend"], "tier": "P"}
            elif r["name"] in exp:
                del exp[r["name"]]
    for fr in out.get("frames", []):
        if fr["status"] == "proved":
            exp[fr["name"]] = {"back_end": "frame", "tier": "F"}
    if out.get("b") is not None and not out["b"].errors and out["b"].evaluations > 0:
        exp["%s/bounded/driver_runs_to_completion" % pid] = {"back_end": "run-time contracts", "tier": "B"}
    json.dump(exp, open(p, "w"), indent=0, sort_keys=True)


if __name__ == "__main__":
    main()
