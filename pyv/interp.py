"""AST interpreter over real runtime objects with symbolic scalars.

The function under verification is *interpreted from its ast* (parsed from /repo on this run).  Values
are real Python objects; unbounded scalars are Sym values (sym.py).  Objects of /repo classes are real
instances (created with ``cls.__new__``) whose attributes may hold Sym values; their methods are always
interpreted, never run natively.  Calls whose arguments are fully concrete are executed by CPython itself
(the real code, exact semantics).  Anything outside the subset raises EngineLimit -> *undecided*.
"""
import ast
import builtins
import inspect
import math
import operator
import types
import warnings

import z3

from . import loader, sym
from .engine import PyRaise, PathEnd, PathInfeasible
from .sym import (EngineLimit, Sym, SymBool, SymInt, SymReal, has_sym, mkbool, sand, snot, sor, zb, zint)


class _Return(Exception):
    def __init__(self, value):
        self.value = value


class _Break(Exception):
    pass


class _Continue(Exception):
    pass


class Opaque:
    """a string (or other display value) whose content depends on symbolic data; only usable as a message"""

    def __repr__(self):
        return "<opaque>"

    def __str__(self):
        return "<opaque>"

    def __add__(self, o):
        return self

    def __radd__(self, o):
        return self

    def __mod__(self, o):
        return self

    def format(self, *a, **k):
        return self


OPAQUE = Opaque()


class SymText(Opaque):
    """the decimal text of a symbolic integer ("{:d}".format(x) / "{}".format(x) / str(x)): content known exactly"""

    def __init__(self, value):
        self.value = value


# text assigned to lxml elements when it depends on symbolic data: id(element) -> (element, value); reset per path
ELEM_TEXT = {}


def text_of(el):
    """text of an lxml element as the interpreted code left it (SymText/Opaque if symbolic)"""
    hit = ELEM_TEXT.get(id(el))
    return hit[1] if hit is not None else el.text


class Closure:
    def __init__(self, node, frame, name=None, defaults=None, kw_defaults=None):
        self.node = node
        self.frame = frame
        self.name = name or getattr(node, "name", "<lambda>")
        self.defaults = defaults or []
        self.kw_defaults = kw_defaults or {}
        self.__name__ = self.name

    def __repr__(self):
        return "<closure %s>" % self.name


class BoundMethod:
    def __init__(self, obj, func, defclass=None):
        self.obj = obj
        self.func = func
        self.defclass = defclass


class SuperProxy:
    def __init__(self, cls, obj):
        self.cls = cls
        self.obj = obj


class Frame:
    def __init__(self, fnode, globs, parent=None, defclass=None, fname="?"):
        self.fnode = fnode
        self.locals = {}
        self.local_names = loader.local_names(fnode) if fnode is not None else set()
        self.globals = globs
        self.parent = parent
        self.defclass = defclass
        self.fname = fname
        self.yields = None
        self.global_decl = set()
        self.loop_ordinal = 0


_UNSET = object()

STRUCTURAL_METHODS = {
    list: {"append", "insert", "extend", "pop", "copy", "clear", "reverse", "__getitem__", "__setitem__", "__len__",
           "__iter__", "__contains__"},
    dict: {"get", "setdefault", "items", "values", "keys", "pop", "copy", "update", "clear", "__getitem__",
           "__setitem__", "__len__", "__iter__", "__contains__", "add", "remove"},
    tuple: {"__getitem__", "__len__", "__iter__"},
    set: {"add", "discard", "remove", "__len__", "__iter__", "__contains__", "copy"},
}

CMP = {ast.Eq: operator.eq, ast.NotEq: operator.ne, ast.Lt: operator.lt, ast.LtE: operator.le,
       ast.Gt: operator.gt, ast.GtE: operator.ge}
BIN = {ast.Add: operator.add, ast.Sub: operator.sub, ast.Mult: operator.mul, ast.Div: operator.truediv,
       ast.FloorDiv: operator.floordiv, ast.Mod: operator.mod, ast.Pow: operator.pow,
       ast.BitAnd: operator.and_, ast.BitOr: operator.or_, ast.BitXor: operator.xor,
       ast.LShift: operator.lshift, ast.RShift: operator.rshift, ast.MatMult: operator.matmul}


class Interp:
    def __init__(self, engine, registry=None, max_loop=400, float_mode="real", trace=None):
        self.eng = engine
        self.registry = registry or {}  # real function object (unwrapped) -> Contract (modular use)
        self.symobjs = {}  # id -> instance with symbolic content (kept alive)
        self.max_loop = max_loop
        self.float_mode = float_mode
        self.models = {}
        self.used_trusted = set()
        self.inlined = set()
        self.native_calls = set()
        self.assumptions = set()
        self.depth = 0
        self.target_func = None
        self.loop_invariants = {}  # (func unwrapped, ordinal) -> LoopSpec
        self.on_obligation = None  # callback(name, goal_value, info)
        self.heap = None
        from . import models
        models.install(self)

    # ------------------------------------------------------------------ objects
    def new_symobj(self, cls, **attrs):
        o = cls.__new__(cls)
        self.symobjs[id(o)] = o
        for k, v in attrs.items():
            object.__setattr__(o, k, v) if not isinstance(inspect.getattr_static(cls, k, None), property) else o.__dict__.__setitem__(k, v)
        return o

    def is_symobj(self, v):
        return id(v) in self.symobjs

    def concrete(self, v, depth=0):
        """True iff v contains no symbolic scalar, no tracked instance and no closure (safe for native code)"""
        if isinstance(v, (Sym, Closure, BoundMethod, Opaque, SuperProxy)):
            return False
        if id(v) in self.symobjs or getattr(type(v), "__pyv_symbolic__", False):
            return False
        if v is None or isinstance(v, (int, float, str, bytes, bool, complex, type, types.ModuleType,
                                       types.FunctionType, types.BuiltinFunctionType)):
            return True
        if depth > 5:
            return True
        if isinstance(v, (list, tuple, set, frozenset)):
            return all(self.concrete(x, depth + 1) for x in v)
        if isinstance(v, dict):
            return all(self.concrete(x, depth + 1) for x in v.values()) and all(
                self.concrete(x, depth + 1) for x in v.keys())
        d = getattr(v, "__dict__", None)
        if isinstance(d, dict) and d and depth < 3 and type(v).__module__.startswith("partitura"):
            return all(self.concrete(x, depth + 1) for x in d.values())
        return True

    # ------------------------------------------------------------------ truth
    def truth(self, v):
        if isinstance(v, SymBool):
            return self.eng.decide(v.z, "if")
        if isinstance(v, (SymInt, SymReal)):
            return self.eng.decide(v.z != 0, "nz")
        if isinstance(v, Opaque):
            return True
        if self.is_symobj(v):
            cls = type(v)
            for nm in ("__bool__", "__len__"):
                m = inspect.getattr_static(cls, nm, None)
                if m is not None and isinstance(m, types.FunctionType):
                    r = self.call(BoundMethod(v, m), [], {})
                    return self.truth(r if nm == "__bool__" else (r != 0))
            return True
        if isinstance(v, (Closure, BoundMethod)):
            return True
        try:
            return bool(v)
        except PyRaise:
            raise
        except EngineLimit:
            raise
        except Exception as e:  # e.g. ambiguous truth value of an array
            raise PyRaise(type(e), str(e), e)

    # ------------------------------------------------------------------ calling
    def call(self, f, args, kwargs):
        self.depth += 1
        if self.depth > 60:
            self.depth -= 1
            raise EngineLimit("interpreter recursion depth")
        try:
            return self._call(f, args, kwargs)
        finally:
            self.depth -= 1

    def _call(self, f, args, kwargs):
        if isinstance(f, Closure):
            return self.call_closure(f, args, kwargs)
        if isinstance(f, BoundMethod):
            func = f.func
            if isinstance(func, Closure):
                return self.call_closure(func, [f.obj] + list(args), kwargs)
            uf = loader.unwrap(func)
            c = self.registry.get(uf)
            if c is not None and uf is not self.target_func:
                return self.apply_contract(c, uf, [f.obj] + list(args), kwargs)
            return self.call_repo_function(func, [f.obj] + list(args), kwargs, defclass=f.defclass)
        if isinstance(f, SuperProxy):
            raise EngineLimit("call of super object")
        if hasattr(type(f), "__pyv_call__"):
            return f.__pyv_call__(self, args, kwargs)
        if isinstance(f, (types.FunctionType, types.MethodType)) and (getattr(f, "__module__", "") or "").startswith(("pyv.", "contracts.")):
            return f(*args, **kwargs)  # a model object's own method (e.g. SymSeq list operations)
        # models first (builtins / numpy with symbolic arguments, isinstance, len, ...)
        key = self._model_key(f)
        allc = self.concrete(args) and self.concrete(kwargs)
        if key is not None and (not allc or getattr(self.models[key], "always", False)):
            self.used_trusted.add(getattr(self.models[key], "label", str(key)))
            return self.models[key](self, args, kwargs)
        if isinstance(f, types.MethodType) and self.is_symobj(f.__self__):
            return self.call_repo_function(f.__func__, [f.__self__] + list(args), kwargs)
        if isinstance(f, types.FunctionType) and loader.is_repo_function(f):
            uf = loader.unwrap(f)
            c = self.registry.get(uf)
            if c is not None and uf is not self.target_func:
                return self.apply_contract(c, uf, args, kwargs)
            if allc and uf is not self.target_func:
                self.native_calls.add(uf.__module__ + "." + uf.__qualname__)
                return self.native(f, args, kwargs)
            return self.call_repo_function(f, args, kwargs)
        if isinstance(f, type):
            return self.instantiate(f, args, kwargs)
        if allc:
            return self.native(f, args, kwargs)
        # structural container methods may store symbolic values
        if isinstance(f, types.BuiltinMethodType) or isinstance(f, types.MethodType) or isinstance(f, types.MethodWrapperType):
            recv = getattr(f, "__self__", None)
            for t, names in STRUCTURAL_METHODS.items():
                if isinstance(recv, t) and f.__name__ in names and not has_sym(self._hashed_args(f.__name__, args)):
                    return self.native(f, args, kwargs)
            if isinstance(recv, str) and f.__name__ == "format" and recv in ("{:d}", "{}") and len(args) == 1 and not kwargs and isinstance(args[0], SymInt):
                return SymText(args[0])
            if isinstance(recv, str) and f.__name__ in ("format", "join"):
                return OPAQUE
            if isinstance(f, types.MethodType) and loader.is_repo_function(f.__func__):
                return self.call_repo_function(f.__func__, [recv] + list(args), kwargs)
        raise EngineLimit("unmodelled call %s with symbolic argument(s)" % _name(f))

    @staticmethod
    def _hashed_args(mname, args):
        # arguments that CPython would hash / compare: must be concrete
        if mname in ("get", "setdefault", "pop", "__getitem__", "__setitem__", "__contains__", "add", "remove", "discard"):
            return args[:1]
        return ()

    def _model_key(self, f):
        try:
            if f in self.models:
                return f
        except TypeError:
            return None
        fn = getattr(f, "__func__", None)
        if fn is not None:
            try:
                if fn in self.models:
                    return fn
            except TypeError:
                pass
        # bound builtin methods like str.lower: key on (type, name)
        recv = getattr(f, "__self__", None)
        if recv is not None and not isinstance(recv, types.ModuleType):
            k = (type(recv).__name__, getattr(f, "__name__", None))
            if k in self.models:
                return k
        return None

    def native(self, f, args, kwargs):
        try:
            with warnings.catch_warnings():
                warnings.simplefilter("ignore")
                return f(*args, **kwargs)
        except (PyRaise, EngineLimit, PathEnd, PathInfeasible):
            raise
        except RecursionError:
            raise EngineLimit("recursion in native call")
        except Exception as e:
            raise PyRaise(type(e), str(e), e)

    def instantiate(self, cls, args, kwargs):
        if issubclass(cls, BaseException):
            a = [x if self.concrete(x) else "<sym>" for x in args]
            try:
                return cls(*a)
            except Exception as e:
                raise PyRaise(type(e), str(e), e)
        mod = getattr(cls, "__module__", "")
        is_repo = mod.startswith("partitura") and cls.__dict__.get("__module__", "").startswith("partitura")
        if is_repo and self.heap is not None and self.heap.static_fields(cls) is not None:
            r = self.heap.new(cls)
            init = inspect.getattr_static(cls, "__init__", None)
            if isinstance(init, types.FunctionType):
                self.call_repo_function(init, [r] + list(args), kwargs, defclass=_defining_class(cls, "__init__"))
            return r
        if is_repo and not getattr(cls, "__pyv_native__", False):
            if cls.__new__ is not object.__new__:
                if self.concrete(args) and self.concrete(kwargs):
                    return self.native(cls, args, kwargs)
                raise EngineLimit("class %s defines __new__" % cls.__name__)
            o = cls.__new__(cls)
            self.symobjs[id(o)] = o
            init = inspect.getattr_static(cls, "__init__", None)
            if isinstance(init, types.FunctionType):
                dc = _defining_class(cls, "__init__")
                self.call_repo_function(init, [o] + list(args), kwargs, defclass=dc)
            return o
        if self.concrete(args) and self.concrete(kwargs):
            return self.native(cls, args, kwargs)
        if cls in (list, tuple, dict, set):
            return self.native(cls, args, kwargs)
        key = self._model_key(cls)
        if key is not None:
            return self.models[key](self, args, kwargs)
        raise EngineLimit("constructor %s with symbolic argument(s)" % cls.__name__)

    def call_repo_function(self, f, args, kwargs, defclass=None):
        uf = loader.unwrap(f)
        if not loader.is_repo_function(uf):
            # a python-level function outside /repo (stdlib): run natively if possible
            if self.concrete(args) and self.concrete(kwargs):
                return self.native(f, args, kwargs)
            raise EngineLimit("python function outside /repo with symbolic args: %s" % _name(f))
        node = loader.function_ast(uf)
        self.inlined.add(uf.__module__ + "." + uf.__qualname__)
        frame = Frame(node, uf.__globals__, None, defclass, uf.__qualname__)
        frame.func = uf
        # closure variables of real nested functions
        if uf.__closure__:
            frame.cellvars = dict(zip(uf.__code__.co_freevars, [c.cell_contents for c in uf.__closure__]))
        defaults = list(uf.__defaults__ or ())
        kwdefaults = dict(uf.__kwdefaults__ or {})
        self.bind_args(frame, node.args, args, kwargs, defaults, kwdefaults, uf.__qualname__)
        return self.run_function(frame, node)

    def call_closure(self, c, args, kwargs):
        node = c.node
        frame = Frame(node, c.frame.globals, c.frame, c.frame.defclass, c.name)
        frame.func = c
        self.bind_args(frame, node.args, args, kwargs, c.defaults, c.kw_defaults, c.name)
        if isinstance(node, ast.Lambda):
            return self.eval(node.body, frame)
        return self.run_function(frame, node)

    def bind_args(self, frame, a, args, kwargs, defaults, kwdefaults, fname):
        pos = [x.arg for x in a.posonlyargs + a.args]
        args = list(args)
        kwargs = dict(kwargs)
        n = len(pos)
        if len(args) > n and not a.vararg:
            raise PyRaise(TypeError, "%s() takes %d positional arguments but %d were given" % (fname, n, len(args)))
        for i, nm in enumerate(pos):
            if i < len(args):
                if nm in kwargs:
                    raise PyRaise(TypeError, "%s() got multiple values for argument '%s'" % (fname, nm))
                frame.locals[nm] = args[i]
            elif nm in kwargs:
                frame.locals[nm] = kwargs.pop(nm)
            else:
                di = i - (n - len(defaults))
                if di >= 0:
                    frame.locals[nm] = defaults[di]
                else:
                    raise PyRaise(TypeError, "%s() missing required positional argument: '%s'" % (fname, nm))
        if a.vararg:
            frame.locals[a.vararg.arg] = tuple(args[n:])
        for x in a.kwonlyargs:
            if x.arg in kwargs:
                frame.locals[x.arg] = kwargs.pop(x.arg)
            elif x.arg in kwdefaults:
                frame.locals[x.arg] = kwdefaults[x.arg]
            else:
                raise PyRaise(TypeError, "%s() missing keyword-only argument '%s'" % (fname, x.arg))
        if a.kwarg:
            frame.locals[a.kwarg.arg] = kwargs
        elif kwargs:
            raise PyRaise(TypeError, "%s() got an unexpected keyword argument '%s'" % (fname, next(iter(kwargs))))

    def run_function(self, frame, node):
        if loader.is_generator(node):
            frame.yields = []
            try:
                self.exec_block(node.body, frame)
            except _Return:
                pass
            self.assumptions.add("generator %s is run eagerly (consumer does not mutate the structure while iterating)" % frame.fname)
            return iter(frame.yields)
        try:
            self.exec_block(node.body, frame)
        except _Return as r:
            return r.value
        return None

    def apply_contract(self, c, uf, args, kwargs):
        from . import contracts
        return contracts.apply_modular(self, c, uf, args, kwargs)

    # ------------------------------------------------------------------ statements
    def exec_block(self, stmts, frame):
        for st in stmts:
            self.exec(st, frame)

    def exec(self, st, frame):
        m = getattr(self, "x_" + type(st).__name__, None)
        if m is None:
            raise EngineLimit("statement %s (line %d)" % (type(st).__name__, st.lineno))
        return m(st, frame)

    def x_Expr(self, st, frame):
        v = st.value
        if isinstance(v, ast.Constant):
            return  # docstring
        self.eval(v, frame)

    def x_Pass(self, st, frame):
        pass

    def x_Global(self, st, frame):
        frame.global_decl.update(st.names)

    def x_Nonlocal(self, st, frame):
        frame.nonlocal_decl = getattr(frame, "nonlocal_decl", set()) | set(st.names)

    def x_Import(self, st, frame):
        import importlib
        for a in st.names:
            mod = importlib.import_module(a.name)
            if a.asname:
                self.store_name(a.asname, mod, frame)
            else:
                self.store_name(a.name.split(".")[0], importlib.import_module(a.name.split(".")[0]), frame)

    def x_ImportFrom(self, st, frame):
        import importlib
        modname = st.module or ""
        if st.level:
            pkg = frame.globals.get("__package__") or frame.globals.get("__name__", "").rpartition(".")[0]
            base = pkg.split(".")
            if st.level > 1:
                base = base[: -(st.level - 1)]
            modname = ".".join(base + ([st.module] if st.module else []))
        mod = importlib.import_module(modname)
        for a in st.names:
            if a.name == "*":
                raise EngineLimit("import * inside function")
            try:
                v = getattr(mod, a.name)
            except AttributeError:
                try:
                    v = importlib.import_module(modname + "." + a.name)
                except ImportError as e:
                    raise PyRaise(ImportError, str(e))
            self.store_name(a.asname or a.name, v, frame)

    def x_Return(self, st, frame):
        raise _Return(self.eval(st.value, frame) if st.value is not None else None)

    def x_Break(self, st, frame):
        raise _Break()

    def x_Continue(self, st, frame):
        raise _Continue()

    def x_Assert(self, st, frame):
        if not self.truth(self.eval(st.test, frame)):
            raise PyRaise(AssertionError, "assert")

    def x_Raise(self, st, frame):
        if st.exc is None:
            cur = getattr(frame, "handling", None)
            if cur is None:
                raise PyRaise(RuntimeError, "No active exception to reraise")
            raise cur
        e = self.eval(st.exc, frame)
        if isinstance(e, type) and issubclass(e, BaseException):
            raise PyRaise(e, "")
        if isinstance(e, BaseException):
            raise PyRaise(type(e), str(e), e)
        raise PyRaise(TypeError, "exceptions must derive from BaseException")

    def x_Delete(self, st, frame):
        for t in st.targets:
            if isinstance(t, ast.Name):
                if t.id in frame.locals:
                    del frame.locals[t.id]
                else:
                    raise PyRaise(UnboundLocalError, t.id)
            elif isinstance(t, ast.Subscript):
                obj = self.eval(t.value, frame)
                k = self.eval_slice(t.slice, frame)
                if has_sym(k):
                    raise EngineLimit("del with symbolic key")
                self.native(operator.delitem, [obj, k], {})
            elif isinstance(t, ast.Attribute):
                obj = self.eval(t.value, frame)
                self.native(delattr, [obj, t.attr], {})
            else:
                raise EngineLimit("del target")

    def x_Assign(self, st, frame):
        v = self.eval(st.value, frame)
        for t in st.targets:
            self.assign(t, v, frame)

    def x_AnnAssign(self, st, frame):
        if st.value is not None:
            self.assign(st.target, self.eval(st.value, frame), frame)

    def x_AugAssign(self, st, frame):
        t = st.target
        if isinstance(t, ast.Name):
            cur = self.load_name(t.id, frame)
            self.store_name(t.id, self.binop(type(st.op), cur, self.eval(st.value, frame), inplace=True), frame)
        elif isinstance(t, ast.Attribute):
            obj = self.eval(t.value, frame)
            cur = self.getattr(obj, t.attr)
            self.setattr(obj, t.attr, self.binop(type(st.op), cur, self.eval(st.value, frame), inplace=True))
        elif isinstance(t, ast.Subscript):
            obj = self.eval(t.value, frame)
            k = self.eval_slice(t.slice, frame)
            cur = self.subscript(obj, k)
            self.store_subscript(obj, k, self.binop(type(st.op), cur, self.eval(st.value, frame), inplace=True))
        else:
            raise EngineLimit("augassign target")

    def assign(self, t, v, frame):
        if isinstance(t, ast.Name):
            self.store_name(t.id, v, frame)
        elif isinstance(t, (ast.Tuple, ast.List)):
            vals = self.iterate(v)
            star = [i for i, e in enumerate(t.elts) if isinstance(e, ast.Starred)]
            if star:
                i = star[0]
                after = len(t.elts) - i - 1
                if len(vals) < len(t.elts) - 1:
                    raise PyRaise(ValueError, "not enough values to unpack")
                parts = vals[:i] + [list(vals[i:len(vals) - after])] + vals[len(vals) - after:]
                for e, x in zip(t.elts, parts):
                    self.assign(e.value if isinstance(e, ast.Starred) else e, x, frame)
                return
            if len(vals) != len(t.elts):
                raise PyRaise(ValueError, "%s values to unpack (expected %d, got %d)" % (
                    "too many" if len(vals) > len(t.elts) else "not enough", len(t.elts), len(vals)))
            for e, x in zip(t.elts, vals):
                self.assign(e, x, frame)
        elif isinstance(t, ast.Attribute):
            self.setattr(self.eval(t.value, frame), t.attr, v)
        elif isinstance(t, ast.Subscript):
            self.store_subscript(self.eval(t.value, frame), self.eval_slice(t.slice, frame), v)
        else:
            raise EngineLimit("assignment target %s" % type(t).__name__)

    def x_If(self, st, frame):
        if self.truth(self.eval(st.test, frame)):
            self.exec_block(st.body, frame)
        else:
            self.exec_block(st.orelse, frame)

    def x_While(self, st, frame):
        ordinal = frame.loop_ordinal
        frame.loop_ordinal += 1
        spec = self.loop_invariants.get((getattr(frame, "func", None), ordinal))
        if spec is not None:
            from . import loops
            return loops.while_cut(self, st, frame, spec)
        n = 0
        broke = False
        while self.truth(self.eval(st.test, frame)):
            n += 1
            if n > self.max_loop:
                raise EngineLimit("while loop without invariant exceeded %d iterations (line %d)" % (self.max_loop, st.lineno))
            try:
                self.exec_block(st.body, frame)
            except _Break:
                broke = True
                break
            except _Continue:
                continue
        if not broke:
            self.exec_block(st.orelse, frame)

    def x_For(self, st, frame):
        ordinal = frame.loop_ordinal
        frame.loop_ordinal += 1
        spec = self.loop_invariants.get((getattr(frame, "func", None), ordinal))
        it = self.eval(st.iter, frame)
        if spec is not None:
            from . import loops
            return loops.for_cut(self, st, frame, spec, it)
        vals = self.iterate(it, lazy=True)
        broke = False
        n = 0
        for v in vals:
            n += 1
            if n > 20000:
                raise EngineLimit("for loop too long")
            self.assign(st.target, v, frame)
            try:
                self.exec_block(st.body, frame)
            except _Break:
                broke = True
                break
            except _Continue:
                continue
        if not broke:
            self.exec_block(st.orelse, frame)

    def iterate(self, v, lazy=False):
        from .seq import SymSeq
        if isinstance(v, SymSeq):
            raise EngineLimit("iteration over a symbolic-length sequence without a loop invariant")
        if isinstance(v, Sym):
            raise PyRaise(TypeError, "object is not iterable")
        if self.is_symobj(v):
            it = inspect.getattr_static(type(v), "__iter__", None)
            if isinstance(it, types.FunctionType):
                r = self.call(BoundMethod(v, it), [], {})
                if r is v:
                    # iterator protocol implemented on the object itself
                    out = []
                    nx = inspect.getattr_static(type(v), "__next__", None)
                    while True:
                        try:
                            out.append(self.call(BoundMethod(v, nx), [], {}))
                        except PyRaise as e:
                            if issubclass(e.exc_type, StopIteration):
                                break
                            raise
                        if len(out) > 10000:
                            raise EngineLimit("iterator too long")
                    return out
                return self.iterate(r, lazy)
            raise PyRaise(TypeError, "object is not iterable")
        try:
            it = iter(v)
        except TypeError as e:
            raise PyRaise(TypeError, str(e))
        if lazy:
            return self._lazy(it)
        try:
            return list(it)
        except (PyRaise, EngineLimit, PathEnd, PathInfeasible):
            raise
        except Exception as e:
            raise PyRaise(type(e), str(e), e)

    def _lazy(self, it):
        while True:
            try:
                v = next(it)
            except StopIteration:
                return
            except (PyRaise, EngineLimit, PathEnd, PathInfeasible):
                raise
            except Exception as e:
                raise PyRaise(type(e), str(e), e)
            yield v

    def x_Try(self, st, frame):
        try:
            try:
                self.exec_block(st.body, frame)
            except PyRaise as e:
                for h in st.handlers:
                    if h.type is None:
                        match = True
                    else:
                        ht = self.eval(h.type, frame)
                        try:
                            match = issubclass(e.exc_type, ht)
                        except TypeError:
                            raise PyRaise(TypeError, "catching classes that do not inherit from BaseException is not allowed")
                    if match:
                        if h.name:
                            inst = e.inst
                            if inst is None:
                                try:
                                    inst = e.exc_type(e.msg)
                                except Exception:
                                    inst = Exception(e.msg)
                            self.store_name(h.name, inst, frame)
                        prev = getattr(frame, "handling", None)
                        frame.handling = e
                        try:
                            self.exec_block(h.body, frame)
                        finally:
                            frame.handling = prev
                        break
                else:
                    raise
            else:
                self.exec_block(st.orelse, frame)
        finally:
            if st.finalbody:
                self.exec_block(st.finalbody, frame)

    def x_With(self, st, frame):
        # only context managers whose protocol can run natively on concrete values (warnings.catch_warnings, TemporaryDirectory)
        mgrs = []
        for item in st.items:
            m = self.eval(item.context_expr, frame)
            if not self.concrete(m):
                raise EngineLimit("with-statement on symbolic object")
            v = self.native(type(m).__enter__, [m], {})
            mgrs.append(m)
            if item.optional_vars is not None:
                self.assign(item.optional_vars, v, frame)
        try:
            self.exec_block(st.body, frame)
        finally:
            for m in reversed(mgrs):
                type(m).__exit__(m, None, None, None)

    def x_FunctionDef(self, st, frame):
        defaults = [self.eval(d, frame) for d in st.args.defaults]
        kwd = {a.arg: self.eval(d, frame) for a, d in zip(st.args.kwonlyargs, st.args.kw_defaults) if d is not None}
        c = Closure(st, frame, st.name, defaults, kwd)
        for d in st.decorator_list:
            raise EngineLimit("decorated nested function")
        self.store_name(st.name, c, frame)

    def x_ClassDef(self, st, frame):
        raise EngineLimit("nested class definition")

    # ------------------------------------------------------------------ names
    def load_name(self, name, frame):
        f = frame
        if name in f.locals:
            return f.locals[name]
        if name in f.local_names and name not in f.global_decl and name not in getattr(f, "nonlocal_decl", ()):
            raise PyRaise(UnboundLocalError, "cannot access local variable '%s' where it is not associated with a value" % name)
        cv = getattr(f, "cellvars", None)
        if cv and name in cv:
            return cv[name]
        p = f.parent
        while p is not None:
            if name in p.locals:
                return p.locals[name]
            cv = getattr(p, "cellvars", None)
            if cv and name in cv:
                return cv[name]
            if name in p.local_names and name not in p.global_decl:
                raise PyRaise(NameError, "free variable '%s' referenced before assignment in enclosing scope" % name)
            p = p.parent
        if name in f.globals:
            return f.globals[name]
        if hasattr(builtins, name):
            return getattr(builtins, name)
        raise PyRaise(NameError, "name '%s' is not defined" % name)

    def store_name(self, name, v, frame):
        if name in frame.global_decl:
            raise EngineLimit("store to global %s" % name)
        if name in getattr(frame, "nonlocal_decl", ()):
            p = frame.parent
            while p is not None:
                if name in p.locals or name in p.local_names:
                    p.locals[name] = v
                    return
                p = p.parent
            raise EngineLimit("nonlocal %s not found" % name)
        frame.locals[name] = v

    # ------------------------------------------------------------------ attributes
    def getattr(self, obj, name):
        from .seq import SymSeq, Ref
        if isinstance(obj, Ref):
            return obj.heap.load(obj, name, self)
        if isinstance(obj, SymSeq):
            return obj.attr(name, self)
        if isinstance(obj, SuperProxy):
            mro = type(obj.obj).__mro__ if not isinstance(obj.obj, type) else obj.obj.__mro__
            i = mro.index(obj.cls)
            for k in mro[i + 1:]:
                if name in k.__dict__:
                    m = k.__dict__[name]
                    if isinstance(m, types.FunctionType):
                        return BoundMethod(obj.obj, m, k)
                    if isinstance(m, property):
                        return self.call(BoundMethod(obj.obj, m.fget, k), [], {})
                    if k is object and name == "__init__":
                        return lambda *a, **kw: None
                    return getattr(super(obj.cls, obj.obj), name)
            raise PyRaise(AttributeError, "'super' object has no attribute '%s'" % name)
        if isinstance(obj, Sym):
            if isinstance(obj, (SymInt, SymReal)) and name == "item":
                return lambda: obj
            if isinstance(obj, SymReal) and name == "is_integer":
                return lambda: mkbool(z3.IsInt(obj.z))
            raise EngineLimit("attribute %s of symbolic scalar" % name)
        if isinstance(obj, Opaque):
            if name in ("format", "join", "strip", "lower", "upper"):
                return lambda *a, **k: OPAQUE
            raise EngineLimit("attribute %s of opaque string" % name)
        if isinstance(obj, Closure):
            if name == "__name__":
                return obj.name
            raise EngineLimit("attribute of closure")
        if self.is_symobj(obj):
            cls = type(obj)
            cattr = inspect.getattr_static(cls, name, _UNSET)
            if isinstance(cattr, property):
                if cattr.fget is None:
                    raise PyRaise(AttributeError, "unreadable attribute")
                return self.call(BoundMethod(obj, cattr.fget, _defining_class(cls, name)), [], {})
            d = obj.__dict__ if hasattr(obj, "__dict__") else {}
            if name in d:
                return d[name]
            if name == "__class__":
                return cls
            if name == "__dict__":
                return d
            if cattr is _UNSET:
                ga = inspect.getattr_static(cls, "__getattr__", None)
                if ga is not None:
                    raise EngineLimit("__getattr__ hook")
                raise PyRaise(AttributeError, "'%s' object has no attribute '%s'" % (cls.__name__, name))
            if isinstance(cattr, types.FunctionType):
                return BoundMethod(obj, cattr, _defining_class(cls, name))
            if isinstance(cattr, staticmethod):
                return cattr.__func__
            if isinstance(cattr, classmethod):
                return BoundMethod(cls, cattr.__func__, _defining_class(cls, name))
            if hasattr(cattr, "__get__") and not isinstance(cattr, (int, str, float, tuple, list, dict, type(None))):
                # slots / other descriptors: let CPython do it
                try:
                    return getattr(obj, name)
                except AttributeError as e:
                    raise PyRaise(AttributeError, str(e))
            return cattr
        try:
            return getattr(obj, name)
        except (PyRaise, EngineLimit, PathEnd, PathInfeasible):
            raise
        except AttributeError as e:
            raise PyRaise(AttributeError, str(e), e)
        except Exception as e:
            raise PyRaise(type(e), str(e), e)

    def setattr(self, obj, name, v):
        from .seq import Ref
        if isinstance(obj, Ref):
            return obj.heap.store(obj, name, v, self)
        if isinstance(obj, (Sym, Opaque, Closure)):
            raise PyRaise(AttributeError, "cannot set attribute")
        if isinstance(v, Opaque) and type(obj).__module__.startswith("lxml.") and name in ("text", "tail"):
            ELEM_TEXT[id(obj)] = (obj, v)  # lxml is opaque to the engine: the text is remembered beside the element
            return
        if obj is None:
            raise PyRaise(AttributeError, "'NoneType' object has no attribute '%s'" % name)
        cls = type(obj)
        cattr = inspect.getattr_static(cls, name, _UNSET)
        if isinstance(cattr, property):
            if cattr.fset is None:
                raise PyRaise(AttributeError, "property '%s' has no setter" % name)
            self.symobjs.setdefault(id(obj), obj)
            self.call(BoundMethod(obj, cattr.fset, _defining_class(cls, name)), [v], {})
            return
        sa = inspect.getattr_static(cls, "__setattr__", None)
        if sa is not None and isinstance(sa, types.FunctionType):
            raise EngineLimit("__setattr__ hook on %s" % cls.__name__)
        if not self.concrete(v) and not self.is_symobj(obj):
            if isinstance(obj, (types.ModuleType, type)):
                raise EngineLimit("symbolic store into module/class attribute")
            self.symobjs[id(obj)] = obj
        try:
            object.__setattr__(obj, name, v)
        except Exception as e:
            raise PyRaise(type(e), str(e), e)

    # ------------------------------------------------------------------ subscripts
    def eval_slice(self, node, frame):
        if isinstance(node, ast.Slice):
            return slice(self.eval(node.lower, frame) if node.lower else None,
                         self.eval(node.upper, frame) if node.upper else None,
                         self.eval(node.step, frame) if node.step else None)
        if isinstance(node, ast.Tuple):
            return tuple(self.eval_slice(e, frame) for e in node.elts)
        return self.eval(node, frame)

    def subscript(self, obj, k):
        from .seq import SymSeq
        if isinstance(obj, SymSeq):
            return obj.getitem(k, self)
        if isinstance(obj, Sym):
            raise PyRaise(TypeError, "object is not subscriptable")
        if self.is_symobj(obj):
            gi = inspect.getattr_static(type(obj), "__getitem__", None)
            if isinstance(gi, types.FunctionType):
                return self.call(BoundMethod(obj, gi, _defining_class(type(obj), "__getitem__")), [k], {})
        if isinstance(k, slice):
            if has_sym((k.start, k.stop, k.step)):
                from . import seq
                return seq.slice_concrete(self, obj, k)
            return self.native(operator.getitem, [obj, k], {})
        if isinstance(k, (SymInt, SymBool)):
            import numpy as np
            kz = zint(k)
            if isinstance(obj, (list, tuple, str)) or (isinstance(obj, np.ndarray) and obj.ndim == 1):
                n = len(obj)
                conds = [kz == i for i in range(-n, n)] + [z3.Or(kz < -n, kz >= n)]
                j = self.eng.choose(conds, "index")
                if j == 2 * n:
                    raise PyRaise(IndexError, "index out of range")
                return self.native(operator.getitem, [obj, j - n], {})
            if isinstance(obj, dict):
                keys = [x for x in obj.keys() if isinstance(x, (int,)) and not isinstance(x, bool)]
                if len(keys) > 64:
                    raise EngineLimit("symbolic key into a table with %d integer keys" % len(keys))
                conds = [kz == x for x in keys] + [z3.And(*[kz != x for x in keys]) if keys else z3.BoolVal(True)]
                j = self.eng.choose(conds, "key")
                if j == len(keys):
                    if hasattr(type(obj), "__missing__"):
                        raise EngineLimit("defaultdict lookup with symbolic key")
                    raise PyRaise(KeyError, "<symbolic key>")
                return obj[keys[j]]
            raise EngineLimit("symbolic index into %s" % type(obj).__name__)
        if isinstance(k, SymReal):
            if isinstance(obj, dict):
                raise EngineLimit("real-valued symbolic key")
            raise PyRaise(TypeError, "indices must be integers")
        if has_sym(k):
            raise EngineLimit("symbolic compound key")
        return self.native(operator.getitem, [obj, k], {})

    def store_subscript(self, obj, k, v):
        from .seq import SymSeq
        if isinstance(obj, SymSeq):
            return obj.setitem(k, v, self)
        if has_sym(k):
            if isinstance(k, SymInt) and isinstance(obj, list):
                n = len(obj)
                conds = [k.z == i for i in range(-n, n)] + [z3.Or(k.z < -n, k.z >= n)]
                j = self.eng.choose(conds, "index")
                if j == 2 * n:
                    raise PyRaise(IndexError, "list assignment index out of range")
                obj[j - n] = v
                return
            raise EngineLimit("store with symbolic key")
        if self.is_symobj(obj):
            si = inspect.getattr_static(type(obj), "__setitem__", None)
            if isinstance(si, types.FunctionType):
                self.call(BoundMethod(obj, si, _defining_class(type(obj), "__setitem__")), [k, v], {})
                return
        import numpy as np
        if isinstance(obj, np.ndarray) and not self.concrete(v):
            raise EngineLimit("symbolic store into ndarray")
        self.native(operator.setitem, [obj, k, v], {})

    # ------------------------------------------------------------------ operators
    def binop(self, op, a, b, inplace=False):
        from .seq import SymSeq
        if isinstance(a, Opaque) or isinstance(b, Opaque):
            return OPAQUE
        if isinstance(a, SymSeq) or isinstance(b, SymSeq):
            from . import seq
            return seq.binop(self, op, a, b)
        if self.is_symobj(a) or self.is_symobj(b):
            nm = {ast.Add: "add", ast.Sub: "sub", ast.Mult: "mul", ast.Lt: "lt"}.get(op)
            if nm:
                x, y = (a, b) if self.is_symobj(a) else (b, a)
                names = (["__i%s__" % nm] if inplace and x is a else []) + ["__%s__" % nm if x is a else "__r%s__" % nm]
                for mn in names:
                    m = inspect.getattr_static(type(x), mn, None)
                    if isinstance(m, types.FunctionType):
                        return self.call(BoundMethod(x, m), [y], {})
            raise EngineLimit("operator on tracked object")
        if isinstance(a, Sym) or isinstance(b, Sym):
            if op is ast.Mod and isinstance(a, str):
                return OPAQUE
            if op is ast.Mult and (isinstance(a, (str, list, tuple)) or isinstance(b, (str, list, tuple))):
                # "#" * alter  with symbolic count
                cnt = b if isinstance(b, Sym) else a
                s = a if cnt is b else b
                return self._repeat(s, cnt)
            import numpy as np
            if isinstance(a, np.ndarray) or isinstance(b, np.ndarray):
                raise EngineLimit("ndarray arithmetic with symbolic scalar")
            try:
                r = BIN[op](a, b)
            except TypeError as e:
                raise PyRaise(TypeError, str(e))
            if r is NotImplemented:
                raise PyRaise(TypeError, "unsupported operand types")
            return r
        if self.float_mode == "real":
            # real mode: concrete quotients are exact rationals too (0.6 is 3/5, not the nearest double), so that concrete and
            # symbolic arithmetic agree; this is part of the stated assumption "floats are treated as exact reals"
            from fractions import Fraction
            import numbers
            if (op is ast.Div or isinstance(a, Fraction) or isinstance(b, Fraction)) and op in (ast.Div, ast.Mult, ast.Add, ast.Sub) \
                    and isinstance(a, (int, float, Fraction)) and isinstance(b, (int, float, Fraction)) \
                    and not isinstance(a, bool) and not isinstance(b, bool):
                try:
                    fa, fb = Fraction(a), Fraction(b)
                    if op is ast.Div:
                        if fb == 0:
                            raise PyRaise(ZeroDivisionError, "division by zero")
                        return fa / fb
                    return BIN[op](fa, fb)
                except (ValueError, OverflowError):
                    pass
        return self.native(BIN[op], [a, b], {})

    def _repeat(self, s, cnt):
        # sequence repetition by a symbolic count: case split on small counts
        kz = zint(cnt)
        bound = 8
        conds = [kz <= 0] + [kz == i for i in range(1, bound + 1)] + [kz > bound]
        j = self.eng.choose(conds, "repeat")
        if j == bound + 1:
            raise EngineLimit("sequence repeated more than %d times" % bound)
        return s * j

    def compare(self, op, a, b):
        from .seq import Ref
        if op in (ast.Is, ast.IsNot):
            if isinstance(a, Ref) or isinstance(b, Ref):
                from . import seq
                r = seq.ref_is(a, b)
            elif isinstance(a, Sym) or isinstance(b, Sym):
                r = a is b
            else:
                r = a is b
            return r if op is ast.Is else snot(r) if isinstance(r, Sym) else (not r)
        if op in (ast.In, ast.NotIn):
            r = self.contains(b, a)
            if op is ast.In:
                return r
            return snot(r) if isinstance(r, Sym) else (not r)
        if isinstance(a, Opaque) or isinstance(b, Opaque):
            raise EngineLimit("comparison of opaque string")
        if isinstance(a, Ref) or isinstance(b, Ref):
            from . import seq
            return seq.ref_compare(self, op, a, b)
        if self.is_symobj(a) or self.is_symobj(b):
            nm = {ast.Eq: "__eq__", ast.NotEq: "__ne__", ast.Lt: "__lt__", ast.LtE: "__le__", ast.Gt: "__gt__",
                  ast.GtE: "__ge__"}[op]
            x, y = (a, b) if self.is_symobj(a) else (b, a)
            if x is b:
                nm = {"__lt__": "__gt__", "__gt__": "__lt__", "__le__": "__ge__", "__ge__": "__le__"}.get(nm, nm)
            m = inspect.getattr_static(type(x), nm, None)
            if isinstance(m, types.FunctionType):
                return self.call(BoundMethod(x, m, _defining_class(type(x), nm)), [y], {})
            if op is ast.Eq:
                return a is b
            if op is ast.NotEq:
                return a is not b
            raise PyRaise(TypeError, "unorderable")
        if isinstance(a, Sym) or isinstance(b, Sym):
            if isinstance(a, (tuple, list)) or isinstance(b, (tuple, list)):
                if op in (ast.Eq, ast.NotEq):
                    r = self._seq_eq(a, b)
                    return r if op is ast.Eq else (snot(r) if isinstance(r, Sym) else not r)
            r = CMP[op](a, b)
            if r is NotImplemented:
                if op is ast.Eq:
                    return False
                if op is ast.NotEq:
                    return True
                raise PyRaise(TypeError, "'%s' not supported between these types" % op.__name__)
            return r
        if has_sym(a) or has_sym(b):
            if op in (ast.Eq, ast.NotEq):
                r = self._seq_eq(a, b)
                return r if op is ast.Eq else (snot(r) if isinstance(r, Sym) else not r)
            raise EngineLimit("ordering of containers holding symbolic values")
        return self.native(CMP[op], [a, b], {})

    def _seq_eq(self, a, b):
        if isinstance(a, (tuple, list)) and isinstance(b, (tuple, list)) and type(a) is type(b):
            if len(a) != len(b):
                return False
            return sand(*[self.compare(ast.Eq, x, y) for x, y in zip(a, b)]) if a else True
        if isinstance(a, (tuple, list)) or isinstance(b, (tuple, list)):
            return False
        return self.compare(ast.Eq, a, b)

    def contains(self, container, x):
        from .seq import SymSeq
        if isinstance(container, SymSeq):
            return container.contains(x, self)
        if isinstance(container, Sym):
            raise PyRaise(TypeError, "argument is not iterable")
        if self.is_symobj(container):
            m = inspect.getattr_static(type(container), "__contains__", None)
            if isinstance(m, types.FunctionType):
                return self.call(BoundMethod(container, m), [x], {})
            raise EngineLimit("in on tracked object")
        if not has_sym(x) and not has_sym(container if not isinstance(container, dict) else list(container.keys())):
            if isinstance(x, Opaque):
                raise EngineLimit("membership of opaque string")
            return self.native(operator.contains, [container, x], {})
        if isinstance(container, (str, bytes)):
            raise EngineLimit("substring test with symbolic value")
        items = list(container.keys()) if isinstance(container, dict) else list(container)
        rs = [self._seq_eq(x, y) for y in items]
        if any(r is True for r in rs):
            return True
        rs = [r for r in rs if r is not False]
        if not rs:
            return False
        return sor(*rs)

    # ------------------------------------------------------------------ expressions
    def eval(self, node, frame):
        m = getattr(self, "e_" + type(node).__name__, None)
        if m is None:
            raise EngineLimit("expression %s (line %d)" % (type(node).__name__, getattr(node, "lineno", 0)))
        return m(node, frame)

    def e_Constant(self, node, frame):
        return node.value

    def e_Name(self, node, frame):
        return self.load_name(node.id, frame)

    def e_Tuple(self, node, frame):
        return tuple(self._elts(node.elts, frame))

    def e_List(self, node, frame):
        return list(self._elts(node.elts, frame))

    def e_Set(self, node, frame):
        xs = self._elts(node.elts, frame)
        if has_sym(xs):
            raise EngineLimit("set of symbolic values")
        return set(xs)

    def _elts(self, elts, frame):
        out = []
        for e in elts:
            if isinstance(e, ast.Starred):
                out.extend(self.iterate(self.eval(e.value, frame)))
            else:
                out.append(self.eval(e, frame))
        return out

    def e_Dict(self, node, frame):
        d = {}
        for k, v in zip(node.keys, node.values):
            if k is None:
                d.update(self.eval(v, frame))
            else:
                kk = self.eval(k, frame)
                if has_sym(kk):
                    raise EngineLimit("dict literal with symbolic key")
                d[kk] = self.eval(v, frame)
        return d

    def e_JoinedStr(self, node, frame):
        parts = []
        opaque = False
        for v in node.values:
            if isinstance(v, ast.Constant):
                parts.append(str(v.value))
            else:
                x = self.eval(v.value, frame)
                if not self.concrete(x) or isinstance(x, Opaque):
                    opaque = True
                else:
                    spec = ""
                    if v.format_spec is not None:
                        spec = self.e_JoinedStr(v.format_spec, frame)
                        if isinstance(spec, Opaque):
                            opaque = True
                            continue
                    if v.conversion == 114:
                        x = repr(x)
                    elif v.conversion == 115:
                        x = str(x)
                    parts.append(self.native(format, [x, spec], {}))
        return OPAQUE if opaque else "".join(parts)

    def e_FormattedValue(self, node, frame):
        return self.e_JoinedStr(ast.JoinedStr(values=[node]), frame)

    def e_Attribute(self, node, frame):
        return self.getattr(self.eval(node.value, frame), node.attr)

    def e_Subscript(self, node, frame):
        return self.subscript(self.eval(node.value, frame), self.eval_slice(node.slice, frame))

    def e_Slice(self, node, frame):
        return self.eval_slice(node, frame)

    def e_BinOp(self, node, frame):
        return self.binop(type(node.op), self.eval(node.left, frame), self.eval(node.right, frame))

    def e_UnaryOp(self, node, frame):
        v = self.eval(node.operand, frame)
        if isinstance(node.op, ast.Not):
            if isinstance(v, SymBool):
                return snot(v)
            return not self.truth(v)
        if isinstance(node.op, ast.USub):
            return -v if isinstance(v, Sym) else self.native(operator.neg, [v], {})
        if isinstance(node.op, ast.UAdd):
            return v
        if isinstance(node.op, ast.Invert):
            if isinstance(v, Sym):
                raise EngineLimit("~ on symbolic")
            return self.native(operator.invert, [v], {})

    def e_BoolOp(self, node, frame):
        if isinstance(node.op, ast.And):
            v = True
            for e in node.values:
                v = self.eval(e, frame)
                if not self.truth(v):
                    return v
            return v
        v = False
        for e in node.values:
            v = self.eval(e, frame)
            if self.truth(v):
                return v
        return v

    def e_Compare(self, node, frame):
        left = self.eval(node.left, frame)
        res = True
        for i, (op, rn) in enumerate(zip(node.ops, node.comparators)):
            right = self.eval(rn, frame)
            res = self.compare(type(op), left, right)
            if i < len(node.ops) - 1:
                if not self.truth(res):
                    return res
            left = right
        return res

    def e_IfExp(self, node, frame):
        if self.truth(self.eval(node.test, frame)):
            return self.eval(node.body, frame)
        return self.eval(node.orelse, frame)

    def e_Lambda(self, node, frame):
        defaults = [self.eval(d, frame) for d in node.args.defaults]
        return Closure(node, frame, "<lambda>", defaults)

    def e_NamedExpr(self, node, frame):
        v = self.eval(node.value, frame)
        self.store_name(node.target.id, v, frame)
        return v

    def e_Starred(self, node, frame):
        raise EngineLimit("starred expression")

    def e_Yield(self, node, frame):
        if frame.yields is None:
            raise EngineLimit("yield outside generator")
        frame.yields.append(self.eval(node.value, frame) if node.value else None)
        return None

    def e_YieldFrom(self, node, frame):
        if frame.yields is None:
            raise EngineLimit("yield outside generator")
        frame.yields.extend(self.iterate(self.eval(node.value, frame)))
        return None

    def e_Call(self, node, frame):
        # zero-argument super()
        if isinstance(node.func, ast.Name) and node.func.id == "super" and "super" not in frame.locals:
            if not node.args:
                f = frame
                while f is not None and f.defclass is None:
                    f = f.parent
                fr = frame
                while fr.parent is not None and not fr.fnode.args.args:
                    fr = fr.parent
                if f is None:
                    raise EngineLimit("super() outside method")
                selfname = fr.fnode.args.args[0].arg
                return SuperProxy(f.defclass, fr.locals[selfname])
            a = [self.eval(x, frame) for x in node.args]
            return SuperProxy(a[0], a[1])
        f = self.eval(node.func, frame)
        args = []
        for a in node.args:
            if isinstance(a, ast.Starred):
                args.extend(self.iterate(self.eval(a.value, frame)))
            else:
                args.append(self.eval(a, frame))
        kwargs = {}
        for k in node.keywords:
            if k.arg is None:
                kwargs.update(self.eval(k.value, frame))
            else:
                kwargs[k.arg] = self.eval(k.value, frame)
        return self.call(f, args, kwargs)

    def _comp(self, gens, frame, emit):
        # comprehension scope: a child frame sharing the function's closure chain
        cframe = Frame(None, frame.globals, frame, frame.defclass, frame.fname + ".<comp>")
        cframe.local_names = set()
        cframe.func = getattr(frame, "func", None)

        def rec(i):
            if i == len(gens):
                emit(cframe)
                return
            g = gens[i]
            it = self.eval(g.iter, cframe if i else frame)
            for v in self.iterate(it, lazy=True):
                self.assign(g.target, v, cframe)
                ok = True
                for c in g.ifs:
                    if not self.truth(self.eval(c, cframe)):
                        ok = False
                        break
                if ok:
                    rec(i + 1)
        rec(0)

    def e_ListComp(self, node, frame):
        out = []
        self._comp(node.generators, frame, lambda f: out.append(self.eval(node.elt, f)))
        return out

    def e_GeneratorExp(self, node, frame):
        out = []
        self._comp(node.generators, frame, lambda f: out.append(self.eval(node.elt, f)))
        return iter(out)

    def e_SetComp(self, node, frame):
        out = []
        self._comp(node.generators, frame, lambda f: out.append(self.eval(node.elt, f)))
        if has_sym(out):
            raise EngineLimit("set of symbolic values")
        return set(out)

    def e_DictComp(self, node, frame):
        out = {}

        def emit(f):
            k = self.eval(node.key, f)
            if has_sym(k):
                raise EngineLimit("dict comprehension with symbolic key")
            out[k] = self.eval(node.value, f)
        self._comp(node.generators, frame, emit)
        return out


def _name(f):
    return getattr(f, "__qualname__", None) or getattr(f, "__name__", None) or repr(f)


def _defining_class(cls, name):
    for k in cls.__mro__:
        if name in k.__dict__:
            return k
    return None
