"""Contract language (sidecar; nothing in /repo is edited) and the per-function verifier.

A contract is data + Python clauses.  Clauses are ordinary Python callables over a namespace ``a`` of the
arguments (and ``r`` = result, ``old`` = values captured before the call).  Each clause has two readings
produced from the one definition:
  * logical   - evaluated over Sym values by the verifier (operator overloading builds the z3 term;
                ``and``/``or``/``if`` split cases),
  * executable - evaluated over concrete values when a counterexample is replayed on the real function and
                by the bounded back end.
"""
import time
import traceback
import types

import z3

from . import loader, sym
from .engine import Engine, PyRaise, PathEnd, PathInfeasible
from .interp import Interp
from .sym import EngineLimit, Sym, SymBool, SymInt, SymReal, concretize, zb, mkbool


class NS:
    """argument namespace"""

    def __init__(_ns, **kw):
        _ns.__dict__.update(kw)

    def __repr__(self):
        return "NS(%s)" % ", ".join("%s=%r" % kv for kv in self.__dict__.items())


# ------------------------------------------------------------------------------------ parameter specs
class Spec:
    def sym(self, name, ip):
        raise NotImplementedError

    def describe(self):
        return type(self).__name__


class Int(Spec):
    def __init__(self, lo=None, hi=None):
        self.lo, self.hi = lo, hi

    def sym(self, name, ip):
        v = SymInt(z3.Int(name))
        if self.lo is not None:
            ip.eng.assume(v.z >= self.lo)
        if self.hi is not None:
            ip.eng.assume(v.z <= self.hi)
        return v

    def describe(self):
        return "int" + ("" if self.lo is None and self.hi is None else "[%s..%s]" % (self.lo, self.hi))


class Real(Spec):
    def __init__(self, lo=None, hi=None):
        self.lo, self.hi = lo, hi

    def sym(self, name, ip):
        v = SymReal(z3.Real(name))
        if self.lo is not None:
            ip.eng.assume(v.z >= self.lo)
        if self.hi is not None:
            ip.eng.assume(v.z <= self.hi)
        return v

    def describe(self):
        return "real(float treated as exact real)"


class Bool(Spec):
    def sym(self, name, ip):
        k = ip.eng.choose([None, None], name, labels=[True, False])
        return k == 0


class Enum(Spec):
    """finite domain: explored by case split, every value concretely"""

    def __init__(self, values):
        self.values = list(values)

    def sym(self, name, ip):
        k = ip.eng.choose([None] * len(self.values), name, labels=[repr(v)[:40] for v in self.values])
        return self.values[k]

    def describe(self):
        return "enum(%d values)" % len(self.values)


class Const(Spec):
    def __init__(self, v):
        self.v = v

    def sym(self, name, ip):
        return self.v


class Opt(Spec):
    def __init__(self, spec):
        self.spec = spec

    def sym(self, name, ip):
        k = ip.eng.choose([None, None], name + "?", labels=["None", "value"])
        if k == 0:
            return None
        return self.spec.sym(name, ip)

    def describe(self):
        return "optional " + self.spec.describe()


class Union(Spec):
    def __init__(self, *specs):
        self.specs = specs

    def sym(self, name, ip):
        k = ip.eng.choose([None] * len(self.specs), name + "|", labels=[s.describe() for s in self.specs])
        return self.specs[k].sym(name, ip)

    def describe(self):
        return " | ".join(s.describe() for s in self.specs)


class TupleOf(Spec):
    def __init__(self, *specs):
        self.specs = specs

    def sym(self, name, ip):
        return tuple(s.sym("%s.%d" % (name, i), ip) for i, s in enumerate(self.specs))


class ListOf(Spec):
    def __init__(self, spec, n):
        self.spec, self.n = spec, n

    def sym(self, name, ip):
        ns = self.n if isinstance(self.n, (list, tuple, range)) else [self.n]
        ns = list(ns)
        k = ip.eng.choose([None] * len(ns), name + ".len", labels=ns) if len(ns) > 1 else 0
        return [self.spec.sym("%s.%d" % (name, i), ip) for i in range(ns[k])]


class Obj(Spec):
    """instance of a real /repo class with the given attribute specs (created without running __init__)"""

    def __init__(self, cls, make=None, init=None, **attrs):
        self.cls = cls
        self.attrs = attrs
        self.make = make
        self.init = init  # tuple of attribute names passed positionally to the real __init__ (interpreted), else __init__ is skipped

    def sym(self, name, ip):
        cls = loader.resolve(self.cls) if isinstance(self.cls, str) else self.cls
        vals = {k: (s.sym("%s.%s" % (name, k), ip) if isinstance(s, Spec) else s) for k, s in self.attrs.items()}
        if self.init is not None:
            try:
                o = ip.instantiate(cls, [vals[k] for k in self.init], {})
            except PyRaise:
                raise PathInfeasible()  # the constructor rejects these arguments: not a valid object of the class
            for k, v in vals.items():
                if k not in self.init:
                    ip.setattr(o, k, v)
            ip.symobjs[id(o)] = o
        else:
            o = ip.new_symobj(cls, **vals)
        o.__dict__["__pyv_spec__"] = self
        return o

    def describe(self):
        return "object of %s" % (self.cls if isinstance(self.cls, str) else self.cls.__name__)


def concretize_value(v, model, ip):
    """symbolic argument -> concrete argument for native replay"""
    if isinstance(v, Sym):
        c = concretize(v, model)
        from fractions import Fraction
        if isinstance(c, Fraction):
            return float(c) if c.denominator != 1 else float(c.numerator)
        return c
    if isinstance(v, list):
        return [concretize_value(x, model, ip) for x in v]
    if isinstance(v, tuple):
        return tuple(concretize_value(x, model, ip) for x in v)
    if isinstance(v, dict):
        return {k: concretize_value(x, model, ip) for k, x in v.items()}
    if ip is not None and ip.is_symobj(v):
        spec = v.__dict__.get("__pyv_spec__")
        init = v.__dict__.get("__pyv_init__", {})
        attrs = {k: concretize_value(x, model, ip) for k, x in init.items()}
        cls = type(v)
        if spec is not None and spec.make is not None:
            return spec.make(**attrs)
        o = cls.__new__(cls)
        for k, x in attrs.items():
            o.__dict__[k] = x
        return o
    return v


# ------------------------------------------------------------------------------------ contract
class Contract:
    def __init__(self, pid, target, params, requires=(), ensures=(), raises=None, old=None, returns=None,
                 call=None, float_mode=None, modular=False, invariants=None, note="", max_paths=50000,
                 timeout_ms=None, setup=None, name=None, frame=None, split=None, model=None, rebuild=None):
        self.finite_scopes = (2, 3)
        self.model = model  # modular use: callable(ip, a) producing the result and assuming the postcondition
        self.rebuild = rebuild  # (model, a, ip) -> concrete argument dict for native replay (heap-based contracts)
        self.split = split
        self.pid = pid
        self.target = target  # dotted name, resolved in /repo on every run
        self.params = params  # list of (name, Spec)
        self.requires = list(requires)  # [(slug, fn(a))]
        self.ensures = list(ensures)  # [(slug, fn(a, r, old))]
        self.raises = raises if raises is not None else {}  # {ExcType: (slug, fn(a)) }  exact condition
        self.old = old or {}
        self.returns = returns
        self.call = call
        self.float_mode = float_mode
        self.modular = modular
        self.invariants = invariants or {}
        self.note = note
        self.max_paths = max_paths
        self.timeout_ms = timeout_ms
        self.setup = setup
        self.name = name
        self.frame = frame

    def fixed(self, fix):
        """copy of the contract with some parameters pinned to one value (used to spread a case split over processes)"""
        import copy
        c = copy.copy(self)
        newp = []
        for n, s in self.params:
            if n in fix:
                s = Const(fix[n])
            else:
                for k, v in fix.items():
                    if k.startswith(n + "."):
                        s = copy.copy(s)
                        s.attrs = dict(s.attrs)
                        s.attrs[k.split(".", 1)[1]] = Const(v)
            newp.append((n, s))
        c.params = newp
        return c

    def split_jobs(self):
        if not getattr(self, "split", None):
            return [None]
        n = self.split
        if "." in n:
            base, attr = n.split(".", 1)
            spec = dict(self.params)[base].attrs[attr]
        else:
            spec = dict(self.params)[n]
        return [{n: v} for v in spec.values]

    def short(self):
        if self.name:
            return self.name
        t = self.target
        for p in ("partitura.utils.music.", "partitura.score.", "partitura.utils.generic.", "partitura.performance.",
                  "partitura.io.", "partitura.musicanalysis.", "partitura."):
            if t.startswith(p):
                return t[len(p):] if p in ("partitura.utils.music.", "partitura.score.", "partitura.performance.", "partitura.utils.generic.") else t[len("partitura."):]
        return t

    def obl(self, kind, slug):
        return "%s/%s/%s/%s" % (self.pid, self.short(), kind, slug)


class OblResult:
    __slots__ = ("name", "status", "paths", "queries", "ms", "cex", "reason", "backend", "text")

    def __init__(self, name):
        self.name = name
        self.status = "proved"  # proved | refuted | spurious | unknown | undecided
        self.paths = 0
        self.queries = 0
        self.ms = 0.0
        self.cex = None
        self.reason = ""
        self.backend = "z3"
        self.text = ""

    def as_dict(self):
        return {k: getattr(self, k) for k in self.__slots__}


def _call_clause(fn, *args):
    n = fn.__code__.co_argcount
    return fn(*args[:n])


class FunctionVerifier:
    """verifies one contract: explores all paths of the real function body, discharging each obligation by SMT"""

    def __init__(self, contract, registry=None, timeout_ms=10000, seed=0, cvc5_fallback=True):
        self.c = contract
        self.registry = registry or {}
        self.timeout_ms = contract.timeout_ms or timeout_ms
        self.seed = seed
        self.results = {}
        self.order = []
        self.outside = None
        self.n_paths = 0
        self.n_complete = 0
        self.stats = {}
        self.cvc5_fallback = cvc5_fallback

    def _res(self, kind, slug, text=""):
        name = self.c.obl(kind, slug)
        if name not in self.results:
            self.results[name] = OblResult(name)
            self.results[name].text = text
            self.order.append(name)
        return self.results[name]

    def run(self):
        c = self.c
        t0 = time.time()
        try:
            fobj = loader.resolve(c.target)
        except Exception as e:
            self.outside = "contract cannot be applied: target %s does not resolve (%s)" % (c.target, e)
            return self
        if isinstance(fobj, property):
            fobj = fobj.fget
        if isinstance(fobj, (staticmethod, classmethod)):
            fobj = fobj.__func__
        self.fobj = fobj
        eng = Engine(timeout_ms=self.timeout_ms, max_paths=c.max_paths, seed=self.seed)
        self.eng = eng
        # pre-register obligations so that they exist even when no path reaches them
        for slug, fn in c.ensures:
            self._res("ensures", slug)
        for E, (slug, fn) in c.raises.items():
            self._res("raises", slug)
        self._res("raises", "no-other-exception")

        def one_path():
            from . import interp as _ip
            _ip.ELEM_TEXT.clear()
            ip = Interp(eng, registry=self.registry, float_mode=c.float_mode or "real")
            self.ip = ip
            ip.target_func = loader.unwrap(fobj)
            for k, spec in (c.invariants or {}).items():
                ip.loop_invariants[(loader.unwrap(fobj), k)] = spec
            args = {}
            for name, spec in c.params:
                args[name] = spec.sym(name, ip)
            # remember initial attribute values of tracked objects (for replay)
            for o in list(ip.symobjs.values()):
                o.__dict__["__pyv_init__"] = {k: v for k, v in o.__dict__.items() if not k.startswith("__pyv")}
            a = NS(**args)
            if c.setup:
                c.setup(a, ip)
            for slug, fn in c.requires:
                v = _call_clause(fn, a)
                if isinstance(v, Sym):
                    eng.assume(zb(v))
                elif not v:
                    raise PathInfeasible()
            r, _ = eng.check(feasibility=True)
            if r == "unsat":
                raise PathInfeasible()
            old = NS(**{k: fn(a) for k, fn in c.old.items()})
            self.n_paths += 1
            outcome = None
            def _mid(kind, slug, goal):
                self.obligation(ip, self._res(kind, slug), goal, a, old, None, kind + " does not hold")
                if isinstance(goal, Sym):
                    eng.assume(zb(goal))
            ip.on_obligation = _mid
            try:
                if c.call is not None:
                    ret = c.call(ip, fobj, a)
                else:
                    ret = ip.call(fobj, [getattr(a, n) for n, _ in c.params], {})
                outcome = ("ret", ret)
            except PyRaise as e:
                outcome = ("exc", e)
            self.n_complete += 1
            self.check_outcome(ip, a, old, outcome)

        try:
            eng.run_paths(one_path)
        except EngineLimit as e:
            self.outside = "outside subset: %s" % e
        except RecursionError:
            self.outside = "outside subset: recursion limit"
        except Exception as e:
            self.outside = "checker error: %s: %s\n%s" % (type(e).__name__, e, traceback.format_exc()[-1500:])
            self.error = True
        ip = getattr(self, "ip", None)
        self.stats = {"paths": self.n_paths, "complete_paths": self.n_complete, "solver_calls": eng.n_solver_calls,
                      "solver_s": round(eng.solver_s, 3), "wall_s": round(time.time() - t0, 3),
                      "trusted": sorted(ip.used_trusted) if ip else [], "inlined": sorted(ip.inlined) if ip else [],
                      "native_concrete_calls": sorted(ip.native_calls) if ip else [],
                      "assumptions": sorted(ip.assumptions) if ip else []}
        if self.outside:
            for r in self.results.values():
                if r.status == "proved":
                    r.status = "undecided"
                    r.reason = self.outside
        elif self.n_complete == 0:
            self.outside = "vacuous: no feasible path satisfies the precondition"
            self.error = True
            for r in self.results.values():
                r.status = "undecided"
                r.reason = self.outside
        return self

    # -------------------------------------------------------------------------------
    def check_outcome(self, ip, a, old, outcome):
        c = self.c
        kind, val = outcome
        if kind == "exc":
            e = val
            matched = False
            for E, (slug, fn) in c.raises.items():
                if issubclass(e.exc_type, E):
                    matched = True
                    cond = _call_clause(fn, a)
                    self.obligation(ip, self._res("raises", slug), cond, a, old, outcome,
                                    "raised %s although the contract's condition for it is false" % E.__name__)
            if not matched:
                self.obligation(ip, self._res("raises", "no-other-exception"), False, a, old, outcome,
                                "raised %s: %s" % (e.exc_type.__name__, e.msg))
            return
        for E, (slug, fn) in c.raises.items():
            cond = _call_clause(fn, a)
            neg = sym.snot(cond) if isinstance(cond, Sym) else (not cond)
            self.obligation(ip, self._res("raises", slug), neg, a, old, outcome,
                            "returned normally although the contract requires %s" % E.__name__)
            if isinstance(neg, Sym):
                self.eng.assume(zb(neg))  # a missing rejection is reported once, by the raises obligation
            elif not neg:
                return
        r = val
        for slug, fn in c.ensures:
            try:
                v = _call_clause(fn, a, r, old)
            except PyRaise as e:
                v = False
            self.obligation(ip, self._res("ensures", slug), v, a, old, outcome, "postcondition false")
            if isinstance(v, Sym):
                self.eng.assume(zb(v))  # assert-then-assume: later clauses may use earlier ones as lemmas (a failure is reported anyway)

    def obligation(self, ip, res, goal, a, old, outcome, why):
        eng = self.eng
        if res.status == "refuted":
            return  # already has a natively confirmed counterexample
        res.paths += 1
        t0 = time.time()
        if isinstance(goal, Sym):
            g = zb(goal)
        else:
            g = z3.BoolVal(bool(goal))
        st, model = eng.prove(g)
        res.queries += 1
        if st == "unknown" and self.cvc5_fallback:
            st2 = cvc5_check(eng, g, self.timeout_ms)
            if st2 == "unsat":
                st = "unsat"
                res.backend = "cvc5"
        res.ms += (time.time() - t0) * 1000
        if st == "unsat":
            return
        if st == "unknown":
            # finite-model stage: candidate counter-models in a small scope, validated by native replay
            if res.status not in ("refuted",) and getattr(self.c, "finite_scopes", (2, 3)):
                from . import finite
                for scope in self.c.finite_scopes:
                    t1 = time.time()
                    fs, fmodel = finite.find_candidate(list(eng.facts) + list(eng.pc) + [z3.Not(g)], scope=scope)
                    res.ms += (time.time() - t1) * 1000
                    if fs == "sat":
                        cex = self.replay(ip, a, fmodel, res, why, outcome)
                        cex["back_end"] = "z3 finite-model stage, scope %d" % scope
                        if cex["confirmed"]:
                            res.status = "refuted"
                            res.cex = cex
                            res.reason = why
                            return
            if res.status == "proved":
                res.status = "unknown"
                res.reason = "solver returned unknown within %d ms; no counter-model in the finite scopes" % self.timeout_ms
            return
        # refuted: build concrete input and replay on the real function
        if res.status in ("refuted",):
            return
        cex = self.replay(ip, a, model, res, why, outcome)
        if cex["confirmed"]:
            res.status = "refuted"
            res.cex = cex
            res.reason = why
        else:
            if res.status != "refuted":
                res.status = "spurious"
                res.cex = cex
                res.reason = "SMT counter-model does not reproduce natively (encoding imprecise): " + why

    def replay(self, ip, a, model, res, why, outcome):
        c = self.c
        conc = {}
        if c.rebuild is not None:
            conc = c.rebuild(model, a, ip)
        else:
            for name, _ in c.params:
                conc[name] = concretize_value(getattr(a, name), model, ip)
        info = {"inputs": {k: _show(v) for k, v in conc.items()}, "path": list(self.eng.choices_desc), "why": why,
                "symbolic_outcome": _show_outcome(outcome, model)}
        try:
            ok, observed = native_check(c, conc, res.name)
            info["native"] = observed
            info["confirmed"] = not ok
        except Exception as e:
            info["native"] = "replay error: %s: %s" % (type(e).__name__, e)
            info["confirmed"] = False
        return info


def _show(v, depth=0):
    if isinstance(v, (int, float, str, bool, type(None))):
        return v
    if depth > 3:
        return "..."
    if isinstance(v, (list, tuple)):
        return [_show(x, depth + 1) for x in v]
    if isinstance(v, dict):
        return {str(k): _show(x, depth + 1) for k, x in v.items()}
    tn = type(v).__name__
    if tn == "Part" and hasattr(v, "_points"):
        try:
            return {"<class>": "Part", "timeline_times": [int(p.t) for p in v._points], "point_quarters": [p.quarter for p in v._points],
                    "quarter_times": [int(x) for x in v._quarter_times], "quarter_durations": [int(x) for x in v._quarter_durations]}
        except Exception:
            return "<Part>"
    if tn == "TimePoint":
        return {"<class>": "TimePoint", "t": getattr(v, "t", None), "quarter": getattr(v, "quarter", None)}
    d = getattr(v, "__dict__", None)
    if d is not None:
        return {"<class>": tn, **{k: _show(x, depth + 1) for k, x in d.items() if not k.startswith("__pyv") and not k.startswith("_")
                                    and k not in ("start", "end", "prev", "next")}}
    return repr(v)[:80]


def _show_outcome(outcome, model):
    if outcome is None:
        return "(obligation inside the body)"
    kind, val = outcome
    if kind == "exc":
        return "raises %s: %s" % (val.exc_type.__name__, val.msg[:120])
    try:
        return "returns %r" % (_show(concretize_value(val, model, None)),)
    except Exception:
        return "returns <?>"


def native_check(c, conc, obl_name=None):
    """run the real function on concrete arguments and evaluate the contract natively.
    returns (holds, description).  Used for replay and by the bounded back end."""
    import copy
    import warnings
    fobj = loader.resolve(c.target)
    if isinstance(fobj, property):
        fobj = fobj.fget
    a = NS(**conc)
    for slug, fn in c.requires:
        if not _call_clause(fn, a):
            return True, "precondition %s false (input not applicable)" % slug
    old = NS(**{k: fn(a) for k, fn in c.old.items()})
    exc = None
    ret = None
    with warnings.catch_warnings():
        warnings.simplefilter("ignore")
        try:
            if c.call is not None:
                ret = c.call(None, fobj, a)
            else:
                ret = fobj(*[conc[n] for n, _ in c.params])
        except Exception as e:
            exc = e
    if exc is not None:
        for E, (slug, fn) in c.raises.items():
            if isinstance(exc, E):
                if not _call_clause(fn, a):
                    return False, "raised %s: %s (condition %s false)" % (type(exc).__name__, exc, slug)
                return True, "raised %s as specified" % type(exc).__name__
        return False, "raised %s: %s" % (type(exc).__name__, str(exc)[:200])
    for E, (slug, fn) in c.raises.items():
        if _call_clause(fn, a):
            return False, "returned %r but contract requires %s (%s)" % (_show(ret), E.__name__, slug)
    for slug, fn in c.ensures:
        try:
            ok = _call_clause(fn, a, ret, old)
        except Exception as e:
            return False, "postcondition %s not evaluable on result %r: %s" % (slug, _show(ret), e)
        if not ok:
            return False, "returned %r; postcondition %s false" % (_show(ret), slug)
    return True, "returned %r; contract holds" % (_show(ret),)


def cvc5_check(eng, goal, timeout_ms):
    """second opinion on z3's unknowns: same query through the cvc5 CLI"""
    import subprocess
    import tempfile
    import os
    s = z3.Solver()
    for f in eng.facts:
        s.add(f)
    for p in eng.pc:
        s.add(p)
    s.add(z3.Not(goal))
    smt = "(set-logic ALL)\n" + s.to_smt2()
    d = os.path.join(os.path.dirname(os.path.dirname(os.path.abspath(__file__))), ".work")
    os.makedirs(d, exist_ok=True)
    fd, path = tempfile.mkstemp(suffix=".smt2", dir=d)
    try:
        with os.fdopen(fd, "w") as f:
            f.write(smt)
        out = subprocess.run(["/usr/bin/cvc5", "--tlimit=%d" % timeout_ms, path], capture_output=True, text=True,
                             timeout=timeout_ms / 1000 + 5)
        first = out.stdout.strip().splitlines()[0] if out.stdout.strip() else "unknown"
        return first if first in ("sat", "unsat") else "unknown"
    except Exception:
        return "unknown"
    finally:
        try:
            os.unlink(path)
        except OSError:
            pass


# ------------------------------------------------------------------------------------ modular use of a contract
def apply_modular(ip, c, uf, args, kwargs):
    """at a call site: assert the callee's requires, assume its ensures (the body is not looked at)"""
    import inspect
    sig = inspect.signature(uf)
    try:
        ba = sig.bind(*args, **kwargs)
    except TypeError as e:
        raise PyRaise(TypeError, str(e))
    ba.apply_defaults()
    a = NS(**ba.arguments)
    cb = ip.on_obligation
    for slug, fn in c.requires:
        v = _call_clause(fn, a)
        if cb is not None:
            cb("call-pre", c.short() + "." + slug, v)
        if isinstance(v, Sym):
            ip.eng.assume(zb(v))
    ip.used_trusted.add("contract of " + c.target + " (verified separately)")
    if c.model is not None:
        return c.model(ip, a)
    # exceptional outcomes
    excs = list(c.raises.items())
    if excs:
        conds = []
        for E, (slug, fn) in excs:
            v = _call_clause(fn, a)
            conds.append(zb(v) if isinstance(v, Sym) else z3.BoolVal(bool(v)))
        k = ip.eng.choose(conds + [z3.Not(z3.Or(*conds))], "callee-raises")
        if k < len(excs):
            raise PyRaise(excs[k][0], "raised by contract of " + c.target)
    if c.returns is None:
        r = None
    else:
        r = c.returns.sym(sym.fresh_name(c.short() + ".result"), ip)
    old = NS()
    for slug, fn in c.ensures:
        v = _call_clause(fn, a, r, old)
        if isinstance(v, Sym):
            ip.eng.assume(zb(v))
        elif not v:
            raise PathInfeasible()
    return r
