"""Loop cuts: a loop with a contract-supplied inductive invariant is verified for ALL iteration counts:
  entry:      invariant holds with the ghost index at the start            (obligation loop-inv-entry)
  step:       from an arbitrary state satisfying the invariant (modified heap fields havocked), one execution of the
              real loop body re-establishes it                             (obligation loop-inv-preserved)
  exit:       the code after the loop runs from an arbitrary state satisfying the invariant at the final index.
A body that writes a heap field or local not declared in the loop's modifies list makes the function undecided."""
import ast

import z3

from . import sym
from .engine import PathEnd, PyRaise
from .seq import SeqSlice, SymSeq
from .sym import EngineLimit, SymInt, zb


class LoopSpec:
    def __init__(self, invariant, modifies_fields=()):
        self.invariant = invariant  # ctx -> [(slug, boolish)]
        self.modifies_fields = tuple(modifies_fields)


class Ctx:
    pass


def _assigned_names(body):
    out = set()
    for st in body:
        for n in ast.walk(st):
            if isinstance(n, ast.Name) and isinstance(n.ctx, ast.Store):
                out.add(n.id)
    return out


def for_cut(ip, st, frame, spec, it):
    from .interp import _Break, _Continue
    if isinstance(it, SymSeq):
        it = SeqSlice(it, z3.IntVal(0), it.n)
    if not isinstance(it, SeqSlice):
        raise EngineLimit("loop invariant given for a loop over a non-symbolic iterable")
    if not isinstance(st.target, ast.Name):
        raise EngineLimit("loop cut with compound target")
    extra = _assigned_names(st.body) - {st.target.id}
    if extra:
        raise EngineLimit("loop body assigns locals %s (no havoc specification)" % sorted(extra))
    eng = ip.eng
    seq = it.seq
    heap = seq.heap
    lo = it.lo
    hi = z3.simplify(z3.If(it.hi >= lo, it.hi, lo))
    entry = heap.snapshot()

    def ctx(k):
        c = Ctx()
        c.k, c.lo, c.hi, c.seq, c.locals, c.heap, c.entry, c.frame = k, lo, hi, seq, frame.locals, heap, entry, frame
        return c

    for slug, g in spec.invariant(ctx(lo)):
        ip.on_obligation("loop-inv-entry", slug, g)
    b = eng.choose([None, None], "loop", labels=["arbitrary-iteration", "exit"])
    for f in spec.modifies_fields:
        heap.fields[f] = z3.Array(sym.fresh_name("H_" + f + "_havoc"), z3.IntSort(),
                                  z3.BoolSort() if f.endswith("?none") else z3.IntSort())
    if b == 0:
        k = z3.Int(sym.fresh_name("k"))
        eng.assume(z3.And(lo <= k, k < hi))
        for slug, g in spec.invariant(ctx(k)):
            eng.assume(zb(g))
        before = heap.snapshot()
        ip.assign(st.target, seq.wrap(z3.Select(seq.arr, k)), frame)
        try:
            ip.exec_block(st.body, frame)
        except _Continue:
            pass
        except _Break:
            raise EngineLimit("break inside a loop cut")
        for f, arr in heap.fields.items():
            if f not in spec.modifies_fields and not arr.eq(before[f]):
                raise EngineLimit("loop body writes heap field %s which is not in the loop's modifies list" % f)
        for slug, g in spec.invariant(ctx(z3.simplify(k + 1))):
            ip.on_obligation("loop-inv-preserved", slug, g)
        raise PathEnd()
    for slug, g in spec.invariant(ctx(hi)):
        eng.assume(zb(g))
    frame.locals.pop(st.target.id, None)
    ip.exec_block(st.orelse, frame)


def while_cut(ip, st, frame, spec):
    raise EngineLimit("while-loop cuts are not implemented")
