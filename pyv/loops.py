"""Loop cuts (inductive invariants). Filled in with the heap model."""
from .sym import EngineLimit


def while_cut(ip, st, frame, spec):
    raise EngineLimit("while cut not implemented")


def for_cut(ip, st, frame, spec, it):
    raise EngineLimit("for cut not implemented")
