"""Source loader: the verified text is the code that runs.

For a real function object imported from /repo, return the ``ast.FunctionDef`` parsed *on this run* from
the file the object was compiled from.  Files are re-read on every run; nothing is cached on disk.
The node is located by (qualname, first line number) of the running code object, so that when a module
defines a name twice the definition Python actually bound (the last one) is the one that is analysed.

What extraction drops: docstrings, type annotations, decorators ``deprecated_alias`` /
``deprecated_parameter`` (keyword renaming shims; the wrapped function is analysed), ``property`` wrappers
(the getter/setter function is analysed).
"""
import ast
import inspect
import os
import hashlib

REPO = os.environ.get("PYV_REPO", "/repo")

_parsed = {}


def parse_file(path):
    path = os.path.realpath(path)
    if path not in _parsed:
        with open(path, "rb") as f:
            src = f.read()
        tree = ast.parse(src, filename=path)
        index = {}
        _index(tree, "", index)
        _parsed[path] = (tree, index, hashlib.sha256(src).hexdigest())
    return _parsed[path]


def _index(node, prefix, index):
    for ch in ast.iter_child_nodes(node):
        if isinstance(ch, (ast.FunctionDef, ast.AsyncFunctionDef)):
            q = prefix + ch.name
            index.setdefault(q, []).append(ch)
            _index(ch, q + ".<locals>.", index)
        elif isinstance(ch, ast.ClassDef):
            q = prefix + ch.name
            index.setdefault(q, []).append(ch)
            _index(ch, q + ".", index)
        elif isinstance(ch, (ast.If, ast.Try, ast.With, ast.For, ast.While)):
            _index(ch, prefix, index)


def in_repo(path):
    try:
        return os.path.realpath(path).startswith(os.path.realpath(REPO) + os.sep)
    except Exception:
        return False


def unwrap(f):
    while hasattr(f, "__wrapped__"):
        f = f.__wrapped__
    return f


def is_repo_function(f):
    f = unwrap(f)
    code = getattr(f, "__code__", None)
    return code is not None and in_repo(code.co_filename)


def function_ast(f):
    """ast.FunctionDef (or Lambda) of a real function object, from the current file contents."""
    f = unwrap(f)
    code = f.__code__
    path = code.co_filename
    tree, index, _ = parse_file(path)
    cands = index.get(f.__qualname__, [])
    first = code.co_firstlineno
    for c in cands:
        lines = [c.lineno] + [d.lineno for d in c.decorator_list]
        if first in lines or c.lineno == first:
            return c
    if len(cands) == 1:
        return cands[0]
    if cands:
        # the last definition is the one Python keeps
        return cands[-1]
    # lambdas assigned at module level etc.
    for node in ast.walk(tree):
        if isinstance(node, ast.Lambda) and node.lineno == first:
            return node
    raise LookupError("no source for %s in %s" % (f.__qualname__, path))


def file_digest(path):
    return parse_file(path)[2]


def resolve(dotted):
    """'partitura.score.Part._remove_point' -> python object (function / property / class)"""
    import importlib
    parts = dotted.split(".")
    for i in range(len(parts), 0, -1):
        try:
            mod = importlib.import_module(".".join(parts[:i]))
        except ImportError:
            continue
        obj = mod
        for p in parts[i:]:
            if isinstance(obj, type):
                obj = inspect.getattr_static(obj, p)
            else:
                obj = getattr(obj, p)
        return obj
    raise LookupError(dotted)


def local_names(fnode):
    """names that are local to the function (assigned somewhere in its body, not declared global/nonlocal)"""
    names = set()
    glob = set()

    def visit(n, top):
        if isinstance(n, (ast.FunctionDef, ast.AsyncFunctionDef, ast.ClassDef)) and not top:
            names.add(n.name)
            return
        if isinstance(n, ast.Lambda) and not top:
            return
        if isinstance(n, (ast.ListComp, ast.SetComp, ast.DictComp, ast.GeneratorExp)):
            # comprehension targets live in their own scope; walk only the outermost iterable
            visit(n.generators[0].iter, False)
            return
        if isinstance(n, (ast.Global, ast.Nonlocal)):
            glob.update(n.names)
        if isinstance(n, ast.Name) and isinstance(n.ctx, (ast.Store, ast.Del)):
            names.add(n.id)
        if isinstance(n, (ast.Import, ast.ImportFrom)):
            for a in n.names:
                names.add((a.asname or a.name).split(".")[0])
        if isinstance(n, ast.ExceptHandler) and n.name:
            names.add(n.name)
        for ch in ast.iter_child_nodes(n):
            visit(ch, False)

    if isinstance(fnode, ast.Lambda):
        body = [fnode.body]
    else:
        body = fnode.body
    for st in body:
        visit(st, False)
    a = fnode.args
    for arg in a.posonlyargs + a.args + a.kwonlyargs:
        names.add(arg.arg)
    if a.vararg:
        names.add(a.vararg.arg)
    if a.kwarg:
        names.add(a.kwarg.arg)
    return names - glob


def is_generator(fnode):
    def visit(n, top):
        if isinstance(n, (ast.FunctionDef, ast.AsyncFunctionDef, ast.Lambda, ast.ClassDef)) and not top:
            return False
        if isinstance(n, (ast.Yield, ast.YieldFrom)):
            return True
        return any(visit(c, False) for c in ast.iter_child_nodes(n))
    if isinstance(fnode, ast.Lambda):
        return False
    return any(visit(st, False) for st in fnode.body)
