"""Path exploration by re-execution (depth-first over a decision log) and the SMT interface.

A *run* executes a Python callable (the interpreter applied to one function under one contract)
repeatedly.  Whenever execution needs a concrete answer that depends on symbolic data
(``if`` on a SymBool, a table lookup with a symbolic key, an enumerated parameter domain), it asks
``decide``/``choose``.  The answers of the current path are kept in a log; after a path ends the
last decision with an unexplored feasible alternative is flipped and the function is executed
again from the start.  No state is copied; every path builds its objects afresh.
"""
import time
import z3
from . import sym
from .sym import EngineLimit


class PyRaise(Exception):
    """An exception raised by the *interpreted program* (not by the engine)."""

    def __init__(self, exc_type, msg="", inst=None):
        Exception.__init__(self, "%s: %s" % (getattr(exc_type, "__name__", exc_type), msg))
        self.exc_type = exc_type
        self.msg = msg
        self.inst = inst


class PathInfeasible(Exception):
    pass


class PathEnd(Exception):
    """Normal early end of a path (e.g. after the inductive step of a loop cut)."""


def _has_quantifier(e):
    seen = set()
    stack = [e]
    while stack:
        x = stack.pop()
        if z3.is_quantifier(x):
            return True
        i = x.get_id()
        if i in seen:
            continue
        seen.add(i)
        stack.extend(x.children())
    return False


class Engine:
    def __init__(self, timeout_ms=10000, max_paths=50000, max_decisions=2000, seed=0):
        self.timeout_ms = timeout_ms
        self.max_paths = max_paths
        self.max_decisions = max_decisions
        self.seed = seed
        self.log = []  # entries: [choice, todo(list)]
        self.pos = 0
        self.pc = []
        self.choices_desc = []  # human readable trail of the current path
        self.n_solver_calls = 0
        self.solver_s = 0.0
        self.n_paths = 0
        self.facts = []  # global axioms (z3) assumed on every path
        self._solver = None
        self._solver_len = 0

    # ---- solver ------------------------------------------------------------------------
    def _mk_solver(self):
        s = z3.Solver()
        s.set("timeout", self.timeout_ms)
        s.set("random_seed", self.seed)
        return s

    def check(self, extra=(), feasibility=False):
        """satisfiability of facts + pc + extra -> 'sat' | 'unsat' | 'unknown' , model.
        feasibility=True: quick over-approximate test used only to prune paths: quantified hypotheses are dropped
        (more paths are explored, never fewer) and the time limit is short; 'unknown' counts as feasible."""
        t0 = time.time()
        s = self._mk_solver()
        if feasibility:
            s.set("timeout", 2000)
        for f in self.facts:
            if not (feasibility and _has_quantifier(f)):
                s.add(f)
        for c in self.pc:
            if not (feasibility and _has_quantifier(c)):
                s.add(c)
        for e in extra:
            s.add(e)
        r = s.check()
        self.n_solver_calls += 1
        self.solver_s += time.time() - t0
        if r == z3.sat:
            return "sat", s.model()
        if r == z3.unsat:
            return "unsat", None
        return "unknown", None

    def prove(self, goal):
        """validity of pc => goal.  returns ('unsat',None) if proved, ('sat',model) if refuted, ('unknown',None)"""
        g = z3.simplify(goal)
        if z3.is_true(g):
            return "unsat", None
        return self.check([z3.Not(goal)])

    # ---- decisions ---------------------------------------------------------------------
    def assume(self, z):
        z = z3.simplify(z)
        if z3.is_true(z):
            return
        self.pc.append(z)

    def choose(self, conds, tag="", labels=None):
        """n-ary choice; conds: list of z3 Bool (or None for 'no condition').  Returns the index taken on this path."""
        if self.pos < len(self.log):
            k = self.log[self.pos][0]
        else:
            if len(self.log) >= self.max_decisions:
                raise EngineLimit("more than %d decisions on one path (%s)" % (self.max_decisions, tag))
            feas = []
            for i, c in enumerate(conds):
                if c is None:
                    feas.append(i)
                    continue
                cs = z3.simplify(c)
                if z3.is_false(cs):
                    continue
                if z3.is_true(cs):
                    feas.append(i)
                    continue
                r, _ = self.check([c], feasibility=True)
                if r != "unsat":
                    feas.append(i)
            if not feas:
                raise PathInfeasible()
            self.log.append([feas[0], feas[1:]])
            k = feas[0]
        self.pos += 1
        c = conds[k]
        if c is not None:
            self.assume(c)
        if labels is not None:
            self.choices_desc.append("%s=%s" % (tag, labels[k]))
        return k

    def decide(self, cond, tag=""):
        k = self.choose([cond, z3.Not(cond)], tag)
        return k == 0

    # ---- path driver -------------------------------------------------------------------
    def _backtrack(self):
        while self.log and not self.log[-1][1]:
            self.log.pop()
        if not self.log:
            return False
        e = self.log[-1]
        e[0] = e[1].pop(0)
        return True

    def run_paths(self, fn):
        """fn() is executed once per path.  Yields nothing; fn records its own results."""
        self.log = []
        self.n_paths = 0
        sym.set_engine(self)
        try:
            while True:
                self.pos = 0
                self.pc = []
                self.choices_desc = []
                self.n_paths += 1
                if self.n_paths > self.max_paths:
                    raise EngineLimit("more than %d paths" % self.max_paths)
                try:
                    fn()
                except (PathInfeasible, PathEnd):
                    pass
                if not self._backtrack():
                    break
        finally:
            sym.set_engine(None)
