#!/bin/sh
# Build the overlay interpreter: python 3.12 venv with z3-solver, cvc5, jsonschema from the offline
# wheelhouse, plus a .pth that exposes /venv's site-packages (partitura editable install, numpy, scipy, mido, lxml).
set -e
cd "$(dirname "$0")"
if [ ! -x .venv/bin/python ] || ! .venv/bin/python -W ignore -c "import z3, cvc5, jsonschema, partitura" 2>/dev/null; then
  rm -rf .venv
  /venv/bin/python -m venv .venv
  PIP_NO_INDEX=1 .venv/bin/pip install -q --no-index --find-links /opt/veriftools/wheels z3-solver cvc5 jsonschema
  echo "import site; site.addsitedir('/venv/lib/python3.12/site-packages')" > .venv/lib/python3.12/site-packages/_overlay.pth
fi
.venv/bin/python -W ignore -c "import z3, cvc5, jsonschema, partitura, numpy; print('pyv overlay ok: z3', z3.get_version_string(), 'numpy', numpy.__version__, 'partitura from', partitura.__file__)"
