#!/bin/sh
# tools/seed_confirm.sh <Cxx> <A|B> : confirm a sub-agent's seeded change in its scratch worktree (at /repo's current HEAD)
# and, if confirmed, store it under /verif/seeded/<Cxx>-<A|B>/ (patch.diff, demo.py, meta.json).
ID="$1"; X="$2"
W=/tmp/seed/$ID; O=/tmp/seed/out/$ID
D=/verif/seeded/$ID-$X
cd "$W" || exit 2
git checkout -q -- . && git checkout -q --detach "$(git -C /repo rev-parse HEAD)" || exit 2
SHA=$(git -C /repo rev-parse --short HEAD)
if [ ! -f /tmp/seed/clean_$SHA.txt ]; then
  PYTHONPATH="$W" /venv/bin/python -m pytest -q -p no:cacheprovider --timeout=900 --continue-on-collection-errors tests 2>&1 | tail -1 | grep -o '[0-9]* passed' | grep -o '[0-9]*' > /tmp/seed/clean_$SHA.txt
fi
CLEAN=$(cat /tmp/seed/clean_$SHA.txt)
run_demo() { PYTHONPATH="$W" /venv/bin/python -W ignore "$O/$X.demo.py" >/tmp/seed/out/$ID/$X.demo.$1.log 2>&1; echo $?; }
clean_rc=$(run_demo clean)
git apply "$O/$X.patch.diff" || { echo "$ID-$X: PATCH DOES NOT APPLY at current HEAD"; exit 3; }
mut_rc=$(run_demo mutated)
PYTHONPATH="$W" /venv/bin/python -m pytest -q -p no:cacheprovider --timeout=900 --continue-on-collection-errors tests >/tmp/seed/out/$ID/$X.tests.log 2>&1
summary=$(tail -1 /tmp/seed/out/$ID/$X.tests.log)
passed=$(echo "$summary" | grep -o '[0-9]* passed' | grep -o '[0-9]*')
git checkout -q -- .
echo "$ID-$X: demo clean rc=$clean_rc mutated rc=$mut_rc ; tests: $summary"
echo "   (clean tree at $SHA: $CLEAN passed)"
if [ "$clean_rc" = 0 ] && [ "$mut_rc" != 0 ] && [ "$passed" = "$CLEAN" ] && [ "$passed" -ge 228 ]; then
  mkdir -p "$D"
  cp "$O/$X.patch.diff" "$D/patch.diff"; cp "$O/$X.demo.py" "$D/demo.py"
  /venv/bin/python - "$O/$X.meta.json" "$D/meta.json" "$summary" "$(git -C /repo rev-parse --short HEAD)" <<'EOF'
import json,sys
m=json.load(open(sys.argv[1]))
m["confirmed_by_main_session"]={"at_repo_commit":sys.argv[4],"demo_on_clean_tree":"exit 0","demo_with_change":"exit 1 (non-zero)","existing_suite_with_change":sys.argv[3],
  "procedure":"tools/seed_confirm.sh: scratch worktree at /repo HEAD; demo passes; git apply patch; demo fails; full pytest suite passes exactly the tests it passes without the change (>= the 228 baseline tests); worktree reset"}
json.dump(m,open(sys.argv[2],"w"),indent=1)
EOF
  echo "$ID-$X: CONFIRMED -> $D"
else
  echo "$ID-$X: NOT CONFIRMED"
fi
