#!/bin/sh
# tools/seedtest_wt.sh <patch.diff> <Cxx> [tier] [lane]: run the property's check against a scratch worktree of /repo's HEAD with a
# seeded change applied.  /repo and the committed evidence are not touched: the worktree lives under /tmp/seedwt/<lane>, evidence and
# replay files of the run go to /tmp/seedwt/<lane>.out.  Prints the verdict lines.  The worktree is kept for the next call of the lane
# (tools/seed_matrix.sh removes all lanes at the end).
P="$1"; ID="$2"; TIER="${3:-quick}"; LANE="${4:-$ID}"
R="${SEEDWT:-/tmp/seedwt}"; W=$R/$LANE; O=$R/$LANE.out
mkdir -p "$R"
HEAD=$(git -C /repo rev-parse HEAD)
if [ ! -d "$W" ]; then git -C /repo worktree add -q --detach "$W" "$HEAD" || exit 9; fi
( cd "$W" && git checkout -q -- . && git clean -fdq && git checkout -q --detach "$HEAD" ) || exit 9
git -C "$W" apply "$P" || { echo "PATCH DOES NOT APPLY"; exit 8; }
rm -rf "$O"; mkdir -p "$O"
cd /verif
PYV_REPO="$W" PYTHONPATH="$W" PYV_OUT="$O" ./check "$ID" --tier "$TIER" 2>&1 | grep -E "^(VIOLATION|KNOWN|UNDECIDED|CHECKER|C[0-9]+ tier)" | cut -c1-260
( cd "$W" && git checkout -q -- . && git clean -fdq )
