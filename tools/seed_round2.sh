#!/bin/sh
# tools/seed_round2.sh <Cxx> : confirm the round-2 changes C and D of a property and run the quick check against each
ID="$1"
for X in ${ROUND:-C D}; do
  [ -f /tmp/seed/out/$ID/$X.patch.diff ] || { echo "$ID-$X: no patch"; continue; }
  /verif/tools/seed_confirm.sh $ID $X 2>&1 | tail -3
  if [ -d /verif/seeded/$ID-$X ]; then
    /verif/tools/seedtest_wt.sh /verif/seeded/$ID-$X/patch.diff $ID quick $ID 2>&1 | grep -E "VIOLATION|tier=|CHECKER|DOES NOT" | cut -c1-230 | head -6
  fi
done
