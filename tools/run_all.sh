#!/bin/sh
# run every claimed check (quick tier) on the current tree, in sequence; print one line per property
cd /verif
for id in $(python3 -c "import json;print(' '.join(c['property_id'] for c in json.load(open('MANIFEST.json'))['checks']))"); do
  ./check $id --tier "${1:-quick}" 2>&1 | grep -E "^(VIOLATION|KNOWN|CHECKER|C[0-9]+ tier)" | cut -c1-200
  echo "   exit=$? ($id)"
done
