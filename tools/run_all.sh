#!/bin/sh
# tools/run_all.sh [quick|thorough] [--write-baseline]: run every claimed check on the current tree, in sequence; one line per property.
# With --write-baseline the obligations discharged on this (unchanged) tree are recorded in expected_discharged.json.
cd /verif
TIER="${1:-quick}"; WB=""
[ "$2" = "--write-baseline" ] && WB="--write-baseline"
for id in $(python3 -c "import json;print(' '.join(c['property_id'] for c in json.load(open('MANIFEST.json'))['checks']))"); do
  ./check $id --tier "$TIER" $WB > /tmp/run_all_$id.log 2>&1; rc=$?
  grep -E "^(VIOLATION|KNOWN|CHECKER|UNDECIDED|C[0-9]+ tier)" /tmp/run_all_$id.log | cut -c1-200
  echo "   exit=$rc ($id)"
  rm -f /tmp/run_all_$id.log
done
