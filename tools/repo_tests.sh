#!/bin/sh
# tools/repo_tests.sh: run the repository's pinned test suite and report whether every test of the baseline's stable_pass list passes.
cd /repo && /venv/bin/python -m pytest -q -p no:cacheprovider --timeout=900 --continue-on-collection-errors --junitxml=/tmp/repo_tests.xml >/tmp/repo_tests.log 2>&1
tail -1 /tmp/repo_tests.log
python3 - <<'PY'
import json, xml.etree.ElementTree as ET
base = set(json.load(open('/root/.vp/BASELINE.json'))['stable_pass'])
ok = set()
for tc in ET.parse('/tmp/repo_tests.xml').getroot().iter('testcase'):
    if not any(ch.tag in ('failure', 'error', 'skipped') for ch in tc):
        ok.add(tc.get('classname') + '::' + tc.get('name'))
missing = sorted(base - ok)
print("baseline stable_pass: %d, passing now: %d, baseline tests not passing: %d" % (len(base), len(base & ok), len(missing)))
for m in missing: print("  NOT PASSING:", m)
PY
rm -f /tmp/repo_tests.xml
