#!/bin/sh
# tools/seedtest.sh <patch.diff> <Cxx> [tier]: apply a seeded change to /repo, run the check, undo the change.
# The evidence file of the property is saved and restored (evidence committed must come from the unchanged tree).
P="$1"; ID="$2"; TIER="${3:-quick}"
cd /verif
git -C /repo diff --quiet || { echo "repo dirty"; exit 9; }
git -C /repo apply "$P" || { echo "PATCH DOES NOT APPLY"; exit 8; }
cp evidence/$ID.json /tmp/evidence.$ID.saved 2>/dev/null
./check "$ID" --tier "$TIER" 2>&1 | grep -E "^(VIOLATION|KNOWN|UNDECIDED|CHECKER|C[0-9]+ tier)" | cut -c1-260
git -C /repo checkout -- .
[ -f /tmp/evidence.$ID.saved ] && mv /tmp/evidence.$ID.saved evidence/$ID.json
rm -rf replays/$ID
