#!/usr/bin/env python3
"""Regenerate MANIFEST.json from the per-property modules that exist (contracts/cXX.py with MANIFEST dict)."""
import importlib
import json
import os
import sys

ROOT = os.path.dirname(os.path.dirname(os.path.abspath(__file__)))
sys.path.insert(0, ROOT)
props = [json.loads(l) for l in open(os.path.join(ROOT, "properties.jsonl"))]
NA = json.load(open(os.path.join(ROOT, "tools", "not_applicable.json")))
checks = []
na = []
for p in props:
    pid = p["id"]
    path = os.path.join(ROOT, "contracts", pid.lower() + ".py")
    src = open(path).read() if os.path.exists(path) else ""
    if "MANIFEST = " in src:
        ns = {}
        # read the MANIFEST literal without importing partitura
        start = src.index("MANIFEST = ")
        end = src.index("\n}\n", start) + 3
        exec(src[start:end], ns)
        m = ns["MANIFEST"]
        checks.append({
            "property_id": pid,
            "quick_cmd": "./check %s --tier quick" % pid,
            "thorough_cmd": "./check %s --tier thorough" % pid,
            "evidence_file": "evidence/%s.json" % pid,
            "replay_cmd_template": "./check replay {path}",
            "engine": "pyv",
            "level_claimed": {"category": m["level"], "text": m["text"], "design_ref": "DESIGN.md section 5, " + pid},
            "level_note": m["note"],
            "technique": m["technique"],
        })
    else:
        na.append({"property_id": pid, "reason": NA.get(pid, "check not built yet (work in progress; see DESIGN.md section 5)")})
man = {
    "version": 1,
    "setup_cmd": "./setup.sh",
    "hooks": {"guard": "PARTITURA_VERIF", "enable": "no hooks: contracts are sidecar files under /verif/contracts, nothing in /repo is instrumented",
              "baseline_off_cmd": "cd /repo && /venv/bin/python -m pytest -q -p no:cacheprovider --timeout=900 --continue-on-collection-errors tests",
              "source_commits": [], "add_only": True},
    "engines": [{"name": "pyv", "path": "pyv/", "serves_properties": [c["property_id"] for c in checks],
                 "kind_free_text": "contract-based deductive verification: sidecar contracts; ast->z3 symbolic executor over the real /repo source "
                                   "(P), modular frame/effect analysis (F), exhaustive closed evaluation of finite facts, and bounded run-time "
                                   "contract checking of the same contracts on the real functions (B, never counted as proved)"}],
    "checks": checks,
    "not_applicable": na,
    "notes": "fix: commits in /repo repair genuine defects found by these checks (see known_findings.json, DESIGN.md section 6)",
}
json.dump(man, open(os.path.join(ROOT, "MANIFEST.json"), "w"), indent=1)
import jsonschema
jsonschema.validate(man, json.load(open("/root/.vp/MANIFEST.schema.json")))
print("MANIFEST: %d checks, %d not_applicable" % (len(checks), len(na)))
