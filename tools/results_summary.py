"""tools/results_summary.py: which kinds of obligation report the stored seeded changes (from seeded/RESULTS.md)"""
import re
import collections
rows = [l for l in open("/verif/seeded/RESULTS.md") if re.match(r"\| C\d+-[A-Z] \|", l)]
kinds = collections.Counter()
only_bounded = 0
not_reported = []
for l in rows:
    cid, _, rep = [x.strip() for x in l.strip().strip("|").split("|")][:3]
    if "NOT REPORTED" in rep or "DOES NOT APPLY" in rep:
        not_reported.append(cid)
        continue
    obs = [o.strip().split(" (x")[0] for o in rep.split(";")]
    ks = set()
    for o in obs:
        if o.startswith("bounded/"):
            ks.add("bounded")
        elif o.startswith("closed/"):
            ks.add("closed")
        elif "/frame/" in o:
            ks.add("frame")
        else:
            ks.add("smt")
    for k in ks:
        kinds[k] += 1
    if ks == {"bounded"}:
        only_bounded += 1
print("changes: %d; reported: %d; not reported: %r" % (len(rows), len(rows) - len(not_reported), not_reported))
print("reported by an SMT obligation: %d; by a frame obligation: %d; by a closed evaluation: %d; by a bounded obligation: %d; by bounded obligations only: %d" % (
    kinds["smt"], kinds["frame"], kinds["closed"], kinds["bounded"], only_bounded))
