#!/bin/sh
# tools/seed_matrix.sh: run every stored seeded change against its property's quick check (sequentially, on /repo, undone afterwards)
# and write seeded/RESULTS.md: which obligations report each change.
cd /verif
OUT=seeded/RESULTS.md
echo "| seeded change | functions changed | reported by (obligations of the quick check) | exit |" > $OUT
echo "|---|---|---|---|" >> $OUT
for d in seeded/C*-*; do
  id=$(basename $d); pid=${id%-*}
  [ -f $d/patch.diff ] || continue
  git -C /repo diff --quiet || { echo "repo dirty"; exit 9; }
  if ! git -C /repo apply /verif/$d/patch.diff 2>/dev/null; then echo "| $id | | PATCH DOES NOT APPLY | |" >> $OUT; continue; fi
  cp evidence/$pid.json /tmp/evidence.$pid.saved 2>/dev/null
  ./check $pid --tier quick > /tmp/seed_$id.log 2>&1; rc=$?
  git -C /repo checkout -- .
  [ -f /tmp/evidence.$pid.saved ] && mv /tmp/evidence.$pid.saved evidence/$pid.json
  obl=$(grep '^VIOLATION' /tmp/seed_$id.log | sed -E 's/.*replay=[^ ]*\/C[0-9]+__//; s/(__[0-9a-f]{8})?\.json.*//; s/__/\//g' | sort | uniq -c | sort -rn | awk '{printf "%s%s (x%s)", (NR>1?"; ":""), $2, $1}' | cut -c1-400)
  nf=$(grep -c 'no-failing-input-found' /tmp/seed_$id.log)
  fn=$(python3 -c "import json;print(', '.join(x.split('.')[-1] for x in json.load(open('$d/meta.json')).get('functions_changed',[])))")
  echo "| $id | $fn | ${obl:-NOT REPORTED}$( [ "$nf" != "0" ] && echo " [$nf without failing input]") | $rc |" >> $OUT
  rm -rf replays/$pid /tmp/seed_$id.log
done
cat $OUT
