#!/bin/sh
# tools/seed_matrix.sh [jobs] [Cxx ...]: run every stored seeded change (or only those of the named properties) against its property's quick
# check and write seeded/RESULTS.md (which obligations report each change; rows of properties that were not rerun are kept).  Each property
# has its own scratch worktree of /repo's HEAD under /tmp/seedwt (tools/seedtest_wt.sh): /repo, the committed evidence and the replay
# directory are not touched, and properties run in parallel (default 5 at a time; the changes of one property run one after the other).
# All scratch worktrees are removed at the end.
cd /verif
JOBS="${1:-5}"
[ $# -gt 0 ] && shift
IDS="$*"
[ -z "$IDS" ] && IDS=$(ls -d seeded/C*-* | sed -E 's/seeded\/(C[0-9]+)-.*/\1/' | sort -u)
mkdir -p /tmp/seedwt/rows
rm -f /tmp/seedwt/rows/*
cat > /tmp/seedwt/lane.sh <<'LANE'
#!/bin/sh
lane=$1                      # Cxx, or Cxx.k = the k-th third of the changes of a property whose check is slow
pid=${lane%%.*}
k=${lane#*.}; [ "$k" = "$lane" ] && k=0
cd /verif
i=0
for d in seeded/$pid-*; do
  id=$(basename $d)
  [ -f $d/patch.diff ] || continue
  i=$((i+1))
  [ "$k" != "0" ] && [ $(( (i - 1) % 3 + 1 )) != "$k" ] && continue
  tools/seedtest_wt.sh /verif/$d/patch.diff $pid quick $lane > /tmp/seedwt/$id.log 2>&1
  if grep -q "PATCH DOES NOT APPLY" /tmp/seedwt/$id.log; then echo "| $id | | PATCH DOES NOT APPLY | |" > /tmp/seedwt/rows/$id; continue; fi
  obl=$(grep '^VIOLATION' /tmp/seedwt/$id.log | sed -E 's/.*replay=[^ ]*\/C[0-9]+__//; s/(__[0-9a-f]{8})?\.json.*//; s/__/\//g' | sort | uniq -c | sort -rn | awk '{printf "%s%s (x%s)", (NR>1?"; ":""), $2, $1}' | cut -c1-400)
  nf=$(grep -c 'no-failing-input-found' /tmp/seedwt/$id.log)
  ce=$(grep -c '^CHECKER' /tmp/seedwt/$id.log)
  fn=$(python3 -c "import json;print(', '.join(x.split('.')[-1] for x in json.load(open('$d/meta.json')).get('functions_changed',[])))")
  echo "| $id | $fn | ${obl:-NOT REPORTED}$( [ "$nf" != "0" ] && echo " [$nf without failing input]")$( [ "$ce" != "0" ] && echo " [checker error]") |" > /tmp/seedwt/rows/$id
done
LANE
chmod +x /tmp/seedwt/lane.sh
# the slow checks first and in three lanes each
LANES=""
for id in $IDS; do case $id in C01|C11) LANES="$id.1 $id.2 $id.3 $LANES";; *) LANES="$LANES $id";; esac; done
echo $LANES | tr ' ' '\n' | grep . | xargs -P "$JOBS" -n 1 /tmp/seedwt/lane.sh
OUT=seeded/RESULTS.md
python3 - "$OUT" <<'PY'
import sys, os, re, glob
out = sys.argv[1]
rows = {}
if os.path.exists(out):
    for l in open(out):
        m = re.match(r"\| (C\d+-[A-Z]) \|", l)
        if m:
            rows[m.group(1)] = l.rstrip("\n")
for f in glob.glob("/tmp/seedwt/rows/*"):
    rows[os.path.basename(f)] = open(f).read().rstrip("\n")
stored = {os.path.basename(d) for d in glob.glob("/verif/seeded/C*-*") if os.path.isdir(d)}
with open(out, "w") as fh:
    fh.write("| seeded change | functions changed | reported by (obligations of the quick check) |\n|---|---|---|\n")
    for k in sorted(rows):
        if k in stored:
            fh.write(rows[k] + "\n")
PY
for w in /tmp/seedwt/C*; do [ -d "$w/.git" ] || [ -f "$w/.git" ] && git -C /repo worktree remove --force "$w" 2>/dev/null; done
rm -rf /tmp/seedwt
git -C /repo worktree prune
grep -c "NOT REPORTED" $OUT
