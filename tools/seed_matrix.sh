#!/bin/sh
# tools/seed_matrix.sh [jobs]: run every stored seeded change against its property's quick check and write seeded/RESULTS.md (which
# obligations report each change).  Each property has its own scratch worktree of /repo's HEAD under /tmp/seedwt (tools/seedtest_wt.sh):
# /repo, the committed evidence and the replay directory are not touched, and properties run in parallel (default 5 at a time; the
# changes of one property run one after the other).  All scratch worktrees are removed at the end.
cd /verif
JOBS="${1:-5}"
mkdir -p /tmp/seedwt/rows
rm -f /tmp/seedwt/rows/*
cat > /tmp/seedwt/lane.sh <<'LANE'
#!/bin/sh
pid=$1
cd /verif
for d in seeded/$pid-*; do
  id=$(basename $d)
  [ -f $d/patch.diff ] || continue
  tools/seedtest_wt.sh /verif/$d/patch.diff $pid quick $pid > /tmp/seedwt/$id.log 2>&1
  if grep -q "PATCH DOES NOT APPLY" /tmp/seedwt/$id.log; then echo "| $id | | PATCH DOES NOT APPLY | |" > /tmp/seedwt/rows/$id; continue; fi
  obl=$(grep '^VIOLATION' /tmp/seedwt/$id.log | sed -E 's/.*replay=[^ ]*\/C[0-9]+__//; s/(__[0-9a-f]{8})?\.json.*//; s/__/\//g' | sort | uniq -c | sort -rn | awk '{printf "%s%s (x%s)", (NR>1?"; ":""), $2, $1}' | cut -c1-400)
  nf=$(grep -c 'no-failing-input-found' /tmp/seedwt/$id.log)
  ce=$(grep -c '^CHECKER' /tmp/seedwt/$id.log)
  fn=$(python3 -c "import json;print(', '.join(x.split('.')[-1] for x in json.load(open('$d/meta.json')).get('functions_changed',[])))")
  echo "| $id | $fn | ${obl:-NOT REPORTED}$( [ "$nf" != "0" ] && echo " [$nf without failing input]")$( [ "$ce" != "0" ] && echo " [checker error]") |" > /tmp/seedwt/rows/$id
done
LANE
chmod +x /tmp/seedwt/lane.sh
ls -d seeded/C*-* | sed -E 's/seeded\/(C[0-9]+)-.*/\1/' | sort -u | xargs -P "$JOBS" -n 1 /tmp/seedwt/lane.sh
OUT=seeded/RESULTS.md
echo "| seeded change | functions changed | reported by (obligations of the quick check) |" > $OUT
echo "|---|---|---|" >> $OUT
cat $(ls /tmp/seedwt/rows/* | sort) >> $OUT
for w in /tmp/seedwt/C*; do [ -d "$w/.git" ] || [ -f "$w/.git" ] && git -C /repo worktree remove --force "$w" 2>/dev/null; done
rm -rf /tmp/seedwt
git -C /repo worktree prune
grep -c "NOT REPORTED" $OUT
