"""C19 - MEI and Humdrum **kern files load to what their notation denotes; export to either format and re-load keeps the notes.

P: the kern dotted-duration arithmetic (dot_function/add_durations) under SMT contract in real arithmetic for 0..4 dots.
closed-eval: the finite decoders (kern pitch letters x repeats x accidentals, MEI key signatures, clef octave displacement).
B: abstract documents (gen/notation.py) rendered to MEI and **kern by independent writers written from the format descriptions, loaded
through load_score (dispatch by extension), compared in exact quarter notes; exporter -> importer keeps (onset, duration, pitch, staff)."""
import os
import shutil
import tempfile
from collections import Counter
from fractions import Fraction

LEVEL = "exploration"
MANIFEST = {
    "level": "exploration",
    "technique": "contract-based deductive verification (AST->SMT, z3, real arithmetic) of the kern dotted-duration kernel dot_function/add_durations and of the MEI duration arithmetic MeiParser._duration_info (value x dots x tuplet ratio for every divisions value); exhaustive closed evaluation of the finite decoders (kern pitch tokens, MEI key signatures, clef octave displacement); the readers themselves (lxml / numpy string arrays / regular expressions, 2200 lines) are outside the verifier's reach and are checked as run-time contracts (bounded) against abstract documents rendered by independent MEI and **kern writers",
    "text": "Proved for every positive reciprocal value and 0..4 dots: the kern duration of a dotted value is value/(2 - 2^-dots); proved for every divisions value that represents it: the MEI duration of a value 1..32 with 0..3 dots inside no tuplet, a 3:2 or a 5:4 tuplet is divs*4/value*(2-2^-dots)*numbase/num. Closed: all kern pitch tokens with 1..4 letters and all accidentals, all MEI signatures 7f..7s, all clef displacements. Bounded: pitch spelling, onset and duration in quarters, ties, grace notes, voices/staves/parts, measure starts, meter/key/clef, exact divisions, on generated documents; export->load keeps onset, duration, pitch, staff; reader chosen by extension.",
    "note": "readers bounded only",
}
EXPLANATION = "SMT contract on dot_function, closed decoders, bounded run-time contracts with independent writers."


# ------------------------------------------------------------------------------------------------ P
def _contracts():
    from pyv.contracts import Contract, Real, Enum
    out = []
    for dots in (0, 1, 2, 3, 4):
        # reciprocal duration r = d / (2 - 2^-dots)  <=>  r * (2^(dots+1) - 1) == d * 2^dots
        out.append(Contract("C19", "partitura.io.importkern.dot_function", [("duration", Real(0, None)), ("dots", Enum([dots]))],
                            requires=[("positive_value", lambda a: a.duration > 0)], float_mode="real",
                            ensures=[("dotted_value_adds_half_of_the_previous_addition", (lambda k: lambda a, r: r * (2 ** (k + 1) - 1) == a.duration * 2 ** k)(dots))],
                            name="dot_function[dots=%d]" % dots))
    # MEI: duration of an element without dur.ppq, from value, dots and the enclosing tuplet, for EVERY divisions value for which it is integral
    from pyv.contracts import Const, Int, Obj, ListOf

    def mei_call(ip, fobj, a):
        from lxml import etree
        from partitura.io.importmei import MeiParser
        ns = "http://www.music-encoding.org/ns/mei"
        dur, dots, tup = a.shape
        inner = '<note xml:id="x1" dur="%d"%s pname="c" oct="4"/>' % (dur, ' dots="%d"' % dots if dots else "")
        if tup:
            inner = '<tuplet num="%d" numbase="%d">%s</tuplet>' % (tup[0], tup[1], inner)
        root = etree.fromstring('<layer xmlns="%s">%s</layer>' % (ns, inner))
        el = root.find(".//{%s}note" % ns)
        parser = MeiParser.__new__(MeiParser)
        parser.ns = ns
        a.__dict__["_keep"] = (root, parser)
        if ip is None:
            import types
            part = types.SimpleNamespace(_quarter_durations=[a.divs])
            return fobj(parser, el, part)
        import types
        part = types.SimpleNamespace(_quarter_durations=[a.divs])
        return ip.call(fobj, [parser, el, part], {})

    def _mei_terms(a):
        dur, dots, tup = a.shape
        tm = tup and (tup[1], tup[0]) or (1, 1)   # (normal, actual)
        num = 4 * tm[0] * (2 ** (dots + 1) - 1)
        den = dur * tm[1] * 2 ** dots
        return num, den
    shapes = [(d, k, t) for d in (1, 2, 4, 8, 16, 32) for k in (0, 1, 2, 3) for t in (None, (3, 2), (5, 4))]
    out.append(Contract("C19", "partitura.io.importmei.MeiParser._duration_info", [("shape", Enum(shapes)), ("divs", Int(1, None)), ("k", Int(0, None))],
                        call=mei_call,
                        requires=[("the_divisions_represent_the_duration_as_the_integer_k", lambda a: a.divs * _mei_terms(a)[0] == a.k * _mei_terms(a)[1])],
                        float_mode="real",
                        ensures=[("duration_from_value_dots_and_tuplet_ratio", lambda a, r: (r[0] == "x1") & (r[1] == a.k))],
                        name="MeiParser._duration_info", split="shape"))
    return out


CONTRACTS = _contracts()


# ------------------------------------------------------------------------------------------------ closed
def closed_kern_pitch():
    from partitura.io.importkern import SplineParser
    sp = SplineParser()
    n = 0
    accs = {"": None, "#": 1, "-": -1, "n": 0, "##": 2, "--": -2}
    for letter in "abcdefg":
        for rep in (1, 2, 3, 4):
            for case in ("lower", "upper"):
                for acc, alter in accs.items():
                    tok = (letter if case == "lower" else letter.upper()) * rep + acc
                    n += 1
                    want_oct = 3 + rep if case == "lower" else 4 - rep
                    try:
                        got = sp._process_kern_pitch(tok)
                    except Exception as e:
                        return False, n, {"input": tok, "what": "raised %s: %s" % (type(e).__name__, e)}
                    if (got[0].upper(), got[1], got[2]) != (letter.upper(), want_oct, alter):
                        return False, n, {"input": tok, "what": "decoded %r, the token denotes %r" % (got, (letter.upper(), want_oct, alter))}
    return True, n, ""


def closed_mei_signatures():
    from partitura.io.importmei import MeiParser
    p = MeiParser.__new__(MeiParser)
    n = 0
    for k in range(-7, 8):
        sig = "0" if k == 0 else ("%ds" % k if k > 0 else "%df" % -k)
        n += 1
        got = p._mei_sig_to_fifths(sig)
        if got != k:
            return False, n, {"input": sig, "what": "fifths %r, expected %r" % (got, k)}
    for dis, place, want in ((None, None, 0), ("8", "below", -1), ("8", "above", 1), ("15", "below", -1), ("15", "above", 1)):
        n += 1
        got = p._compute_clef_octave(dis, place)
        if dis in (None, "8") and got != want:
            return False, n, {"input": (dis, place), "what": "octave change %r, expected %r" % (got, want)}
    for t, want in (({"type": "quarter"}, (4, 0, None)), ({"type": "eighth", "dots": 2}, (8, 2, None)), ({"type": "16th", "actual_notes": 3, "normal_notes": 2}, (16, 0, (2, 3)))):
        n += 1
        got = p._intsymdur_from_symbolic(t)
        if tuple(got) != want:
            return False, n, {"input": t, "what": "%r, expected %r" % (got, want)}
    return True, n, ""


CLOSED = [("kern_pitch_tokens", closed_kern_pitch), ("mei_signatures_clef_displacement_symbolic_values", closed_mei_signatures)]


# ------------------------------------------------------------------------------------------------ bounded
def _q(part, t):
    from gen import oracles as O
    return O._integral(part, 0, t, "quarter")


def loaded_view(score):
    """per part: written notes, rests, tie links, measure starts - in exact quarters"""
    import partitura.score as sc
    out = []
    for p in score.parts:
        notes = list(p.iter_all(sc.Note, include_subclasses=True))
        rows = Counter((n.voice, _q(p, n.start.t), _q(p, n.end.t) - _q(p, n.start.t), n.step.upper(), n.alter or 0, n.octave, n.staff, isinstance(n, sc.GraceNote)) for n in notes)
        rests = Counter((r.voice, _q(p, r.start.t), _q(p, r.end.t) - _q(p, r.start.t)) for r in p.iter_all(sc.Rest))
        key = lambda n: (_q(p, n.start.t), n.step.upper(), n.alter or 0, n.octave)
        ties = Counter((key(n), key(n.tie_next)) for n in notes if n.tie_next is not None)
        out.append({"notes": rows, "rests": rests, "ties": ties, "measure_starts": sorted(_q(p, m.start.t) for m in p.iter_all(sc.Measure)),
                    "measure_names": [m.name for m in sorted(p.iter_all(sc.Measure), key=lambda m: m.start.t)],
                    "ts": sorted((_q(p, o.start.t), o.beats, o.beat_type) for o in p.iter_all(sc.TimeSignature)),
                    "ks": sorted((_q(p, o.start.t), o.fifths) for o in p.iter_all(sc.KeySignature)),
                    "clef": sorted((_q(p, o.start.t), o.sign, o.line) for o in p.iter_all(sc.Clef)),
                    "divs": [int(d) for d in p._quarter_durations], "end": _q(p, p.last_point.t) if p.last_point is not None else None})
    return out


def _expected_view(doc, fmt):
    from gen import notation as NT
    exp = NT.expected(doc)
    out = []
    for st, e in zip(doc.staves, exp):
        notes = e["notes"]
        if fmt == "kern":
            # one spine per staff, one voice per spine
            rows = Counter((1, on, q, s, a or 0, o, stf, g) for (l, on, q, s, a, o, stf, g) in notes)
            rests = Counter((1, on, q) for (l, on, q) in e["rests"])
        else:
            rows = Counter((l, on, q, s, a or 0, o, stf, g) for (l, on, q, s, a, o, stf, g) in notes)
            rests = Counter(e["rests"])
        key = lambda n: (n[1], n[3], n[4] or 0, n[5])
        ties = Counter((key(notes[a]), key(notes[b])) for a, b in e["ties"])
        ts = [(Fraction(0), st.meter[0], st.meter[1])] + [(e["measure_starts"][i], c, u) for i, (c, u) in sorted(doc.staves[0].meter_changes.items())]
        out.append({"notes": rows, "rests": rests, "ties": ties, "measure_starts": list(e["measure_starts"]), "ts": ts, "ks": [(Fraction(0), st.key)] + [(e["measure_starts"][i], k_) for i, k_ in sorted(doc.staves[0].key_changes.items())],
                    "clef": [(Fraction(0), st.clef[0], st.clef[1])], "end": e["end"],
                    "measure_names": [(doc.names[i] if doc.names else str(i + 1)) for i in range(len(st.measures))]})
    return out


def bounded(b):
    import partitura as pt
    import partitura.score as sc
    from gen import notation as NT
    cat = NT.catalogue(b.tier)
    b.rules.append("abstract documents (%d: values 1..16 with 0-3 dots, triplets, quintuplet, chords, ties and tie chains over barlines, grace notes, two staves, "
                   "key/meter/clef, pickup, meter change, extreme octaves and double accidentals, MEI layers and cross-staff notes%s) rendered by independent MEI and "
                   "**kern writers (MEI: attributes as child elements and as staffDef attributes, with and without dur.ppq), loaded through load_score; plus export of "
                   "generated parts to MEI/kern and re-load; non-trivial = all" % (len(cat), ", 40 random documents" if b.tier == "thorough" else ""))
    b.scopes.append("%d documents x {mei (3 encodings), kern}" % len(cat))
    d = tempfile.mkdtemp(prefix="c19_")
    try:
        for name, doc, formats in cat:
            variants = []
            if "mei" in formats:
                variants += [("mei", "children", lambda: NT.to_mei(doc)), ("mei", "attributes", lambda: NT.to_mei(doc, attrs_as_children=False)),
                             ("mei", "dur.ppq", lambda: NT.to_mei(doc, with_ppq=True, ppq=_ppq(doc)))]
                if any(getattr(e_, "tuplet", None) for st_ in doc.staves for ms_ in st_.measures for ly_ in ms_ for e_ in ly_):
                    variants += [("mei", "beams_inside_tuplets", lambda: NT.to_mei(doc, beams="inside_tuplets")), ("mei", "beams_around_tuplets", lambda: NT.to_mei(doc, beams="around_tuplets"))]
            if "kern" in formats:
                variants += [("krn", "kern", lambda: NT.to_kern(doc))]
                if len(doc.staves) > 1:
                    variants += [("krn", "kern_spines_of_one_part", lambda: NT.to_kern(doc, same_part=True))]
            for ext, enc, render in variants:
                case = {"document": name, "format": ext, "encoding": enc}
                ok, text = b.guard("writer/independent_writer", case, render)
                if not ok:
                    b.errors.append("independent %s writer failed on %s" % (ext, name))
                    continue
                fn = os.path.join(d, "%s_%s.%s" % (name, enc.replace(".", "_"), ext))
                open(fn, "w", encoding="utf-8").write(text)
                ok, s = b.guard("load/no_exception_and_reader_chosen_by_extension", case, lambda: pt.load_score(fn))
                if not ok:
                    continue
                fmt = "kern" if ext == "krn" else "mei"
                want = _expected_view(doc, fmt)
                ok, got = b.guard("load/view", case, lambda: loaded_view(s))
                if not ok:
                    continue
                if fmt == "kern":
                    # the kern reader returns the parts in score order (top staff first), the writer emitted the spines bottom-up
                    pass
                if enc == "kern_spines_of_one_part":
                    # the spines carry the same *part: one part holding every staff; the voice numbering across spines is the reader's choice
                    nov = lambda c: Counter({(k[1:]): v for k, v in c.items()})
                    allnotes = Counter()
                    for w in want:
                        allnotes.update(nov(w["notes"]))
                    gotnotes = Counter()
                    for g in got:
                        gotnotes.update(nov(g["notes"]))
                    b.case("load/spines_of_one_part_load_as_one_part", len(got) == 1, case, "%d parts loaded for spines that share *part1" % len(got))
                    b.case("load/notes_pitch_spelling_onset_duration_voice_staff", gotnotes == allnotes, case,
                           "loaded only %r, denoted only %r" % (_fmt(sorted((gotnotes - allnotes).elements(), key=repr)[:3]), _fmt(sorted((allnotes - gotnotes).elements(), key=repr)[:3])))
                    if len(got) == 1:
                        b.case("load/measures_start_at_the_encoded_barlines", got[0]["measure_starts"] == want[0]["measure_starts"], case,
                               "measure starts %r, encoded %r" % (_fmt(got[0]["measure_starts"]), _fmt(want[0]["measure_starts"])))
                        b.case("load/divisions_represent_every_duration", len(got[0]["divs"]) == 1 and all((k[1] * got[0]["divs"][0]).denominator == 1 for k in allnotes), case,
                               "divisions %r" % (got[0]["divs"],))
                    continue
                b.case("load/one_part_per_staff_or_spine", len(got) == len(want), case, "%d parts loaded, %d staves encoded" % (len(got), len(want)))
                if len(got) != len(want):
                    continue
                for i, (g, w) in enumerate(zip(got, want)):
                    c2 = dict(case, staff=i + 1)
                    b.case("load/notes_pitch_spelling_onset_duration_voice_staff", g["notes"] == w["notes"], c2,
                           "loaded only %r, denoted only %r" % (_fmt(sorted((g["notes"] - w["notes"]).elements(), key=repr)[:3]), _fmt(sorted((w["notes"] - g["notes"]).elements(), key=repr)[:3])))
                    b.case("load/rests_onset_duration", g["rests"] == w["rests"], c2,
                           "loaded only %r, denoted only %r" % (_fmt(sorted((g["rests"] - w["rests"]).elements(), key=repr)[:3]), _fmt(sorted((w["rests"] - g["rests"]).elements(), key=repr)[:3])))
                    b.case("load/ties_joined", g["ties"] == w["ties"], c2,
                           "loaded only %r, denoted only %r" % (_fmt(sorted((g["ties"] - w["ties"]).elements(), key=repr)[:3]), _fmt(sorted((w["ties"] - g["ties"]).elements(), key=repr)[:3])))
                    b.case("load/measures_start_at_the_encoded_barlines", g["measure_starts"] == w["measure_starts"], c2,
                           "measure starts %r, encoded %r" % (_fmt(g["measure_starts"]), _fmt(w["measure_starts"])))
                    b.case("load/declared_meter_key_clef", (g["ts"], g["ks"], g["clef"]) == (w["ts"], w["ks"], w["clef"]), c2,
                           "loaded %r, declared %r" % (_fmt((g["ts"], g["ks"], g["clef"])), _fmt((w["ts"], w["ks"], w["clef"]))))
                    b.case("load/divisions_represent_every_duration", len(g["divs"]) == 1 and all((q * g["divs"][0]).denominator == 1 for (_, _, q, *_) in w["notes"]), c2,
                           "divisions %r" % (g["divs"],))
        _export_roundtrip(b, pt, sc, d)
        _dispatch(b, pt, d)
    finally:
        shutil.rmtree(d, ignore_errors=True)


def _ppq(doc):
    from gen import notation as NT
    den = 1
    for st in doc.staves:
        for m in st.measures:
            for layer in m:
                for e in layer:
                    q = e.quarters()
                    den = den * q.denominator // __import__("math").gcd(den, q.denominator)
    return den * 2


def _fmt(v):
    if isinstance(v, Fraction):
        return str(v)
    if isinstance(v, (list, tuple)):
        return type(v)(_fmt(x) for x in v)
    return v


def _tuplet_part():
    """divs 6: a triplet of eighths whose last member is a chord, a triplet starting on a chord, then a half note"""
    from gen import scores as G
    import partitura.score as sc

    def extra(p, byid):
        for a, z in (("t0", "t2"), ("u0", "u2")):
            p.add(sc.Tuplet(byid[a], byid[z], actual_notes=3, normal_notes=2, actual_type="eighth", normal_type="eighth"), byid[a].start.t, byid[z].end.t)
    notes = [("t0", 0, 2, "C", None, 4, 1, 1), ("t1", 2, 2, "D", None, 4, 1, 1), ("t2", 4, 2, "E", None, 4, 1, 1), ("t2c", 4, 2, "G", None, 4, 1, 1),
             ("u0", 6, 2, "F", None, 4, 1, 1), ("u0c", 6, 2, "A", None, 4, 1, 1), ("u1", 8, 2, "G", None, 4, 1, 1), ("u2", 10, 2, "A", None, 4, 1, 1),
             # a siciliana figure inside a triplet bracket: dotted eighth, sixteenth, eighth
             ("s0", 12, 3, "B", None, 4, 1, 1), ("s1", 15, 1, "A", None, 4, 1, 1), ("s2", 16, 2, "G", None, 4, 1, 1), ("q", 18, 6, "C", None, 5, 1, 1)]
    part = G.build_part("P1", 6, notes=notes, clefs=[(0, 1, "G", 2)], key=(2, "major"), measures=[(0, 24)],
                        extra=lambda p, byid: (extra(p, byid), p.add(sc.Tuplet(byid["s0"], byid["s2"], actual_notes=3, normal_notes=2, actual_type="eighth", normal_type="eighth"), 12, 18)))
    for n in part.iter_all(sc.Note):
        if n.id[0] in "tu":
            n.symbolic_duration = dict(type="eighth", actual_notes=3, normal_notes=2)
    byid = {n.id: n for n in part.iter_all(sc.Note)}
    byid["s0"].symbolic_duration = dict(type="eighth", dots=1, actual_notes=3, normal_notes=2)
    byid["s1"].symbolic_duration = dict(type="16th", actual_notes=3, normal_notes=2)
    byid["s2"].symbolic_duration = dict(type="eighth", actual_notes=3, normal_notes=2)
    return part


def _beamed_tuplet_part():
    """divs 6: in each bar a quarter note first, then a beamed triplet of eighths (a beam and a tuplet over the same notes), then more notes"""
    from gen import scores as G
    import partitura.score as sc
    notes = [("q0", 0, 6, "C", None, 4, 1, 1), ("t0", 6, 2, "D", None, 4, 1, 1), ("t1", 8, 2, "E", None, 4, 1, 1), ("t2", 10, 2, "F", None, 4, 1, 1), ("h0", 12, 12, "G", None, 4, 1, 1),
             ("u0", 24, 2, "A", None, 4, 1, 1), ("u1", 26, 2, "B", None, 4, 1, 1), ("u2", 28, 2, "C", None, 5, 1, 1), ("q1", 30, 6, "D", None, 5, 1, 1),
             ("v0", 36, 2, "E", None, 5, 1, 1), ("v1", 38, 2, "D", None, 5, 1, 1), ("v2", 40, 2, "C", None, 5, 1, 1), ("q2", 42, 6, "B", None, 4, 1, 1)]
    part = G.build_part("P1", 6, notes=notes, clefs=[(0, 1, "G", 2)], key=(0, "major"), measures=[(0, 24), (24, 48)])
    byid = {n.id: n for n in part.iter_all(sc.Note)}
    for grp in (("t0", "t1", "t2"), ("u0", "u1", "u2"), ("v0", "v1", "v2")):
        part.add(sc.Tuplet(byid[grp[0]], byid[grp[2]], actual_notes=3, normal_notes=2, actual_type="eighth", normal_type="eighth"), byid[grp[0]].start.t, byid[grp[2]].end.t)
        bm = sc.Beam()
        part.add(bm, byid[grp[0]].start.t)
        for g_ in grp:
            byid[g_].assign_beam(bm)
            byid[g_].symbolic_duration = dict(type="eighth", actual_notes=3, normal_notes=2)
    return part


def _export_roundtrip(b, pt, sc, d):
    from gen import scores as G
    parts = [("plain_4_4", lambda: G.build_part("P1", 4, notes=[("n0", 0, 4, "C", None, 4, 1, 1), ("n1", 4, 4, "E", -1, 4, 1, 1), ("n2", 8, 8, "G", 1, 4, 1, 1), ("n3", 16, 16, "C", None, 5, 1, 1)],
                                                clefs=[(0, 1, "G", 2)], key=(-3, "minor"), measures=[(0, 16), (16, 32)])),
             ("dotted_and_chord", lambda: G.build_part("P1", 4, notes=[("n0", 0, 6, "C", None, 4, 1, 1), ("n1", 6, 2, "D", None, 4, 1, 1), ("n2", 8, 8, "E", None, 4, 1, 1), ("n2c", 8, 8, "G", None, 4, 1, 1),
                                                                       ("n3", 16, 12, "F", 1, 4, 1, 1), ("n4", 28, 4, "A", None, 3, 1, 1)], clefs=[(0, 1, "G", 2)], key=(1, "major"), measures=[(0, 16), (16, 32)])),
             ("dotted_chord_and_ties", lambda: G.build_part("P1", 4, notes=[("n0", 0, 6, "C", None, 4, 1, 1), ("n0c", 0, 6, "E", None, 4, 1, 1), ("n1", 6, 2, "D", None, 4, 1, 1), ("n2", 8, 8, "F", 1, 4, 1, 1),
                                                                              ("n3", 16, 16, "G", None, 4, 1, 1), ("n3t", 32, 4, "G", None, 4, 1, 1), ("n4", 36, 12, "B", -1, 3, 1, 1), ("n4c", 36, 12, "D", None, 4, 1, 1)],
                                                            ties=[("n3", "n3t")], clefs=[(0, 1, "G", 2)], key=(-3, "major"), measures=[(0, 16), (16, 32), (32, 48)])),
             ("triplets_ending_on_a_chord", _tuplet_part),
             ("beamed_triplets_after_other_notes_of_the_bar", _beamed_tuplet_part),
             ("tie_chain_over_two_barlines", lambda: G.build_part("P1", 2, notes=[("a0", 0, 8, "B", None, 3, 1, 1), ("a1", 8, 8, "B", None, 3, 1, 1), ("a2", 16, 4, "B", None, 3, 1, 1), ("a3", 20, 4, "C", 1, 4, 1, 1)],
                                                                  ties=[("a0", "a1"), ("a1", "a2")], clefs=[(0, 1, "G", 2)], key=(2, "major"), measures=[(0, 8), (8, 16), (16, 24)])),
             ("two_staves", lambda: G.build_part("P1", 2, notes=[("n0", 0, 4, "C", None, 5, 1, 1), ("n1", 4, 4, "D", None, 5, 1, 1), ("b0", 0, 8, "C", None, 3, 2, 2)],
                                                 clefs=[(0, 1, "G", 2), (0, 2, "F", 4)], key=(0, "major"), measures=[(0, 8)])),
             # voice numbers that are not the staff numbers: two voices on the upper staff, voice 3 on the lower one
             ("two_voices_on_staff_1_and_voice_3_on_staff_2", lambda: G.build_part("P1", 2, notes=[("n0", 0, 4, "E", None, 5, 1, 1), ("n1", 4, 4, "D", None, 5, 1, 1), ("m0", 0, 8, "G", None, 4, 2, 1),
                                                                                                    ("b0", 0, 4, "C", None, 3, 3, 2), ("b1", 4, 4, "G", None, 2, 3, 2)],
                                                                                   clefs=[(0, 1, "G", 2), (0, 2, "F", 4)], key=(0, "major"), measures=[(0, 8)])),
             # a chord of the second voice that reaches down to the lower staff: its lower note stands on staff 2 (= its voice number)
             ("chord_of_voice_2_across_the_staves", lambda: G.build_part("P1", 2, notes=[("n0", 0, 4, "E", None, 5, 1, 1), ("n1", 4, 4, "D", None, 5, 1, 1), ("c0", 0, 8, "E", None, 4, 2, 1), ("c1", 0, 8, "B", None, 3, 2, 2),
                                                                                         ("b0", 0, 8, "C", None, 2, 3, 2)],
                                                                         clefs=[(0, 1, "G", 2), (0, 2, "F", 4)], key=(0, "major"), measures=[(0, 8)])),
             # a general pause that nobody wrote down: the middle bar holds neither a note nor a rest
             ("a_bar_in_which_nothing_is_played", lambda: G.build_part("P1", 4, notes=[("n0", 0, 8, "C", None, 4, 1, 1), ("n1", 8, 8, "E", None, 4, 1, 1), ("n2", 32, 4, "G", None, 4, 1, 1), ("n3", 36, 12, "C", None, 5, 1, 1)],
                                                                       clefs=[(0, 1, "G", 2)], key=(0, "major"), measures=[(0, 16), (16, 32), (32, 48)])),
             ("a_single_staff_whose_only_voice_is_voice_2", lambda: G.build_part("P1", 2, notes=[("n0", 0, 4, "E", None, 4, 2, 1), ("n1", 4, 4, "D", None, 4, 2, 1)],
                                                                                 clefs=[(0, 1, "G", 2)], key=(0, "major"), measures=[(0, 8)]))]
    for name, mk in parts:
        for ext, save in (("mei", pt.save_mei), ("krn", __import__("partitura.io.exportkern", fromlist=["save_kern"]).save_kern)):
            case = {"part": name, "export": ext}
            if name == "a_bar_in_which_nothing_is_played" and ext == "mei":
                # the MEI writer does not accept a measure without a note or rest (it raises): such a part is not among "the parts
                # exportable by the writer" the statement quantifies over; the kern writer accepts it
                continue
            part = mk()
            for n in part.iter_all(sc.GenericNote, include_subclasses=True):
                if n.symbolic_duration is None:
                    from partitura.utils.music import estimate_symbolic_duration
                    n.symbolic_duration = estimate_symbolic_duration(n.end.t - n.start.t, int(part._quarter_durations[0]))
            fn = os.path.join(d, "exp_%s.%s" % (name, ext))
            ok, _ = b.guard("export/no_exception", case, lambda: save(part, fn))
            if not ok:
                continue
            ok, s2 = b.guard("export/reload_no_exception", case, lambda: pt.load_score(fn))
            if not ok:
                continue
            want = Counter((_q(part, n.start.t), _q(part, n.end.t) - _q(part, n.start.t), n.midi_pitch, n.staff) for n in part.iter_all(sc.Note, include_subclasses=True))
            got = Counter((_q(p, n.start.t), _q(p, n.end.t) - _q(p, n.start.t), n.midi_pitch, n.staff) for p in s2.parts for n in p.iter_all(sc.Note, include_subclasses=True))
            b.case("export/reload_keeps_onset_duration_pitch_staff", got == want, case,
                   "re-loaded only %r, exported only %r" % (_fmt(sorted((got - want).elements())[:3]), _fmt(sorted((want - got).elements())[:3])))
            # ... and, for kern, the SOUNDING notes (a tie chain is one note, however many note heads it is written with).  The MEI writer
            # records ties as @tie attributes, which the MEI reader does not read (it reads <tie> elements): there the note heads come back
            # untied, which the clause above (note heads) accepts and DESIGN.md records as examined and left alone
            if ext != "krn":
                continue
            from gen import oracles as O
            snd = lambda p_: Counter((_q(p_, on), _q(p_, on + du) - _q(p_, on), pit) for (on, du, pit, _) in O.sounding_notes(p_))
            want_s, got_s = snd(part), sum((snd(p_) for p_ in s2.parts), Counter())
            b.case("export/reload_keeps_onset_duration_pitch_staff", got_s == want_s, dict(case, notes="sounding (tie chains joined)"),
                   "sounding notes re-loaded only %r, exported only %r" % (_fmt(sorted((got_s - want_s).elements())[:3]), _fmt(sorted((want_s - got_s).elements())[:3])))


def _dispatch(b, pt, d):
    """the reader is chosen from the extension, in any letter case"""
    from gen import notation as NT
    doc = NT.catalogue("quick")[0][1]
    for ext, text in ((".MEI", NT.to_mei(doc)), (".Krn", NT.to_kern(doc)), (".kern", NT.to_kern(doc))):
        fn = os.path.join(d, "dispatch" + ext)
        open(fn, "w").write(text)
        case = {"extension": ext}
        ok, s = b.guard("dispatch/reader_from_extension", case, lambda: pt.load_score(fn))
        if ok:
            b.case("dispatch/reader_from_extension", len(s.parts) == 1 and len(s.parts[0].notes) == 4, case, "loaded %d parts" % len(s.parts))
