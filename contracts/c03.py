"""C03 - MusicXML: load(save(s)) = s, the written file denotes the sounding notes, save(load(file)) = file.

P: the exporter's pure bookkeeping kernels (forward_backup_if_needed, find_free_voice) under SMT contract.
B: the round trip runs through lxml in both directions; it is stated as executable contracts and evaluated on a feature lattice of
scores built through the public API (gen/xmlscores.py) and on the fixture files; the written text is additionally read by an
independent 80-line MusicXML interpreter (xml.etree; divisions, backup/forward, chord, tie, grace) written from the MusicXML position
semantics."""
import copy
import io
import os
from collections import Counter
from fractions import Fraction

LEVEL = "other"
MANIFEST = {
    "level": "other",
    "technique": "contract-based deductive verification (AST->SMT, z3) of the exporter's kernels forward_backup_if_needed, find_free_voice and add_chord_tags; the file-level round trip (lxml, 3000 lines) is outside the verifier's reach and is checked as run-time contracts (bounded): load(save(s)) = s clause by clause, an independent MusicXML interpreter on the written text, and byte-wise save(load(file)) = file, on a feature lattice of generated scores and the fixture files",
    "text": "Proved for all integer inputs: forward_backup_if_needed emits exactly one forward of t - t_prev / one backup of t_prev - t / nothing and reports that gap; find_free_voice returns the smallest voice above the minimum and above every span overlapping [start, end) (1-4 spans); add_chord_tags marks exactly the elements that share onset and duration with the preceding non-grace element (1-3 elements). Bounded: every clause of the round trip on generated scores (each notational feature alone, rich combinations, all pairs in thorough) and fixtures.",
    "note": "round trip bounded only; lxml element construction abstracted in the kernel proofs (etree calls are opaque constructors)",
}
EXPLANATION = "SMT contracts on exporter kernels + bounded run-time round-trip contracts."


# ------------------------------------------------------------------------------------------------ P kernels
def _contracts():
    from pyv.contracts import Contract, Int, ListOf, TupleOf
    import partitura.io.exportmusicxml as X
    out = []

    def fb_ens(a, r):
        from pyv.interp import text_of, SymText
        res, gap = r
        t, tp = a.t, a.t_prev
        n = len(res)
        if n == 0:
            return (t == tp) & (gap == 0)
        if n != 1:
            return False
        e = res[0]
        el = e[2]
        txt = text_of(el.find("duration"))
        written = txt.value if isinstance(txt, SymText) else None
        if written is None or el.tag not in ("forward", "backup"):
            return False
        fwd = el.tag == "forward"
        # one element, anchored at the old cursor, moving it by exactly t - t_prev; the written <duration> is the size of the move
        return (e[0] == tp) & (gap > 0) & (written == gap) & (((t > tp) & (gap == t - tp) & (e[1] == gap)) if fwd else ((t < tp) & (gap == tp - t) & (e[1] == -gap)))
    out.append(Contract("C03", "partitura.io.exportmusicxml.forward_backup_if_needed", [("t", Int()), ("t_prev", Int())],
                        ensures=[("one_move_of_the_exact_gap_with_that_duration_written", fb_ens)], name="forward_backup_if_needed"))

    def ffv_ens(a, r):
        spans = a.voice_spans
        res = True
        for (vs, ve, v) in spans:
            overl = (a.end > vs) & (a.start < ve)
            res = res & ((~overl) | (r > v))
        # above the minimum voice: r > v for some v that is <= all others
        anymin = False
        for (vs, ve, v) in spans:
            ismin = True
            for (_, _, w) in spans:
                ismin = ismin & (v <= w)
            anymin = anymin | (ismin & (r > v))
        # and not larger than needed: r - 1 is the minimum voice or the voice of an overlapping span
        tight = False
        for (vs, ve, v) in spans:
            ismin = True
            for (_, _, w) in spans:
                ismin = ismin & (v <= w)
            overl = (a.end > vs) & (a.start < ve)
            tight = tight | ((ismin | overl) & (r == v + 1))
        return res & anymin & tight
    for n in (1, 2, 3, 4):
        out.append(Contract("C03", "partitura.io.exportmusicxml.find_free_voice",
                            [("voice_spans", ListOf(TupleOf(Int(), Int(), Int()), n)), ("start", Int()), ("end", Int())],
                            ensures=[("above_the_minimum_and_every_overlapping_span_and_tight", ffv_ens)], name="find_free_voice[%d spans]" % n))

    # add_chord_tags: element k carries <chord/> iff the element before it is not a grace note and has the same onset and duration
    # (the reader places a chord note at the onset, and gives it the duration, of the note element before it)
    import itertools
    from pyv.contracts import Enum

    def act_call(ip, fobj, a):
        from lxml import etree
        notes = []
        for k, kind in enumerate(a.kinds):
            e = etree.Element("note")
            if kind == "grace":
                etree.SubElement(e, "grace")
            etree.SubElement(e, "pitch")
            notes.append((a.times[k][0], a.times[k][1], e))
        if ip is None:
            fobj(notes)
        else:
            ip.call(fobj, [notes], {})
        return notes

    def act_ens(a, r):
        ok = True
        for k, (on, du, e) in enumerate(r):
            has = len(e) > 0 and e[0].tag == "chord"
            n_chord = sum(1 for c in e if c.tag == "chord")
            if k == 0 or a.kinds[k - 1] == "grace":
                want = False
            else:
                want = (on == r[k - 1][0]) & (du == r[k - 1][1])
            ok = ok & (want if has else ~want if not isinstance(want, bool) else (not want)) & (n_chord == (1 if has else 0))
        return ok
    for n in (1, 2, 3):
        out.append(Contract("C03", "partitura.io.exportmusicxml.add_chord_tags",
                            [("kinds", Enum(list(itertools.product(("note", "grace"), repeat=n)))), ("times", ListOf(TupleOf(Int(), Int()), n))],
                            call=act_call, ensures=[("chord_tag_iff_same_onset_and_duration_as_the_preceding_non_grace_element", act_ens)],
                            name="add_chord_tags[%d elements]" % n))
    return out


try:
    CONTRACTS = _contracts()
except Exception:  # the engine reports construction errors as checker errors
    raise


# ------------------------------------------------------------------------------------------------ views
def _alter(a):
    return None if a in (0, None) else a


def _symd(d):
    d = dict(d or {})
    if not d.get("dots"):
        d.pop("dots", None)
    return tuple(sorted((k, v) for k, v in d.items() if v is not None))


def _srt(xs):
    return sorted(xs, key=repr)



_UNIT_QUARTERS = {"long": 16, "breve": 8, "whole": 4, "half": 2, "h": 2, "quarter": 1, "q": 1, "eighth": 0.5, "e": 0.5, "16th": 0.25, "32nd": 0.125, "64th": 0.0625}


def _quarters_per_minute(unit, bpm):
    """a metronome mark in whole quarters per minute: the unit's length in quarters, each dot adding half of what the previous one
    added (1, 1.5, 1.75, 1.875), times the number (own arithmetic, not the library's conversion)"""
    dots = unit.count(".")
    return int(bpm * _UNIT_QUARTERS[unit.strip().rstrip(".")] * (2 - 0.5 ** dots))


def view(score):
    """clause name -> canonical data, from the score objects only"""
    import partitura.score as sc
    v = {k: [] for k in ("parts_and_groups", "measures_number_name_extent", "divisions", "time_signatures_key_signatures_clefs",
                         "notes_rests_id_onset_duration_spelling_voice_staff", "symbolic_durations", "tie_links", "grace_notes",
                         "articulations_fingering_stem_fermata", "slurs_and_tuplets", "dynamics_wedges_words", "tempo_marks",
                         "repeats_endings_barline_fermatas")}

    def grp(g):
        if isinstance(g, sc.PartGroup):
            return ("group", g.group_symbol, g.group_name, [grp(c) for c in g.children])
        return ("part", g.id, g.part_name, getattr(g, "part_abbreviation", None))
    v["parts_and_groups"] = [grp(g) for g in score.part_structure]
    for p in score.parts:
        pid = p.id
        v["measures_number_name_extent"].append((pid, [(m.number, m.name, m.start.t, m.end.t) for m in p.iter_all(sc.Measure)]))
        v["divisions"].append((pid, [(int(t), int(q)) for t, q in zip(p._quarter_times, p._quarter_durations)]))
        v["time_signatures_key_signatures_clefs"].append((pid, _srt((o.start.t, o.beats, o.beat_type) for o in p.iter_all(sc.TimeSignature)),
                                                          _srt((o.start.t, o.fifths, o.mode) for o in p.iter_all(sc.KeySignature)),
                                                          _srt((o.start.t, o.staff, o.sign, o.line, o.octave_change or 0) for o in p.iter_all(sc.Clef))))
        notes = list(p.iter_all(sc.GenericNote, include_subclasses=True))
        v["notes_rests_id_onset_duration_spelling_voice_staff"].append((pid, _srt(
            (n.id or "", type(n).__name__, n.start.t, n.end.t - n.start.t, getattr(n, "step", None), _alter(getattr(n, "alter", None)), getattr(n, "octave", None),
             n.voice, n.staff) for n in notes)))
        v["symbolic_durations"].append((pid, _srt((n.id or "", _symd(n.symbolic_duration)) for n in notes)))
        v["tie_links"].append((pid, _srt((n.id or "", n.tie_prev.id if n.tie_prev is not None else None, n.tie_next.id if n.tie_next is not None else None) for n in notes)))
        v["grace_notes"].append((pid, _srt((n.id, n.grace_type, n.grace_prev.id if n.grace_prev is not None else None, n.grace_next.id if n.grace_next is not None else None)
                                             for n in notes if isinstance(n, sc.GraceNote))))
        v["articulations_fingering_stem_fermata"].append((pid, _srt(
            (n.id or "", tuple(_srt(n.articulations or ())), tuple((t.fingering) for t in (n.technical or ()) if isinstance(t, sc.Fingering)), n.stem_direction,
             n.fermata is not None, getattr(n, "notehead", None)) for n in notes)))
        v["slurs_and_tuplets"].append((pid, _srt((o.start_note.id if o.start_note is not None else None, o.end_note.id if o.end_note is not None else None,
                                                    o.start.t if o.start is not None else None, o.end.t if o.end is not None else None) for o in p.iter_all(sc.Slur)),
                                       _srt((o.start_note.id if o.start_note is not None else None, o.end_note.id if o.end_note is not None else None,
                                               o.actual_notes, o.normal_notes, o.actual_type, o.normal_type,
                                               o.start.t if o.start is not None else None, o.end.t if o.end is not None else None) for o in p.iter_all(sc.Tuplet))))
        v["dynamics_wedges_words"].append((pid, _srt(
            (type(o).__name__, o.text, o.start.t, o.end.t if o.end is not None else None, o.staff, bool(getattr(o, "wedge", False)), getattr(o, "raw_text", None) or o.text)
            for o in p.iter_all(sc.Direction, include_subclasses=True)) + _srt(("Words", o.text, o.start.t, None, o.staff, False, o.text) for o in p.iter_all(sc.Words))))
        v["tempo_marks"].append((pid, _srt((o.start.t, _quarters_per_minute(o.unit or "q", o.bpm)) for o in p.iter_all(sc.Tempo))))
        v["repeats_endings_barline_fermatas"].append((pid, _srt((o.start.t if o.start is not None else None, o.end.t if o.end is not None else None) for o in p.iter_all(sc.Repeat)),
                                                      _srt((o.number, o.start.t if o.start is not None else None, o.end.t if o.end is not None else None) for o in p.iter_all(sc.Ending)),
                                                      _srt((o.start.t, o.ref) for o in p.iter_all(sc.Fermata) if not isinstance(o.ref, sc.GenericNote))))
    return v


def has_voice_polyphony(score):
    """True iff a voice of a part holds simultaneous notes of unequal duration or a note sounding over the next onset of its own voice:
    MusicXML cannot express that inside one voice, the exporter moves such notes to a free voice (documented), so voices may differ"""
    import partitura.score as sc
    for p in score.parts:
        byv = {}
        for n in p.iter_all(sc.GenericNote, include_subclasses=True):
            if isinstance(n, sc.GraceNote):
                continue
            byv.setdefault(n.voice, []).append((n.start.t, n.end.t))
        for spans in byv.values():
            spans.sort()
            for (a0, a1), (b0, b1) in zip(spans, spans[1:]):
                if (a0 == b0 and a1 != b1) or (a0 < b0 < a1):
                    return True
            ons = sorted(set(s for s, _ in spans))
            for (a0, a1) in spans:
                if any(a0 < o < a1 for o in ons):
                    return True
    return False


# ------------------------------------------------------------------------------------------------ independent reader
STEP = {"C": 0, "D": 2, "E": 4, "F": 5, "G": 7, "A": 9, "B": 11}


def denote(xml_bytes):
    """sounding notes (part id, onset in quarters, duration in quarters, MIDI pitch) and measure extents denoted by a partwise MusicXML
    text: divisions in force, notes advance the cursor unless <chord/>, grace notes take no time, backup/forward move the cursor, a
    measure ends at the furthest position reached, tied notes of one pitch are joined."""
    import xml.etree.ElementTree as ET
    root = ET.fromstring(xml_bytes)
    out, extents = [], []
    for part in root.findall("part"):
        pid = part.get("id")
        div = Fraction(1)
        pos = Fraction(0)
        notes = []  # [onset, dur, pitch, tie_start, tie_stop]
        last_onset = None
        for meas in part.findall("measure"):
            start = pos
            far = pos
            for e in meas:
                if e.tag == "attributes":
                    d = e.find("divisions")
                    if d is not None:
                        div = Fraction(int(d.text))
                elif e.tag == "backup":
                    pos -= Fraction(int(e.find("duration").text)) / div
                elif e.tag == "forward":
                    pos += Fraction(int(e.find("duration").text)) / div
                    far = max(far, pos)
                elif e.tag == "note":
                    grace = e.find("grace") is not None
                    dur = Fraction(0) if grace else Fraction(int(e.find("duration").text)) / div
                    chord = e.find("chord") is not None
                    onset = last_onset if chord else pos
                    p = e.find("pitch")
                    if p is not None:
                        alter = p.find("alter")
                        midi = 12 * (int(p.find("octave").text) + 1) + STEP[p.find("step").text] + (int(alter.text) if alter is not None else 0)
                        ties = {t.get("type") for t in e.findall("tie")}
                        notes.append([onset, dur, midi, "start" in ties, "stop" in ties, grace])
                    if not chord and not grace:
                        last_onset = pos
                        pos += dur
                        far = max(far, pos)
                    elif grace and not chord:
                        last_onset = pos
            extents.append((pid, meas.get("number"), start, far))
            pos = far
        # join ties
        notes.sort(key=lambda n: (n[0], n[2]))
        used = [False] * len(notes)
        for i, n in enumerate(notes):
            if used[i] or n[4]:
                continue
            on, dur, midi, tstart = n[0], n[1], n[2], n[3]
            end = on + dur
            while tstart:
                nxt = next((j for j, m in enumerate(notes) if not used[j] and j != i and m[4] and m[2] == midi and m[0] == end), None)
                if nxt is None:
                    break
                used[nxt] = True
                end = notes[nxt][0] + notes[nxt][1]
                tstart = notes[nxt][3]
            out.append((pid, on, end - on, midi))
        for i, n in enumerate(notes):
            if n[4] and not used[i]:
                out.append((pid, n[0], n[1], n[2]))  # a stop without a start stands alone
    return Counter(out), extents


def sounding(score):
    from gen import oracles as O
    out = []
    for p in score.parts:
        for (t, d, midi, n) in O.sounding_notes(p):
            out.append((p.id, O._integral(p, 0, t, "quarter"), O._integral(p, t, t + d, "quarter"), midi))
    return Counter(out)


def extents(score):
    import partitura.score as sc
    from gen import oracles as O
    return [(p.id, m.name, O._integral(p, 0, m.start.t, "quarter"), O._integral(p, 0, m.end.t, "quarter")) for p in score.parts for m in p.iter_all(sc.Measure)]


# ------------------------------------------------------------------------------------------------ bounded
def _save(pt, s):
    buf = io.BytesIO()
    pt.save_musicxml(s, buf)
    return buf.getvalue()


def _load(pt, data):
    return pt.load_musicxml(io.BytesIO(data))


PRINT_LINE = b'<print new-page="yes" new-system="yes"/>'


def _only_implicit_first_page(f1, f2):
    """f2 is f1 plus one '<print new-page="yes" new-system="yes"/>' line in the first measure of a part, and nothing else"""
    a, b = f1.splitlines(), f2.splitlines()
    if len(b) <= len(a):
        return False
    extra = []
    i = 0
    for line in b:
        if i < len(a) and a[i] == line:
            i += 1
        else:
            extra.append(line)
    return i == len(a) and len(extra) > 0 and all(x.strip() == PRINT_LINE for x in extra)


def bounded(b):
    import partitura as pt
    import partitura.score as sc
    from gen import scores as G
    from gen import xmlscores as XS
    cat = XS.catalogue(b.tier)
    b.rules.append("scores built through the public API from a lattice of %d notational features (each alone, 5 rich combinations%s): contracts on "
                   "save_musicxml/load_musicxml clause by clause; independent MusicXML reader on the written text; byte fixpoint over two further "
                   "save/load generations; plus the MusicXML fixture files; non-trivial = the feature is present in the written text"
                   % (len(XS.FEATURES), ", all pairs" if b.tier == "thorough" else ""))
    b.scopes.append("%d generated scores (3-4 measures, <= 3 parts, <= 2 staves, <= 3 voices) + fixture files" % len(cat))
    for name, feats in cat:
        case = {"score": name, "features": list(feats)}
        ok, s = b.guard("xml/score_builder", case, lambda: XS.score(feats))
        if not ok:
            continue
        _roundtrip(b, pt, sc, G, s, case, generated=True)
    base = os.path.join(os.path.dirname(pt.__file__), "..", "tests", "data", "musicxml")
    files = sorted(f for f in os.listdir(base) if f.endswith((".xml", ".musicxml")))
    if b.tier == "quick":
        files = files[::3]
    for fn in files:
        case = {"fixture": fn}
        try:
            s = pt.load_musicxml(os.path.join(base, fn))
        except Exception:
            continue  # reading foreign files is not the property
        _roundtrip(b, pt, sc, G, s, case, generated=False)


def _crosses_divisions_change(s):
    import partitura.score as sc
    for p in s.parts:
        cuts = [int(t) for t in p._quarter_times[1:]]
        for n in p.iter_all(sc.GenericNote, include_subclasses=True):
            if any(n.start.t < t < n.end.t for t in cuts):
                return True
    return False


def _degenerate(s):
    import partitura.score as sc
    for p in s.parts:
        ts = [o.start.t for o in p.iter_all(sc.TimeSignature)]
        if len(ts) != len(set(ts)):
            return True
        if any(o.end is not None and o.end.t == o.start.t for o in p.iter_all(sc.DynamicDirection, include_subclasses=True)):
            return True
    return False


def _inner_barline_fermata(s):
    import partitura.score as sc
    for p in s.parts:
        for o in p.iter_all(sc.Fermata):
            if o.ref in (None, "right") and len(o.start.starting_objects.get(sc.Measure, [])) > 0 and len(o.start.ending_objects.get(sc.Measure, [])) > 0:
                return True
    return False


def _only_articulation_order(f1, f2):
    """the files differ only in the order of the children of <articulations> elements (and the implicit first page line)"""
    import re
    norm = lambda f: re.sub(rb"<articulations>(.*?)</articulations>", lambda m: b"<articulations>" + b"".join(sorted(m.group(1).split())) + b"</articulations>", f, flags=re.S)
    g1, g2 = norm(f1), norm(f2)
    return f1 != f2 and (g1 == g2 or _only_implicit_first_page(g1, g2))


def _roundtrip(b, pt, sc, G, s, case, generated):
    if _crosses_divisions_change(s):
        case = dict(case, a_note_sounds_across_a_change_of_divisions=True)
    if _degenerate(s):
        case = dict(case, two_time_signatures_at_one_time_or_a_zero_length_wedge=True)
    if _inner_barline_fermata(s):
        case = dict(case, a_fermata_stands_on_the_barline_between_two_measures=True)
    fp_before = G.fingerprint(s)
    ok, f1 = b.guard("xml/save_no_exception", case, lambda: _save(pt, s))
    if not ok:
        return
    b.case("xml/score_untouched_by_export", G.fingerprint(s) == fp_before, case, "save_musicxml modified the score it was given")
    ok, s2 = b.guard("xml/load_no_exception", case, lambda: _load(pt, f1))
    if not ok:
        return
    poly = has_voice_polyphony(s)
    if generated:
        v1, v2 = view(s), view(s2)
        for clause in v1:
            a, c = v1[clause], v2[clause]
            if poly and clause == "notes_rests_id_onset_duration_spelling_voice_staff":
                strip = lambda parts: [(pid, [x[:7] + x[8:] for x in rows]) for pid, rows in parts]
                a, c = strip(a), strip(c)
            if clause == "notes_rests_id_onset_duration_spelling_voice_staff" and "duplicate_ids" in case.get("features", ()):
                continue  # ids are made unique on export (documented); the remaining clauses still apply through the ids that are unique
            if "duplicate_ids" in case.get("features", ()) and clause in ("symbolic_durations", "tie_links", "articulations_fingering_stem_fermata", "slurs_and_tuplets"):
                continue
            if clause == "dynamics_wedges_words":
                # a direction saved without an end: the loader derives one (up to the next direction of its kind; documented in
                # _set_end_times), so only ends that were saved are compared
                open_ended = {(pid, r[:3]) for pid, rows in a for r in rows if r[3] is None}
                c = [(pid, sorted(((r[:3] + (None,) + r[4:]) if (pid, r[:3]) in open_ended else r for r in rows), key=repr)) for pid, rows in c]
                a = [(pid, sorted(rows, key=repr)) for pid, rows in a]
                c = [(pid, sorted(rows, key=repr)) for pid, rows in c]
            ccase = case
            if clause == "dynamics_wedges_words" and a != c:
                no_words = [(pid, [r for r in rows if r[0] != "Words"]) for pid, rows in a]
                if no_words == c:
                    ccase = dict(case, only_the_Words_objects_are_missing_after_loading=True)
            if clause == "repeats_endings_barline_fermatas" and a != c:
                twice = []
                for (pid, rep, end, ferm), p in zip(a, s.parts):
                    extra = [(t, "left") for (t, ref) in ferm if ref in (None, "right") and p.get_point(t) is not None
                             and len(p.get_point(t).starting_objects.get(sc.Measure, [])) > 0 and len(p.get_point(t).ending_objects.get(sc.Measure, [])) > 0]
                    twice.append((pid, rep, end, sorted(ferm + extra, key=repr)))
                if twice == [(pid, rep, end, sorted(ferm, key=repr)) for (pid, rep, end, ferm) in c]:
                    ccase = dict(case, only_difference_is_a_fermata_on_the_barline_between_two_measures_read_twice=True)
            b.case("xml/same_" + clause, a == c, ccase, _first_difference(a, c))
    if generated:
        # a constant direction saved without an end ends, after loading, where the next direction of its family starts (all directions
        # that start together end together), the last ones at the end of the part - the documented rule of set_end_times
        fams = (sc.ConstantLoudnessDirection, sc.ConstantTempoDirection, sc.ConstantArticulationDirection)
        bad = None
        for p1, p2 in zip(s.parts, s2.parts):
            for fam in fams:
                saved = sorted(p1.iter_all(fam, include_subclasses=True), key=lambda d: d.start.t)
                loaded = list(p2.iter_all(fam, include_subclasses=True))
                starts = sorted({d.start.t for d in saved})
                for d in saved:
                    if d.end is not None:
                        continue
                    later = [t for t in starts if t > d.start.t]
                    want_end = later[0] if later else p2.last_point.t
                    twins = [x for x in loaded if type(x) is type(d) and x.text == d.text and x.start.t == d.start.t and x.staff == d.staff]
                    if twins and not any(x.end is not None and x.end.t == want_end for x in twins):
                        bad = bad or "%s %r at %d (staff %r) loaded with end %r, the next direction of its family starts at %r" % (
                            type(d).__name__, d.text, d.start.t, d.staff, [x.end.t if x.end is not None else None for x in twins], want_end)
        b.case("xml/open_ended_directions_end_at_the_next_of_their_family", bad is None, case, bad or "")
    # independent reader
    ok, den = b.guard("xml/independent_reader", case, lambda: denote(f1))
    if ok:
        got, ext = den
        want = sounding(s)
        b.case("xml/written_file_denotes_the_sounding_notes", got == want, case,
               "file denotes %r, score sounds %r" % (sorted((got - want).elements())[:4], sorted((want - got).elements())[:4]))
        if generated:
            wext = extents(s)
            b.case("xml/written_file_denotes_the_measure_extents", [(p, a, z) for p, _, a, z in ext] == [(p, a, z) for p, _, a, z in wext], case,
                   "measure extents read %r, score %r" % ([(str(a), str(z)) for _, _, a, z in ext][:5], [(str(a), str(z)) for _, _, a, z in wext][:5]))
    # byte fixpoint
    ok, f2 = b.guard("xml/resave_no_exception", case, lambda: _save(pt, s2))
    if not ok:
        return
    same = f2 == f1
    if not same and _only_implicit_first_page(f1, f2):
        case = dict(case, only_difference_is_the_print_line_of_the_implicit_first_page=True)
    elif not same and _only_articulation_order(f1, f2):
        case = dict(case, only_difference_is_the_order_of_the_articulations_of_a_note=True)
    b.case("xml/load_then_save_reproduces_the_file_byte_for_byte", same, case, _byte_difference(f1, f2))
    ok, s3 = b.guard("xml/load_no_exception", case, lambda: _load(pt, f2))
    if ok:
        ok, f3 = b.guard("xml/resave_no_exception", case, lambda: _save(pt, s3))
        if ok:
            case3 = {k: v for k, v in case.items() if not k.startswith("only_difference_is_the_")}
            b.case("xml/second_generation_load_then_save_reproduces_the_file", f3 == f2, case3, _byte_difference(f2, f3))


def _first_difference(a, c):
    if a == c:
        return ""
    for (x, y) in zip(a, c):
        if x != y:
            if isinstance(x, tuple) and isinstance(y, tuple):
                for (u, w) in zip(x, y):
                    if u != w:
                        if isinstance(u, list) and isinstance(w, list):
                            only_a = [i for i in u if i not in w][:3]
                            only_c = [i for i in w if i not in u][:3]
                            return "saved %r, loaded %r" % (only_a, only_c)
                        return "saved %r, loaded %r" % (u, w)
            return "saved %r, loaded %r" % (x, y)
    return "saved %r, loaded %r" % (a, c)


def _byte_difference(f1, f2):
    if f1 == f2:
        return ""
    import difflib
    d = [l for l in difflib.unified_diff(f1.decode("utf8", "replace").splitlines(), f2.decode("utf8", "replace").splitlines(), lineterm="", n=0) if not l.startswith(("---", "+++", "@@"))]
    return "files differ: %r" % d[:6]
