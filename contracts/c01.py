"""C01 - a part is a consistent time-ordered collection under any edit history.

Representation invariant wf(part) and whole-view contracts on the timeline operations, discharged by SMT over a heap
model (one z3 array per TimePoint field, the point array and the quarter lists as symbolic-length sequences).  The
history quantifier is reached by induction: Part() establishes wf, every operation requires and re-establishes it.
"""
import itertools

import z3

from pyv import sym
from pyv.contracts import Contract, Spec, Int, Enum, Opt, NS
from pyv.loops import LoopSpec
from pyv.seq import Heap, Ref, SymSeq
from pyv.sym import SymInt, SymBool, implies, ite, mkbool, sand, snot, sor, zb, zint
from .c01_views import NativeState, SymState

LEVEL = "proof"


def _sc():
    import partitura.score as sc
    return sc


# ------------------------------------------------------------------------------------------------ symbolic part
class QMap:
    __pyv_symbolic__ = True
    """stands for Part._quarter_map (a scipy interp1d(kind='previous') object): TRUSTED to be the step function through
    (_quarter_times, _quarter_durations) as they were when it was built (Part.quarter_duration_map)"""

    def __init__(self, name="Qf"):
        self.Qf = z3.Function(sym.fresh_name(name), z3.IntSort(), z3.IntSort())

    def __pyv_call__(self, ip, args, kw):
        ip.used_trusted.add("scipy interp1d(kind='previous', fill_value=(y[0], y[-1])): step function through the sorted knots")
        return SymInt(self.Qf(zint(args[0])))


def step_function_axioms(Qf, m, QT, QD):
    """trusted contract of interp1d(kind='previous', fill_value=(y[0], y[-1])) over sorted knots, in the form scipy
    computes it: Qf(u) = y[seg(u)] with seg(u) = searchsorted(x, u, side='right') - 1 (the last knot at or before u),
    and y[0] before the first knot.  seg is a ghost function; its characterisation is searchsorted's contract."""
    u = z3.Int("u")
    seg = z3.Function(sym.fresh_name("seg"), z3.IntSort(), z3.IntSort())
    s = seg(u)
    return [
        z3.ForAll([u], z3.Implies(z3.And(m > 0, u >= z3.Select(QT, 0)),
                                  z3.And(0 <= s, s < m, z3.Select(QT, s) <= u, z3.Implies(s + 1 < m, u < z3.Select(QT, s + 1)),
                                         Qf(u) == z3.Select(QD, s))), patterns=[Qf(u)]),
        z3.ForAll([u], z3.Implies(z3.And(m > 0, u < z3.Select(QT, 0)), Qf(u) == z3.Select(QD, 0)), patterns=[Qf(u)]),
    ]


class PartSpec(Spec):
    def sym(self, name, ip):
        sc = _sc()
        heap = Heap(ip.eng, {sc.TimePoint: {"t": "int", "quarter": "optint", "prev": "ref", "next": "ref",
                                            "starting_objects": "py", "ending_objects": "py"}})
        ip.heap = heap
        pts = SymSeq.fresh("P", sc.TimePoint, ip.eng, heap, key_field="t")
        qt = SymSeq.fresh("QT", "int", ip.eng, mutable=True, kind="list")
        qd = SymSeq.fresh("QD", "int", ip.eng, mutable=True, kind="list")
        part = ip.new_symobj(sc.Part, id="P0", _points=pts, _quarter_times=qt, _quarter_durations=qd, _quarter_map=QMap(),
                             _number_of_staves=None, _use_musical_beat=False)
        return part

    def describe(self):
        return "Part with symbolic timeline (any number of points)"


class NewPointSpec(Spec):
    """a TimePoint not (yet) on the timeline"""

    def __init__(self, quarter_synced=True):
        self.quarter_synced = quarter_synced

    def sym(self, name, ip):
        sc = _sc()
        heap = ip.heap
        r = heap.new(sc.TimePoint)
        t = z3.Int(name + ".t")
        q = z3.Int(name + ".quarter")
        heap.store(r, "t", SymInt(t), ip)
        heap.store(r, "quarter", SymInt(q), ip)
        heap.store(r, "prev", None, ip)
        heap.store(r, "next", None, ip)
        return r


class MemberPointSpec(Spec):
    """a TimePoint that is on the timeline (at ghost index <name>#idx)"""

    def sym(self, name, ip):
        sc = _sc()
        return ("member", z3.Int(name + "#idx"))


def state(part, ip_or_none=None):
    if isinstance(part.__dict__.get("_points"), SymSeq):
        return SymState(part, sym._engine_heap())
    return NativeState(part)


def _heap_of_engine():
    return _CUR["heap"]


_CUR = {}
sym._engine_heap = lambda: _CUR["heap"]


def setup(a, ip):
    _CUR["heap"] = ip.heap
    # ghost: resolve member points
    for k, v in list(a.__dict__.items()):
        if isinstance(v, tuple) and v and v[0] == "member":
            idx = v[1]
            pts = a.self.__dict__["_points"]
            ip.eng.assume(z3.And(0 <= idx, idx < pts.n))
            setattr(a, k, Ref(z3.Select(pts.arr, idx), _sc().TimePoint, ip.heap))
            setattr(a, k + "_idx", SymInt(idx))
    S = state(a.self)
    # Qf is in sync with the lists (established by Part.__init__/set_quarter_duration; trusted interp1d contract)
    for ax in step_function_axioms(S.Qf, zint(S.m), S.QT, S.QD):
        ip.eng.assume(ax)


# ------------------------------------------------------------------------------------------------ wf
def wf(S):
    """representation invariant, as named conjuncts (each is proved separately)"""
    inr = lambda j: sand(0 <= j, j < S.n)
    out = [
        ("points_allocated", S.forall(lambda j: implies(inr(j), S.allocated(S.pt(j))))),
        ("times_non_negative", S.forall(lambda j: implies(inr(j), S.t(S.pt(j)) >= 0))),
        ("times_strictly_increasing", S.forall(lambda j, k: implies(sand(0 <= j, j < k, k < S.n), S.t(S.pt(j)) < S.t(S.pt(k))), 2)),
        ("prev_is_true_predecessor", S.forall(lambda j: implies(inr(j), S.same(S.prev(S.pt(j)), ite_ref(S, j > 0, S.pt(j - 1)))))),
        ("next_is_true_successor", S.forall(lambda j: implies(inr(j), S.same(S.next(S.pt(j)), ite_ref(S, j < S.n - 1, S.pt(j + 1)))))),
        ("quarter_lists_aligned", sand(S.m >= 1, S.m == S.m2, S.qt(0) == 0)),
        ("quarter_times_strictly_increasing", S.forall(lambda j, k: implies(sand(0 <= j, j < k, k < S.m), S.qt(j) < S.qt(k)), 2)),
        ("each_point_carries_quarter_in_force", S.forall(lambda j: implies(inr(j), sand(snot(S.quarter_is_none(S.pt(j))),
                                                                                     S.quarter(S.pt(j)) == S.Q(S.t(S.pt(j))))))),
    ]
    return out


def ite_ref(S, c, r):
    if isinstance(c, bool):
        return r if c else S.none()
    return ite(c, r, 0)


def wf_all(S):
    return sand(*[g for _, g in wf(S)])


def insertion_index(S, c, tval):
    """c is the position of time tval in the sorted timeline: all earlier points are before tval, all others not"""
    return sand(0 <= c, c <= S.n,
                S.forall(lambda j: implies(sand(0 <= j, j < c), S.t(S.pt(j)) < tval)),
                S.forall(lambda j: implies(sand(c <= j, j < S.n), S.t(S.pt(j)) >= tval)))


def frame_old_points_keep(S0, S1, name):
    return S1.fields_equal_except(S0, name, [])


# ------------------------------------------------------------------------------------------------ contracts
def _req_wf(a):
    return wf_all(state(a.self))


def _add_point_post(a, r, old):
    S0, S1 = old.S, state(a.self)
    tp = S1.ref(a.tp)
    tval = S0.t(tp)

    def for_c(c):
        present = sand(c < S0.n, S0.t(S0.pt(c)) == tval)
        same_seq = sand(S1.n == S0.n, S1.forall(lambda j: implies(sand(0 <= j, j < S0.n), S1.same(S1.pt(j), S0.pt(j)))))
        ins = sand(S1.n == S0.n + 1,
                   S1.forall(lambda j: implies(sand(0 <= j, j < S1.n),
                                               S1.same(S1.pt(j), ite3(S1, j < c, S0.pt(j), j == c, tp, S0.pt(j - 1))))))
        return implies(insertion_index(S0, c, tval), sand(implies(present, same_seq), implies(snot(present), ins)))
    return S1.forall(for_c)


def ite3(S, c1, a, c2, b, c):
    if isinstance(c1, bool) and isinstance(c2, bool):
        return a if c1 else (b if c2 else c)
    return ite(c1, a, ite(c2, b, c))


def _named_wf_post(prefix="wf_"):
    out = []
    for i, (slug, _) in enumerate(wf(_DummyS())):
        out.append((prefix + slug, (lambda idx: (lambda a, r, old: wf(state(a.self))[idx][1]))(i)))
    return out


class _DummyS:
    """only to enumerate the conjunct names"""
    n = m = m2 = 0

    def forall(self, *a, **k):
        return True

    def __getattr__(self, name):
        return lambda *a, **k: 0


def _times_frame(a, r, old):
    S0, S1 = old.S, state(a.self)
    return sand(S1.fields_equal_except(S0, "t", []), S1.fields_equal_except(S0, "quarter", []))


def _rebuild_part(model, a, ip):
    """concrete Part carrying the timeline of the counter-model.  The pre-state is assembled directly (points array,
    links, quarter lists) rather than through Part.add, so that a defect in the operations under test cannot corrupt
    the pre-state of its own replay; every point carries one registered marker object, as on a real timeline."""
    S = old_state_for_rebuild(a)
    ev = lambda z: model.eval(z, model_completion=True)
    n = ev(zint(S.n)).as_long()
    m = ev(zint(S.m)).as_long()
    qts = [ev(z3.Select(S.QT, k)).as_long() for k in range(m)]
    qds = [ev(z3.Select(S.QD, k)).as_long() for k in range(m)]
    times = [ev(z3.Select(S.H["t"], z3.Select(S.P, j))).as_long() for j in range(n)]
    return build_part(times, qts, qds), times


def build_part(times, qts, qds):
    import numpy as np
    sc = _sc()
    part = sc.Part("P0", quarter_duration=1)
    part._quarter_times = list(qts)
    part._quarter_durations = list(qds)
    part._quarter_map = part.quarter_duration_map
    pts = []
    for t in times:
        q = qds[0]
        for tq, dq in zip(qts, qds):
            if tq <= t:
                q = dq
        tp = sc.TimePoint(t, q)
        tp.add_starting_object(_Dummy())
        if pts:
            pts[-1].next = tp
            tp.prev = pts[-1]
        pts.append(tp)
    part._points = np.array(pts, dtype=object)
    return part


class _DummyBase:
    pass


def _Dummy():
    sc = _sc()

    class Marker(sc.TimedObject):
        pass
    return Marker()


def old_state_for_rebuild(a):
    return a.__dict__["__S0__"]


def _setup_keep_state(a, ip):
    setup(a, ip)
    a.__dict__["__S0__"] = state(a.self)


def _rebuild_add_point(model, a, ip):
    sc = _sc()
    part, times = _rebuild_part(model, a, ip)
    ev = lambda z: model.eval(z, model_completion=True)
    S = old_state_for_rebuild(a)
    t = ev(z3.Select(S.H["t"], a.tp.z)).as_long()
    q = ev(z3.Select(S.H["quarter"], a.tp.z)).as_long()
    return {"self": part, "tp": sc.TimePoint(t, q)}



def _show_part(part):
    return {"timeline_times": [int(p.t) for p in part._points], "point_quarters": [p.quarter for p in part._points],
            "quarter_times": list(part._quarter_times), "quarter_durations": list(part._quarter_durations)}


def _rebuild_common(model, a, ip, extra):
    part, times = _rebuild_part(model, a, ip)
    ev = lambda z: model.eval(z, model_completion=True)
    S = old_state_for_rebuild(a)
    out = {"self": part}
    for k, v in extra.items():
        if v == "newpoint":
            r = getattr(a, k)
            t = ev(z3.Select(S.H["t"], r.z)).as_long()
            q = ev(z3.Select(S.H["quarter"], r.z)).as_long()
            out[k] = _sc().TimePoint(t, q)
        elif v == "member":
            j = ev(zint(getattr(a, k + "_idx"))).as_long()
            out[k] = part._points[j]
            out[k + "_idx"] = j
        elif v == "int":
            out[k] = ev(zint(getattr(a, k))).as_long() if not isinstance(getattr(a, k), int) else getattr(a, k)
    return out


def _rb(**extra):
    return lambda model, a, ip: _rebuild_common(model, a, ip, extra)


# ---- _remove_point -------------------------------------------------------------------------------------------------
def _remove_point_post(a, r, old):
    S0, S1 = old.S, state(a.self)
    i = a.tp_idx
    return sand(S1.n == S0.n - 1,
                S1.forall(lambda j: implies(sand(0 <= j, j < S1.n), S1.same(S1.pt(j), ite_pt(S0, j < i, j, j + 1)))))


def ite_pt(S, c, j1, j2):
    if isinstance(c, bool):
        return S.pt(j1 if c else j2)
    return ite(c, S.pt(j1), S.pt(j2))


# ---- get_point -----------------------------------------------------------------------------------------------------
def _get_point_post(a, r, old):
    S0 = old.S
    res = S0.ref(r)

    def for_c(c):
        present = sand(c < S0.n, S0.t(S0.pt(c)) == a.t)
        return implies(insertion_index(S0, c, a.t),
                       sand(implies(present, S0.same(res, S0.pt(c))), implies(snot(present), S0.is_none(res))))
    return S0.forall(for_c)


def _unchanged_part(a, r, old):
    """read-only: same point sequence, same links/times/quarters of every pre-existing point, same quarter lists"""
    S0, S1 = old.S, state(a.self)
    return sand(S1.n == S0.n, S1.forall(lambda j: implies(sand(0 <= j, j < S0.n), S1.same(S1.pt(j), S0.pt(j)))),
                *[_old_refs_keep(S0, S1, f) for f in ("t", "quarter", "prev", "next")],
                _qlists_same(S0, S1))


def _old_refs_keep(S0, S1, name):
    if not S1.symbolic:
        return S1.fields_equal_except(S0, name, [])
    return S1.forall(lambda r: implies(S0.allocated(r), mkbool(z3.Select(S1.H[name], zint(r)) == z3.Select(S0.H[name], zint(r)))))


def _qlists_same(S0, S1):
    return sand(S1.m == S0.m, S1.m2 == S0.m2,
                S1.forall(lambda k: implies(sand(0 <= k, k < S0.m), sand(S1.qt(k) == S0.qt(k), S1.qd(k) == S0.qd(k)))),
                S1.forall(lambda u: implies(u >= 0, S1.Q(u) == S0.Q(u))))


# ---- get_or_add_point ----------------------------------------------------------------------------------------------
def _get_or_add_post(a, r, old):
    S0, S1 = old.S, state(a.self)
    res = S1.ref(r)

    def for_c(c):
        present = sand(c < S0.n, S0.t(S0.pt(c)) == a.t)
        same_seq = sand(S1.n == S0.n, S1.forall(lambda j: implies(sand(0 <= j, j < S0.n), S1.same(S1.pt(j), S0.pt(j)))),
                        S1.same(res, S0.pt(c)))
        ins = sand(S1.n == S0.n + 1, snot(S0.allocated(res)) if S0.symbolic else True, S1.t(res) == a.t,
                   S1.forall(lambda j: implies(sand(0 <= j, j < S1.n),
                                               S1.same(S1.pt(j), ite3(S1, j < c, S0.pt(j), j == c, res, S0.pt(j - 1))))))
        return implies(insertion_index(S0, c, a.t), sand(implies(present, same_seq), implies(snot(present), ins)))
    return S1.forall(for_c)


def _old_points_keep_time_and_quarter(a, r, old):
    S0, S1 = old.S, state(a.self)
    return sand(_old_refs_keep(S0, S1, "t"), _old_refs_keep(S0, S1, "quarter"), _qlists_same(S0, S1))


# ---- set_quarter_duration ------------------------------------------------------------------------------------------
def _sqd_step_function(a, r, old):
    """property wording: q is in force from t up to the next later change, and nothing else changes"""
    S0, S1 = old.S, state(a.self)

    def for_u(u):
        before_next_change = S0.forall(lambda k: implies(sand(0 <= k, k < S0.m, S0.qt(k) > a.t), u < S0.qt(k)))
        inside = sand(a.t <= u, before_next_change)
        return implies(u >= 0, sand(implies(inside, S1.Q(u) == a.quarter), implies(snot(inside), S1.Q(u) == S0.Q(u))))
    return S1.forall(for_u)


def _sqd_points_same(a, r, old):
    S0, S1 = old.S, state(a.self)
    return sand(S1.n == S0.n, S1.forall(lambda j: implies(sand(0 <= j, j < S0.n), S1.same(S1.pt(j), S0.pt(j)))),
                _old_refs_keep(S0, S1, "t"), _old_refs_keep(S0, S1, "prev"), _old_refs_keep(S0, S1, "next"))


def _sqd_loop_inv(ctx):
    """loop `for tp in self._points[start_idx:end_idx]: tp.quarter = quarter`: points start_idx..k-1 carry the new quarter,
    every other reference keeps the quarter it had at loop entry"""
    heap, seq = ctx.heap, ctx.seq
    q = ctx.locals["quarter"]
    k, lo = ctx.k, ctx.lo
    j = z3.Int(sym.fresh_name("lj"))
    r = z3.Int(sym.fresh_name("lr"))
    pj = z3.Select(seq.arr, j)
    now_q, now_n = heap.fields["quarter"], heap.fields["quarter?none"]
    ent_q, ent_n = ctx.entry["quarter"], ctx.entry["quarter?none"]
    done = z3.ForAll([j], z3.Implies(z3.And(lo <= j, j < k), z3.And(z3.Select(now_q, pj) == zint(q), z3.Not(z3.Select(now_n, pj)))))
    # untouched: any reference that is not one of the processed points
    rest = z3.ForAll([r], z3.Implies(z3.ForAll([j], z3.Implies(z3.And(lo <= j, j < k), z3.Select(seq.arr, j) != r)),
                                     z3.And(z3.Select(now_q, r) == z3.Select(ent_q, r), z3.Select(now_n, r) == z3.Select(ent_n, r))))
    return [("processed_points_updated", SymBool(done)), ("other_points_untouched", SymBool(rest))]


def _qmap_model(ip, a):
    """modular contract of Part.quarter_duration_map (scipy interp1d 'previous'): fresh step function through the
    CURRENT lists"""
    part = a.self
    qm = QMap("Qf_new")
    S = SymState.__new__(SymState)
    qt, qd = part.__dict__["_quarter_times"], part.__dict__["_quarter_durations"]
    for ax in step_function_axioms(qm.Qf, qt.n, qt.arr, qd.arr):
        ip.eng.assume(ax)
    return qm


def registry():
    from pyv import loader
    sc = _sc()
    return {loader.unwrap(sc.Part.quarter_duration_map.fget): _QDM}


_QDM = Contract("C01", "partitura.score.Part.quarter_duration_map", [("self", PartSpec())], model=_qmap_model,
                note="trusted: scipy interp1d(kind='previous') is the step function through its knots")

SCORE = "partitura.score."
_OLD = {"S": lambda a: state(a.self)}

CONTRACTS = [
    Contract("C01", SCORE + "Part._add_point", [("self", PartSpec()), ("tp", NewPointSpec())],
             setup=_setup_keep_state, rebuild=_rb(tp="newpoint"),
             requires=[("wf", _req_wf),
                       ("new_point_is_valid", lambda a: sand(state(a.self).t(state(a.self).ref(a.tp)) >= 0,
                                                             state(a.self).quarter(state(a.self).ref(a.tp)) == state(a.self).Q(state(a.self).t(state(a.self).ref(a.tp)))))],
             old=_OLD,
             ensures=_named_wf_post() + [("whole_view_sorted_insertion_or_no_change", _add_point_post),
                                         ("frame_times_and_quarters_untouched", _times_frame)]),
    Contract("C01", SCORE + "Part._remove_point", [("self", PartSpec()), ("tp", MemberPointSpec())],
             setup=_setup_keep_state, rebuild=_rb(tp="member"),
             requires=[("wf", _req_wf)], old=_OLD,
             ensures=_named_wf_post() + [("whole_view_point_deleted_others_in_order", _remove_point_post),
                                         ("frame_times_and_quarters_untouched", _times_frame)]),
    Contract("C01", SCORE + "Part.get_point", [("self", PartSpec()), ("t", Int())],
             setup=_setup_keep_state, rebuild=_rb(t="int"),
             requires=[("wf", _req_wf)], old=_OLD,
             raises={Exception: ("negative_time_rejected", lambda a: a.t < 0)},
             ensures=[("returns_the_point_at_t_or_None", _get_point_post), ("part_not_modified", _unchanged_part)]),
    Contract("C01", SCORE + "Part.get_or_add_point", [("self", PartSpec()), ("t", Int())],
             setup=_setup_keep_state, rebuild=_rb(t="int"),
             requires=[("wf", _req_wf)], old=_OLD,
             raises={Exception: ("negative_time_rejected", lambda a: a.t < 0)},
             ensures=_named_wf_post() + [("whole_view_point_at_t_exists_exactly_once_others_kept", _get_or_add_post),
                                         ("frame_old_points_and_quarter_map_untouched", _old_points_keep_time_and_quarter)]),
    Contract("C01", SCORE + "Part.set_quarter_duration", [("self", PartSpec()), ("t", Int(0, None)), ("quarter", Int(1, None))],
             setup=_setup_keep_state, rebuild=_rb(t="int", quarter="int"),
             requires=[("wf", _req_wf)], old=_OLD,
             invariants={0: LoopSpec(_sqd_loop_inv, modifies_fields=("quarter", "quarter?none"))},
             ensures=[("quarter_in_force_from_t_to_next_change_and_nothing_else", _sqd_step_function),
                      ("points_and_links_untouched", _sqd_points_same)] + _named_wf_post()),
]

MANIFEST = {
    "level": "proof",
    "technique": "contract-based deductive verification: representation invariant + whole-view contracts on the timeline operations, SMT over a heap model of the real source (symbolic-length point array, quarter lists, loop invariant), induction over histories; finite-model refutation with native replay; bounded lock-step run-time contract check for registries and queries",
    "text": "wf(part) (points allocated, times >= 0 and strictly increasing, prev/next the true neighbours, quarter lists aligned and increasing, every point carries the quarter in force) is proved to be preserved, for timelines of ANY length, by Part._add_point, _remove_point, get_point (read-only), get_or_add_point and set_quarter_duration, each with a whole-view postcondition (sorted insertion / deletion of exactly one point, the property's step-function wording for set_quarter_duration) and frame clauses; Part() establishes wf (closed evaluation). By induction every finite interleaving of these operations keeps wf. Registration/deregistration (Part.add/remove, TimePoint registries, _cleanup_point) and the class/interval/neighbour queries are NOT under SMT contract: the same executable invariant plus a reference model is checked at run time on all operation histories in a stated small scope (bounded, not counted as proved).",
    "note": "trusted: np.searchsorted/np.insert/np.delete contracts, scipy interp1d(kind=previous) = step function (with ghost segment index), ComparableMixin inlined; registries and queries bounded only; termination not proved",
}
EXPLANATION = ("58+ SMT obligations over the real source of the timeline operations (heap arrays for TimePoint fields, symbolic-length "
               "sequences), every one proved for all timeline lengths; induction base by closed evaluation; registries/queries by "
               "bounded lock-step histories against a reference model.")
TRUSTED = ["np.searchsorted / np.insert / np.delete on 1-D object arrays", "scipy interp1d(kind='previous')", "list.insert, list item assignment",
           "defaultdict/_OrderedSet (dict insertion order) - only exercised by the bounded part"]


# ------------------------------------------------------------------------------------------------ closed
def closed_part_init_establishes_wf():
    sc = _sc()
    n = 0
    for q in list(range(1, 17)) + [24, 96, 480, 960]:
        n += 1
        p = sc.Part("P", quarter_duration=q)
        S = NativeState(p)
        for slug, g in wf(S):
            if not g:
                return False, n, {"input": q, "what": "Part(quarter_duration=%d) violates wf conjunct %s" % (q, slug)}
        if p.first_point is not None or p.last_point is not None or p.get_point(0) is not None:
            return False, n, {"input": q, "what": "empty part has points"}
    return True, n, ""


def closed_comparable_and_subclasses():
    """TimePoints compare by time (all six operators); iter_subclasses yields each strict subclass of the timed-object
    hierarchy exactly once... (diamond classes may repeat by design of depth-first traversal: checked = set equality + first-visit order)"""
    sc = _sc()
    from partitura.utils.generic import iter_subclasses
    import operator
    n = 0
    for a, b in itertools.product(range(0, 4), repeat=2):
        for op in (operator.lt, operator.le, operator.eq, operator.ne, operator.gt, operator.ge):
            n += 1
            if op(sc.TimePoint(a), sc.TimePoint(b)) != op(a, b):
                return False, n, {"input": [a, b, op.__name__], "what": "TimePoint comparison disagrees with comparison of times"}

    def subs(c, seen):
        for s in c.__subclasses__():
            if s not in seen:
                seen.add(s)
                yield s
                yield from subs(s, seen)
    for cls in [sc.TimedObject, sc.GenericNote, sc.Note, sc.Direction, sc.Harmony]:
        n += 1
        got = list(iter_subclasses(cls))
        want = list(subs(cls, set()))
        if got != want:
            return False, n, {"input": cls.__name__, "what": "iter_subclasses: %r, expected each strict subclass once depth-first: %r" % (
                [c.__name__ for c in got], [c.__name__ for c in want])}
    return True, n, ""


CLOSED = [("Part_init_establishes_wf", closed_part_init_establishes_wf),
          ("timepoint_comparison_and_subclass_enumeration", closed_comparable_and_subclasses)]


# ------------------------------------------------------------------------------------------------ bounded: histories
class _ById:
    """a mapping keyed by the identity of the object"""

    def __init__(self):
        self.d = {}

    def __contains__(self, o):
        return id(o) in self.d

    def __setitem__(self, o, v):
        self.d[id(o)] = (o, v)

    def pop(self, o):
        return self.d.pop(id(o))[1]

    def items(self):
        return list(self.d.values())


def _remove_identical(lst, o):
    for i, x in enumerate(lst):
        if x is o:
            del lst[i]
            return
    raise ValueError("object not in the list")


def _same_objects(a, b):
    return len(a) == len(b) and all(x is y for x, y in zip(a, b))


class RefModel:
    """reference model of a part: registries by time, quarter step function"""

    def __init__(self, q):
        self.start = _ById()  # obj -> time (objects are told apart by identity, not by their own __eq__/__hash__)
        self.end = _ById()
        self.sreg = {}  # time -> {cls: [objs]}
        self.ereg = {}
        self.q = [(0, q)]
        self.bare = set()

    def times(self):
        ts = set(self.bare)
        for reg in (self.sreg, self.ereg):
            for t, d in reg.items():
                if any(d.values()):
                    ts.add(t)
        return sorted(ts)

    def add(self, o, s, e):
        if s is not None:
            self.sreg.setdefault(s, {}).setdefault(type(o), []).append(o)
            self.start[o] = s
            self.bare.discard(s)
        if e is not None:
            self.ereg.setdefault(e, {}).setdefault(type(o), []).append(o)
            self.end[o] = e
            self.bare.discard(e)

    def remove(self, o, which):
        if which in ("start", "both") and o in self.start:
            t = self.start.pop(o)
            _remove_identical(self.sreg[t][type(o)], o)
        if which in ("end", "both") and o in self.end:
            t = self.end.pop(o)
            _remove_identical(self.ereg[t][type(o)], o)

    def setq(self, t, qv):
        """documented list semantics: an entry at t is replaced; otherwise a new entry is recorded unless it is redundant
        (the duration in force just before t already equals qv)"""
        if any(x == t for x, _ in self.q):
            self.q = sorted([(x, v) for x, v in self.q if x != t] + [(t, qv)])
        elif self.Q(t) != qv:
            self.q = sorted(self.q + [(t, qv)])

    def Q(self, u):
        v = self.q[0][1]
        for x, d in self.q:
            if x <= u:
                v = d
        return v

    def iter_all(self, cls, start, end, incl, mode, subs):
        reg = self.ereg if mode == "ending" else self.sreg
        out = []
        for t in self.times():
            if (start is None or t >= start) and (end is None or t < end):
                d = reg.get(t, {})
                classes = list(d.keys()) if cls is object else [cls] + (subs(cls) if incl else [])
                for c in classes:
                    out.extend(d.get(c, []))
        return out


def _subs(cls):
    seen = set()

    def rec(c):
        for s in c.__subclasses__():
            if s not in seen:
                seen.add(s)
                yield s
                yield from rec(s)
    return list(rec(cls))


def _check_state(b, part, model, hist, queries=True):
    sc = _sc()
    S = NativeState(part)
    bare_ok = not model.bare
    for slug, g in wf(S):
        b.case("history/wf_" + slug, bool(g), hist, "wf conjunct false after this history")
    times = [p.t for p in part._points]
    b.case("history/points_are_exactly_the_registered_times", times == model.times(), hist, "timeline %r, model %r" % (times, model.times()))
    ok = True
    what = ""
    for p in part._points:
        for reg, mreg, attr in ((p.starting_objects, model.sreg, "start"), (p.ending_objects, model.ereg, "end")):
            got = {c: list(v) for c, v in reg.items() if len(v)}
            want = {c: list(v) for c, v in mreg.get(p.t, {}).items() if len(v)}
            if set(got) != set(want) or not all(_same_objects(got[c], want[c]) for c in got):
                ok, what = False, "registry at t=%d (%s) differs from model" % (p.t, attr)
            for c, objs in got.items():
                for o in objs:
                    if getattr(o, attr) is not p:
                        ok, what = False, "object listed at t=%d whose %s is not that point" % (p.t, attr)
        if p.quarter != model.Q(p.t):
            ok, what = False, "point t=%d carries quarter %r, in force %r" % (p.t, p.quarter, model.Q(p.t))
        if not model.bare and not any(len(v) for v in p.starting_objects.values()) and not any(len(v) for v in p.ending_objects.values()):
            ok, what = False, "empty point at t=%d" % p.t
    for o, t in list(model.start.items()):
        if o.start is None or o.start.t != t:
            ok, what = False, "object start differs from model"
    b.case("history/registries_and_object_ends_agree", ok, hist, what)
    qd = part.quarter_durations()
    b.case("history/quarter_durations_step_function", all(int(part.quarter_duration_map(u)) == model.Q(u) for u in range(0, 9)), hist,
           "quarter_duration_map differs from the model step function; lists %r" % (qd.tolist(),))
    if not queries:
        return
    okq, whatq = True, ""
    for cls in (sc.GenericNote, sc.Note, sc.Rest, sc.Measure, None):
        for incl in (False, True):
            for mode in ("starting", "ending"):
                for (s, e) in ((None, None), (1, 5), (0, 2), (2, 2), (5, None), (0, 0), (None, 0), (3, 0), (0, None), (None, 1)):
                    got = list(part.iter_all(cls, s, e, include_subclasses=incl, mode=mode))
                    c = cls if cls is not None else object
                    want = model.iter_all(c, s, e, incl or cls is None, mode, _subs)
                    if cls is None:
                        # whole hierarchy below object: order of unrelated classes is traversal order of the interpreter's class
                        # graph; compare as multisets per time point order
                        if sorted(map(id, got)) != sorted(map(id, want)):
                            okq, whatq = False, "iter_all(None) returns a different set of objects"
                    elif not _same_objects(got, want):
                        okq, whatq = False, "iter_all(%s, %r, %r, include_subclasses=%r, mode=%s): %d objects, model %d (or different order)" % (
                            cls.__name__, s, e, incl, mode, len(got), len(want))
    pts = list(part._points)
    for i, p in enumerate(pts):
        nxt = [o for q in pts[i + 1:] for o in q.iter_starting(sc.GenericNote, include_subclasses=True)]
        prv = [o for q in reversed(pts[:i]) for o in q.iter_starting(sc.GenericNote, include_subclasses=True)]
        if not _same_objects(list(p.iter_next(sc.GenericNote, include_subclasses=True)), nxt) or not _same_objects(list(p.iter_prev(sc.GenericNote, include_subclasses=True)), prv):
            okq, whatq = False, "iter_next/iter_prev from t=%d differ from the registered objects in time order" % p.t
    # every class / eq / include_subclasses combination, against the model's registries (per point as a multiset: the order of
    # different classes inside one point is not stated)
    for cls in (sc.GenericNote, sc.Note, sc.Rest, sc.Measure, sc.TimedObject):
        for incl in (False, True):
            for eq in (False, True):
                for i, p in enumerate(pts):
                    def at(q):
                        reg = model.sreg.get(q.t, {})
                        return sorted(id(o) for c, objs in reg.items() if (c is cls or (incl and issubclass(c, cls))) for o in objs)
                    for name, seq in (("iter_next", pts[i + (0 if eq else 1):]), ("iter_prev", list(reversed(pts[:i + (1 if eq else 0)])))):
                        got = list(getattr(p, name)(cls, eq=eq, include_subclasses=incl))
                        want = [x for q in seq for x in at(q)]
                        grouped, k = [], 0
                        for q in seq:
                            n = len(at(q))
                            grouped += sorted(id(o) for o in got[k:k + n])
                            k += n
                        if len(got) != len(want) or grouped != want:
                            okq, whatq = False, "%s(%s, eq=%r, include_subclasses=%r) from t=%d returns %d objects, the registered ones are %d (or another order in time)" % (
                                name, cls.__name__, eq, incl, p.t, len(got), len(want))
    if (part.first_point.t if pts else None) != (times[0] if times else None) or (part.last_point.t if pts else None) != (times[-1] if times else None):
        okq, whatq = False, "first/last point"
    for t in range(0, 8):
        gp = part.get_point(t)
        if (gp is None) != (t not in times) or (gp is not None and gp.t != t):
            okq, whatq = False, "get_point(%d)" % t
    b.case("history/queries_return_exactly_the_registered_objects_in_time_order", okq, hist, whatq)


def _run_history(b, ops, every_step=True):
    sc = _sc()
    part = sc.Part("P", quarter_duration=2)
    model = RefModel(2)
    objs = {}
    mk = {"N": lambda: sc.Note("C", 4), "R": lambda: sc.Rest(), "M": lambda: sc.Measure(), "G": lambda: sc.GraceNote("grace", "D", 4),
          # objects that carry the same values (two of each are used): a part holds each OBJECT that was added, whatever it says
          "T": lambda: sc.TimeSignature(3, 4), "K": lambda: sc.KeySignature(-2, "minor"), "B": lambda: sc.Barline("light-heavy"),
          "C": lambda: sc.Clef(staff=1, sign="G", line=2, octave_change=0), "Q": lambda: sc.Tempo(120, "q")}
    hist = []
    for op in ops:
        hist.append(list(op))
        kind = op[0]
        try:
            if kind == "add":
                _, name, s, e = op
                o = objs.get(name)
                if o is None:
                    o = objs[name] = mk[name[0]]()
                # valid argument: not already registered by the end being added
                if (s is not None and o in model.start) or (e is not None and o in model.end):
                    hist.pop()
                    continue
                part.add(o, s, e)
                model.add(o, s, e)
            elif kind == "rm":
                _, name, which = op
                o = objs.get(name)
                if o is None:
                    hist.pop()
                    continue
                part.remove(o, which)
                model.remove(o, which)
            elif kind == "q":
                part.set_quarter_duration(op[1], op[2])
                model.setq(op[1], op[2])
            elif kind == "gp":
                part.get_or_add_point(op[1])
                if op[1] not in model.times():
                    model.bare.add(op[1])
        except Exception as e:
            b.case("history/no_exception_on_valid_arguments", False, hist, "%s: %s" % (type(e).__name__, e))
            return
        b.case("history/no_exception_on_valid_arguments", True, hist, "", nontrivial=len(hist) >= 3, key=repr(hist))
        _check_state(b, part, model, hist, queries=every_step or op is ops[-1])


def _op_universe():
    ops = []
    for name in ("N1", "R1", "M1", "G1"):
        for (s, e) in ((0, 2), (2, 2), (2, 5), (5, None), (None, 2), (0, 5), (5, 2), (2, 0)):  # (the last two: an end before the start - two independent registrations)
            ops.append(("add", name, s, e))
        for which in ("start", "end", "both"):
            ops.append(("rm", name, which))
    for t, q in ((0, 3), (2, 3), (2, 2), (5, 1), (1, 2)):
        ops.append(("q", t, q))
    ops.append(("gp", 1))
    return ops


def _twin_universe():
    """operations over pairs of objects of one class with the same attribute values"""
    ops = []
    for name in ("T1", "T2", "K1", "K2", "B1", "B2", "C1", "C2", "Q1", "Q2", "R1", "R2"):
        for (s, e) in ((0, None), (0, 2), (2, None), (2, 5)):
            ops.append(("add", name, s, e))
        for which in ("start", "both"):
            ops.append(("rm", name, which))
    return ops


def bounded(b):
    import random
    U = _op_universe()
    rng = random.Random(b.seed)
    depth2 = list(itertools.product(U, repeat=2))
    quick = b.tier != "thorough"
    if quick:
        depth2 = rng.sample(depth2, 250)
    nrand = 120 if quick else 600
    b.rules.append("operation histories over 4 objects (Note, Rest, Measure, GraceNote = subclass of Note), times {0,1,2,5}, "
                   "add by start/end/both incl. equal start and end, remove start/end/both, set_quarter_duration, get_or_add_point, "
                   "then every query; all %d single operations, %d histories of length 2 (%s), %d seeded random histories of length 3..7; "
                   "lock-step against a reference model; non-trivial = history of length >= 3"
                   % (len(U), len(depth2), "sampled" if quick else "exhaustive", nrand))
    b.scopes.append("len 1 exhaustive; len 2 %s; %d random histories len 3..7" % ("sampled" if quick else "exhaustive", nrand))
    for h in [(u,) for u in U] + depth2:
        _run_history(b, h, every_step=not quick)
    for _ in range(nrand):
        k = rng.randint(3, 7)
        _run_history(b, [rng.choice(U) for _ in range(k)], every_step=not quick)
    # quarter-duration changes followed by a new point at every time around them (not left to the random histories: a point created
    # after a change carries the divisions in force at ITS time, whatever the points before it carry)
    qops = [u for u in U if u[0] == "q"]
    for q1 in qops:
        for t in range(0, 7):
            _run_history(b, [("add", "N1", 0, 5), q1, ("gp", t)], every_step=False)
            _run_history(b, [("add", "N1", 0, 5), q1, ("add", "R1", t, None)], every_step=False)
            for q2 in qops:
                if q2 is not q1:
                    _run_history(b, [("add", "N1", 0, 5), q1, q2, ("gp", t)], every_step=False)
    # times beyond 2**53 (where neighbouring integers are no longer different floating-point numbers): the timeline orders them as integers
    for T in (2**53, 2**53 + 2**20, 2**62):
        _run_history(b, [("add", "N1", T, T + 2), ("add", "R1", T + 1, T + 3), ("add", "M1", T - 1, T + 1), ("rm", "N1", "both")], every_step=True)
        _run_history(b, [("add", "N1", T + 1, T + 3), ("add", "R1", T, T + 1), ("gp", T + 2)], every_step=True)
    # equal-valued objects of one class at one time: both stay registered, removing one leaves the other
    U2 = _twin_universe()
    rng2 = random.Random(b.seed + 1)
    for cls_letter in "TKBCQR":
        a1, a2 = cls_letter + "1", cls_letter + "2"
        _run_history(b, [("add", a1, 0, None), ("add", a2, 0, None), ("add", a1, None, 2), ("rm", a1, "both"), ("rm", a2, "both")], every_step=True)
        _run_history(b, [("add", a1, 0, 2), ("add", a2, 0, 2), ("rm", a2, "start"), ("add", a2, 2, None), ("rm", a1, "both")], every_step=True)
    for _ in range(60 if quick else 300):
        k = rng2.randint(3, 8)
        _run_history(b, [rng2.choice(U2) for _ in range(k)], every_step=not quick)
    _point_primitives(b)
    _hierarchy_sweep(b)


def _hierarchy_sweep(b):
    """one object of every class of timed objects, registered by its start only, by its end only and by both, then removed: no operation
    raises, and the part is empty afterwards"""
    import partitura.score as sc
    a_, z_ = sc.Note("C", 4, id="a"), sc.Note("D", 4, id="z")
    makers = {
        "Note": lambda: sc.Note("C", 4), "Rest": lambda: sc.Rest(), "GraceNote": lambda: sc.GraceNote("grace", "D", 4), "UnpitchedNote": lambda: sc.UnpitchedNote("F", 3),
        "Measure": lambda: sc.Measure(number=1), "TimeSignature": lambda: sc.TimeSignature(3, 4), "KeySignature": lambda: sc.KeySignature(2, "major"),
        "Clef": lambda: sc.Clef(staff=1, sign="G", line=2, octave_change=0), "Tempo": lambda: sc.Tempo(90, "q"), "Barline": lambda: sc.Barline("light-heavy"),
        "Fermata": lambda: sc.Fermata("right"), "Page": lambda: sc.Page(1), "System": lambda: sc.System(1), "Slur": lambda: sc.Slur(a_, z_), "Tuplet": lambda: sc.Tuplet(a_, z_),
        "Repeat": lambda: sc.Repeat(), "Ending": lambda: sc.Ending("1"), "DaCapo": lambda: sc.DaCapo(), "Fine": lambda: sc.Fine(), "Segno": lambda: sc.Segno(), "DalSegno": lambda: sc.DalSegno(),
        "Coda": lambda: sc.Coda(), "ToCoda": lambda: sc.ToCoda(), "Words": lambda: sc.Words("dolce"), "ConstantLoudnessDirection": lambda: sc.ConstantLoudnessDirection("p"),
        "IncreasingLoudnessDirection": lambda: sc.IncreasingLoudnessDirection("crescendo", wedge=True), "ConstantTempoDirection": lambda: sc.ConstantTempoDirection("adagio"),
        "SustainPedalDirection": lambda: sc.SustainPedalDirection(line=True), "OctaveShiftDirection": lambda: sc.OctaveShiftDirection(8), "Transposition": lambda: sc.Transposition(-1, -2),
        "Staff": lambda: sc.Staff(number=1, lines=5), "Beam": lambda: sc.Beam(), "Segment": lambda: sc.Segment("seg_a", [], []), "Harmony": lambda: sc.Harmony("C:I") if hasattr(sc, "Harmony") else sc.Words("x"),
    }
    for cname, mk in sorted(makers.items()):
        for how, (s_, e_) in (("start_only", (3, None)), ("end_only", (None, 3)), ("both", (1, 4)), ("start_equals_end", (2, 2))):
            case = {"class": cname, "registered_by": how}
            def run():
                p = sc.Part("P", quarter_duration=2)
                anchor = sc.Rest(id="anchor")
                p.add(anchor, 0, 6)
                o = mk()
                p.add(o, s_, e_)
                listed = [x for x in p.iter_all(type(o), mode="starting")] + [x for x in p.iter_all(type(o), mode="ending")]
                p.remove(o)
                left = [x for x in p.iter_all(include_subclasses=True) if x is not anchor] if False else [x for pt_ in p._points for reg in (pt_.starting_objects, pt_.ending_objects) for v in reg.values() for x in v if x is not anchor]
                return (any(x is o for x in listed), left, [pt_.t for pt_ in p._points], getattr(o, "start", "missing"), getattr(o, "end", "missing"))
            ok, res = b.guard("history/no_exception_on_valid_arguments", case, run)
            if ok:
                was_listed, left, times, st_, en_ = res
                b.case("history/registries_and_object_ends_agree", was_listed and not left and times == [0, 6] and st_ is None and en_ is None, case,
                       "listed while registered: %r; still listed after removal: %r; time points %r; the removed object's start/end: %r/%r" % (was_listed, left, times, st_, en_))


def _point_primitives(b):
    """TimePoint.remove_starting_object / remove_ending_object (used by the slur and tuplet setters and by the MusicXML reader): the object is no
    longer listed by the point, on points that no query has looked at before as well as on points that were queried"""
    import partitura.score as sc
    for queried_before in (False, True):
        for kind in ("ending", "starting"):
            p = sc.Part("P", quarter_duration=4)
            n, r, m = sc.Note("C", 4, id="n"), sc.Rest(id="r"), sc.Measure(number=1)
            p.add(m, 0, 8)
            p.add(n, 0, 4)
            p.add(r, 1, 3)
            case = {"primitive": "remove_%s_object" % kind, "point_queried_before": queried_before}
            if queried_before:
                list(p.iter_all(sc.Rest)), list(p.iter_all(sc.Rest, mode="ending")), list(p.iter_all())
            try:
                tp = p.get_point(3 if kind == "ending" else 1)
                (tp.remove_ending_object if kind == "ending" else tp.remove_starting_object)(r)
                listed = r in list(p.iter_all(sc.Rest, mode=kind)) or any(r in v for v in (tp.ending_objects if kind == "ending" else tp.starting_objects).values())
                ref = r.end if kind == "ending" else r.start
            except Exception as e:
                b.case("history/no_exception_on_valid_arguments", False, case, "%s: %s" % (type(e).__name__, e))
                continue
            b.case("history/start_and_end_refer_to_the_point_that_lists_the_object", not listed and ref is None, case,
                   "after the call the point %s the rest and the rest's %s is %r" % ("still lists" if listed else "no longer lists", "end" if kind == "ending" else "start", ref))
        # the same through the slur setter: a slur already on the timeline whose end note is re-assigned is listed once, at the new end
        p = sc.Part("P", quarter_duration=4)
        a, c, d = sc.Note("C", 4, id="a"), sc.Note("D", 4, id="c"), sc.Note("E", 4, id="d")
        p.add(a, 0, 4), p.add(c, 4, 8), p.add(d, 8, 12)
        sl = sc.Slur(a, d)
        p.add(sl, 0, 12)
        case = {"primitive": "Slur.end_note = another note", "point_queried_before": queried_before}
        if queried_before:
            list(p.iter_all(sc.Slur, mode="ending"))
        try:
            sl.end_note = c
            ends = [x for x in p.iter_all(sc.Slur, mode="ending")]
            where = sorted(t.t for t in p._points if any(sl in v for v in t.ending_objects.values()))
        except Exception as e:
            b.case("history/no_exception_on_valid_arguments", False, case, "%s: %s" % (type(e).__name__, e))
            continue
        b.case("history/start_and_end_refer_to_the_point_that_lists_the_object", ends == [sl] and where == [sl.end.t if sl.end is not None else None], case,
               "the slur is listed as ending at %r (%d times by the query), its end is %r" % (where, len(ends), sl.end.t if sl.end is not None else None))


def replay_case(clause, case):
    from pyv.main import BoundedCtx
    b = BoundedCtx("C01", "thorough", 0)
    _run_history(b, [tuple(x) for x in case])
    f = [x for x in b.failures if x["clause"] == clause]
    return (not f), (f[0]["what"] if f else "holds")
