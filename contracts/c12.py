"""C12 - pitch, key, duration and time-unit conversions are mutually consistent.

Tier P: every integer/real conversion is verified for ALL integers (octaves, alterations, MIDI pitches, fifths,
ticks) by symbolic execution of the real function bodies; finite string domains are explored by case split.
closed-eval: facts over finite domains (the documented note-name grammar, 30 key names, 39 interval classes,
table agreement) are evaluated exhaustively on the real functions - complete for those domains.
Tier B (bounded, not proved): frequency <-> MIDI pitch (2**x, log2: transcendental, not in the SMT fragment).
"""
import itertools
import math
from fractions import Fraction

import numpy as np

from pyv.contracts import Contract, Int, Real, Enum, Opt, Union, Const, Obj, Bool
from . import specfns as S

LEVEL = "proof"
MANIFEST = {
    "level": "proof",
    "technique": "contract-based deductive verification: ast->z3 symbolic execution of the real function bodies against sidecar contracts (all integers), exhaustive closed evaluation of finite tables; bounded run-time contract check for frequency only",
    "text": "Every integer/real conversion (pitch<->MIDI, key name<->fifths/mode incl. rejection of every fifths outside -7..7 and every unknown mode, mode/clef codes, tempo units, seconds<->ticks, Tempo.microseconds_per_quarter, Note.midi_pitch, KeySignature.name) is proved for all integers by SMT from the source text read on this run; finite domains (documented note-name grammar, 30 keys, 39 interval classes, tuplet ratios, table agreement, array branch) are exhausted on the real functions. frequency<->pitch (2**x/log2) is outside the SMT fragment and is only checked exhaustively on 0..127 x 4 tunings (bounded, not counted as proved).",
    "note": "floats treated as exact reals in to_quarter_tempo/seconds<->ticks/Tempo (IEEE rounding not modelled); ppq/mpq taken from finite sets to stay linear; np.mod/np.round semantics trusted; frequency clause bounded only",
}
EXPLANATION = ("Each conversion function's body (read from /repo on this run) is symbolically executed on unbounded symbolic "
               "integers/reals; postconditions are the property's arithmetic (specfns.py). Finite string/table domains are "
               "exhausted. Only frequency<->pitch is bounded (transcendental).")

STEPS_ANYCASE = list("CDEFGAB") + list("cdefgab")
MODES_ALL = ["major", "minor", None, "none", 1, -1, "dorian", "Major", "", 0, 2, "maj"]
ACCEPTED = S.ACCEPTED_MAJOR + S.ACCEPTED_MINOR


def _bad_mode(m):
    return m not in ACCEPTED


def _is_minor(m):
    return m in S.ACCEPTED_MINOR


M = "partitura.utils.music."

CONTRACTS = [
    Contract("C12", M + "pitch_spelling_to_midi_pitch",
             [("step", Enum(STEPS_ANYCASE)), ("alter", Opt(Int())), ("octave", Int())],
             ensures=[("twelve_tone_all_integers", lambda a, r: r == S.midi_of(a.step, a.alter, a.octave))]),
    Contract("C12", M + "midi_pitch_to_pitch_spelling", [("midi_pitch", Int())],
             ensures=[("right_inverse_all_integers", lambda a, r: S.midi_of(r[0], r[1], r[2]) == a.midi_pitch),
                      ("canonical_spelling", lambda a, r: r[0] in list("CDEFGAB") and r[1] in (0, 1))]),
    Contract("C12", M + "ensure_pitch_spelling_format",
             [("step", Enum(STEPS_ANYCASE + ["r", "R", "h", "H", "x"])),
              ("alter", Union(Opt(Int()), Enum(["n", "#", "x", "b", "bb", "##", "s", "ss", "f", "ff", "-", "bbb", "###", "q", ""]))),
              ("octave", Union(Opt(Int()), Const("-")))],
             raises={ValueError: ("rejects_bad_step_or_sign", lambda a: a.step.lower() not in "cdefgabr" or (
                 isinstance(a.alter, str) and a.alter not in ("n", "#", "x", "b", "bb", "##", "s", "ss", "f", "ff", "-", "bbb", "###", "ns", "nf")))},
             ensures=[("normal_form", lambda a, r: r[0] == a.step.upper() and r[2] == (None if a.octave == "-" else a.octave)),
                      ("alter_semitones", lambda a, r: r[1] == (a.alter if not isinstance(a.alter, str) else
                                                               {"n": 0, "#": 1, "s": 1, "x": 2, "##": 2, "ss": 2, "###": 3, "b": -1, "f": -1,
                                                                "bb": -2, "ff": -2, "bbb": -3, "-": None}[a.alter]))]),
    Contract("C12", M + "fifths_mode_to_key_name", [("fifths", Int()), ("mode", Enum(MODES_ALL))],
             raises={Exception: ("rejects_fifths_outside_-7..7_and_unknown_modes",
                                 lambda a: a.fifths < -7 or a.fifths > 7 or _bad_mode(a.mode))},
             ensures=[("circle_of_fifths_name", lambda a, r: r == S.key_name(_conc(a.fifths, r, a.mode), _is_minor(a.mode)))]),
    Contract("C12", "partitura.score.KeySignature.name",
             [("self", Obj("partitura.score.KeySignature", fifths=Int(), mode=Enum(MODES_ALL), start=None, end=None))],
             raises={Exception: ("rejects_fifths_outside_-7..7_and_unknown_modes",
                                 lambda a: a.self.fifths < -7 or a.self.fifths > 7 or _bad_mode(a.self.mode))},
             ensures=[("circle_of_fifths_name", lambda a, r: r == S.key_name(_conc(a.self.fifths, r, a.self.mode), _is_minor(a.self.mode)))]),
    Contract("C12", M + "key_mode_to_int", [("mode", Union(Enum(MODES_ALL), Int()))],
             raises={ValueError: ("rejects_unknown_mode", lambda a: a.mode != 1 and a.mode != -1 and a.mode not in ("major", "minor", None, "none"))},
             ensures=[("minus_one_for_minor", lambda a, r: r == (-1 if (a.mode == -1 or a.mode == "minor") else 1))]),
    Contract("C12", M + "key_int_to_mode", [("mode", Union(Enum(MODES_ALL), Int()))],
             raises={ValueError: ("rejects_unknown_mode", lambda a: a.mode != 1 and a.mode != -1 and a.mode not in ("major", "minor", None, "none"))},
             ensures=[("decodes", lambda a, r: r == ("minor" if (a.mode == -1 or a.mode == "minor") else "major"))]),
    Contract("C12", M + "clef_int_to_sign", [("clef_int", Int())],
             raises={KeyError: ("rejects_codes_outside_table", lambda a: a.clef_int < 0 or a.clef_int > 6)},
             ensures=[("decodes_documented_signs", lambda a, r: r == ["G", "F", "C", "percussion", "TAB", "jianpu", "none"][_conc_i(a.clef_int, r)])]),
    Contract("C12", M + "to_quarter_tempo",
             [("unit", Enum([u + d for u in ["q", "h", "e", "quarter", "half", "eighth", "whole", "16th", "32nd", "breve", "long", "64th"]
                             for d in ["", ".", "..", "..."]] + [" q", "q ", "h. "])),
              ("tempo", Real(0, None))],
             float_mode="real",
             ensures=[("dotted_unit_value", lambda a, r: r == a.tempo * float(S.note_value(a.unit.strip().rstrip(".")) * S.dot_multiplier(a.unit.count("."))))]),
    Contract("C12", M + "seconds_to_midi_ticks",
             [("time_in_seconds", Real(None, None)), ("mpq", Enum([500000, 250000, 600000, 428571, 1])), ("ppq", Enum([480, 96, 1, 960, 384]))],
             float_mode="real",
             ensures=[("nearest_tick", lambda a, r: (r - 10**6 * a.ppq * a.time_in_seconds / a.mpq <= Fraction(1, 2))
                       & (10**6 * a.ppq * a.time_in_seconds / a.mpq - r <= Fraction(1, 2))),
                      ("integer_result", lambda a, r: isinstance_int(r))]),
    Contract("C12", M + "midi_ticks_to_seconds",
             [("midi_ticks", Int()), ("mpq", Enum([500000, 250000, 600000, 428571, 1])), ("ppq", Enum([480, 96, 1, 960, 384]))],
             float_mode="real",
             ensures=[("ticks_times_mpq_over_1e6_ppq", lambda a, r: r * (10**6 * a.ppq) == a.mpq * a.midi_ticks)]),
    Contract("C12", "partitura.score.Tempo.microseconds_per_quarter",
             [("self", Obj("partitura.score.Tempo", bpm=Real(1, 1000), unit=Enum([None, "q", "h", "e", "q.", "h.", "e.", "quarter", "half."]), start=None, end=None))],
             float_mode="real",
             ensures=[("rounded_60e6_over_quarter_tempo",
                       lambda a, r: _mpq_ok(a.self.bpm, a.self.unit, r))]),
    Contract("C12", "partitura.score.Note.midi_pitch",
             [("self", Obj("partitura.score.Note", step=Enum(STEPS_ANYCASE), alter=Opt(Int()), octave=Int()))],
             ensures=[("twelve_tone_all_integers", lambda a, r: r == S.midi_of(a.self.step, a.self.alter, a.self.octave))]),
]


def isinstance_int(r):
    from pyv.sym import SymInt
    return isinstance(r, (int, SymInt)) and not isinstance(r, bool)


def _conc(fifths, r, mode):
    """on every path that returns, `fifths` has been pinned by the table lookup; recover the concrete value from the
    returned concrete name is NOT allowed (would be circular) - instead read it from the solver-free path: the engine
    split on the index, so fifths+7 is concrete on the path.  For native evaluation fifths is a plain int."""
    from pyv.sym import SymInt
    if isinstance(fifths, SymInt):
        from pyv import sym
        import z3
        eng = sym._engine
        # fifths is determined by the path condition (index split): ask the solver for its unique value
        st, m = eng.check()
        v = m.eval(fifths.z, model_completion=True).as_long()
        st2, _ = eng.check([fifths.z != v])
        if st2 != "unsat":
            raise AssertionError("fifths not determined on this path")
        return v
    return fifths


_conc_i = lambda k, r: _conc(k, r, None)


def _mpq_ok(bpm, unit, r):
    q = bpm * float(S.note_value((unit or "q").rstrip(".")) * S.dot_multiplier((unit or "q").count(".")))
    # r is the nearest integer to 60e6/q :  |r*q - 60e6| <= q/2
    return (r * q - 60 * 10**6 <= q / 2) & (60 * 10**6 - r * q <= q / 2)


# --------------------------------------------------------------------------------------------- closed evaluations
def _music():
    import partitura.utils.music as m
    return m


def closed_note_names():
    """documented grammar <step><accidentals><octave>: all steps x alterations -3..3 x octaves -1..9 (negative octaves are
    outside the grammar: the pattern has no sign) ; name -> spelling -> midi agrees with twelve-tone arithmetic and
    spelling -> name -> spelling is the identity"""
    m = _music()
    n = 0
    for step in "CDEFGAB":
        for alter in range(-3, 4):
            for octave in range(-1, 10):
                n += 1
                name = m.pitch_spelling_to_note_name(step, alter, octave)
                want_acc = {0: "", 1: "#", 2: "x", 3: "###", -1: "b", -2: "bb", -3: "bbb"}[alter]
                if name != "%s%s%d" % (step, want_acc, octave):
                    return False, n, {"input": [step, alter, octave], "what": "pitch_spelling_to_note_name gave %r" % name}
                if octave < 0:
                    continue
                try:
                    sp = m.note_name_to_pitch_spelling(name)
                    mp = m.note_name_to_midi_pitch(name)
                except Exception as e:
                    return False, n, {"input": [step, alter, octave], "what": "note name %r not parsed back: %s" % (name, e)}
                if tuple(sp) != (step, alter, octave):
                    return False, n, {"input": [step, alter, octave], "what": "name %r parsed to %r" % (name, sp)}
                if mp != S.midi_of(step, alter, octave):
                    return False, n, {"input": [step, alter, octave], "what": "name %r -> midi %r" % (name, mp)}
    # alternative accidental spellings accepted by the grammar
    for step in "CDEFGAB":
        for acc, alt in (("##", 2), ("#", 1), ("b", -1), ("x", 2), ("bb", -2), ("", 0)):
            for octave in (0, 4, 10, 12):
                n += 1
                if m.note_name_to_midi_pitch("%s%s%d" % (step, acc, octave)) != S.midi_of(step, alt, octave):
                    return False, n, {"input": [step, acc, octave], "what": "wrong midi pitch"}
    for bad in ("H4", "C", "4", "", "c4"):
        n += 1
        try:
            m.note_name_to_pitch_spelling(bad)
            return False, n, {"input": bad, "what": "invalid note name accepted"}
        except ValueError:
            pass
    return True, n, ""


def closed_midi_roundtrip():
    m = _music()
    n = 0
    for p in range(0, 128):
        n += 1
        s = m.midi_pitch_to_pitch_spelling(p)
        if m.pitch_spelling_to_midi_pitch(*s) != p:
            return False, n, {"input": p, "what": "midi -> spelling -> midi gives %r" % (m.pitch_spelling_to_midi_pitch(*s),)}
        # the same pitch as a numpy integer of every width a MIDI pitch fits in
        for dt in (np.uint8, np.int8, np.int16, np.int64):
            if p > np.iinfo(dt).max:
                continue
            s2 = m.midi_pitch_to_pitch_spelling(dt(p))
            if tuple(s2) != tuple(s):
                return False, n, {"input": [p, np.dtype(dt).name], "what": "spelling of %s(%d) is %r, of the Python integer %r" % (np.dtype(dt).name, p, tuple(s2), tuple(s))}
    for step in "CDEFGAB":
        for alter in range(-3, 4):
            for octave in range(-1, 10):
                n += 1
                if m.pitch_spelling_to_midi_pitch(step, alter, octave) != S.midi_of(step, alter, octave):
                    return False, n, {"input": [step, alter, octave], "what": "wrong midi"}
                if m.step2pc(step, alter) != (S.PC[step] + alter) % 12:  # documented: a pitch class, an integer in [0, 11] (C flat is 11, B sharp is 0)
                    return False, n, {"input": [step, alter], "what": "step2pc=%r" % m.step2pc(step, alter)}
    return True, n, ""


def closed_key_bijection():
    """30 keys: name <-> (fifths, mode) is a bijection; every fifths in -12..12 x every accepted mode spelling either maps
    to the circle-of-fifths name (|fifths| <= 7) or is rejected"""
    m = _music()
    n = 0
    names = set()
    for minor in (False, True):
        for f in range(-7, 8):
            n += 1
            mode = "minor" if minor else "major"
            nm = m.fifths_mode_to_key_name(f, mode)
            if nm != S.key_name(f, minor):
                return False, n, {"input": [f, mode], "what": "name %r, circle of fifths says %r" % (nm, S.key_name(f, minor))}
            back = m.key_name_to_fifths_mode(nm)
            if tuple(back) != (f, mode):
                return False, n, {"input": [f, mode], "what": "key_name_to_fifths_mode(%r) = %r" % (nm, back)}
            names.add(nm)
    if len(names) != 30:
        return False, n, {"input": None, "what": "names not distinct"}
    for f in range(-12, 13):
        for mode in ("major", "minor", None, "none", 1, -1):
            n += 1
            try:
                nm = m.fifths_mode_to_key_name(f, mode)
                if abs(f) > 7:
                    return False, n, {"input": [f, mode], "what": "fifths outside -7..7 mapped to %r instead of being rejected" % nm}
                if nm != S.key_name(f, mode in S.ACCEPTED_MINOR):
                    return False, n, {"input": [f, mode], "what": "wrong name %r" % nm}
            except Exception as e:
                if abs(f) <= 7:
                    return False, n, {"input": [f, mode], "what": "valid key rejected: %s" % e}
    import partitura.score as sc
    for f in range(-7, 8):
        for mode in ("major", "minor", None):
            n += 1
            if sc.KeySignature(f, mode).name != S.key_name(f, mode == "minor"):
                return False, n, {"input": [f, mode], "what": "KeySignature.name"}
    return True, n, ""


def closed_mode_clef_codes():
    m = _music()
    n = 0
    for mode in ("major", "minor"):
        n += 1
        if m.key_int_to_mode(m.key_mode_to_int(mode)) != mode:
            return False, n, {"input": mode, "what": "mode code does not decode to what was encoded"}
    signs = ["G", "F", "C", "percussion", "TAB", "jianpu", "none"]
    codes = set()
    for s in signs:
        n += 1
        c = m.clef_sign_to_int(s)
        codes.add(c)
        if m.clef_int_to_sign(c) != s:
            return False, n, {"input": s, "what": "clef code %r decodes to %r" % (c, m.clef_int_to_sign(c))}
    if len(codes) != len(signs):
        return False, n, {"input": None, "what": "clef codes not distinct"}
    import partitura.utils.globals as g
    for c, s in g.INT_TO_CLEF.items():
        n += 1
        if m.clef_sign_to_int(s) != c:
            return False, n, {"input": c, "what": "decode-encode mismatch"}
    return True, n, ""


def closed_intervals():
    import partitura.score as sc
    n = 0
    for number, q in S.interval_classes():
        for direction in ("up", "down"):
            n += 1
            iv = sc.Interval(number, q, direction)
            if iv.semitones != S.interval_semitones(number, q):
                return False, n, {"input": [number, q], "what": "semitones %r, diatonic arithmetic says %r" % (iv.semitones, S.interval_semitones(number, q))}
    import partitura.utils.globals as g
    if len(g.INTERVALCLASSES) != 39 or len(set(g.INTERVALCLASSES)) != 39:
        return False, n, {"input": None, "what": "not 39 interval classes"}
    for number in range(1, 8):
        for q in ("P", "M", "m", "A", "d", "AA", "dd", "X"):
            valid = q in (S.QUAL_PERFECT if number in S.PERFECT else S.QUAL_IMPERFECT)
            n += 1
            try:
                sc.Interval(number, q)
                ok = True
            except AssertionError:
                ok = False
            if ok != valid:
                return False, n, {"input": [number, q], "what": "validate accepts=%r, expected %r" % (ok, valid)}
    n += 1
    try:
        sc.Interval(3, "M", "sideways")
        return False, n, {"input": "sideways", "what": "invalid direction accepted"}
    except AssertionError:
        pass
    return True, n, ""


def closed_tuplets_durations():
    import partitura.score as sc
    import partitura.utils.globals as g
    m = _music()
    n = 0
    types = ["whole", "half", "quarter", "eighth", "16th", "32nd", "64th"]
    for at in types:
        for nt in types:
            for an in range(1, 10):
                for nn in range(1, 10):
                    n += 1
                    t = sc.Tuplet(actual_notes=an, normal_notes=nn, actual_type=at, normal_type=nt)
                    want = Fraction(nn, an) * S.note_value(nt) / S.note_value(at)
                    if t.duration_multiplier != want:
                        return False, n, {"input": [an, nn, at, nt], "what": "multiplier %r, expected %r" % (t.duration_multiplier, want)}
    # symbolic types x dots 0..3 x tuplet ratios x divs: numeric duration is divs*value*dots*normal/actual
    for label in g.LABEL_DURS:
        for dots in range(4):
            for (an, nn) in ((None, None), (3, 2), (5, 4), (7, 4), (2, 3)):
                for divs in (1, 2, 12, 480, 960):
                    n += 1
                    sd = {"type": label, "dots": dots}
                    if an:
                        sd.update(actual_notes=an, normal_notes=nn)
                    got = m.symbolic_to_numeric_duration(sd, divs)
                    want = divs * S.note_value(label) * S.dot_multiplier(dots) * (Fraction(nn, an) if an else 1)
                    if abs(Fraction(got) - want) > Fraction(1, 10**9):
                        return False, n, {"input": [label, dots, an, nn, divs], "what": "numeric duration %r, expected %s" % (got, want)}
    for unit, val in (("q", 1), ("h", 2), ("e", Fraction(1, 2)), ("q.", Fraction(3, 2)), ("h.", 3), ("e.", Fraction(3, 4)), ("h..", Fraction(7, 2))):
        n += 1
        if Fraction(m.to_quarter_tempo(unit, 100)) != 100 * val:
            return False, n, {"input": unit, "what": "to_quarter_tempo"}
    return True, n, ""


def closed_tables_agree():
    import partitura.utils.globals as g
    n = 0
    for s in "CDEFGAB":
        n += 1
        if g.MIDI_BASE_CLASS[s.lower()] != S.PC[s] or g.BASE_PC[s] != S.PC[s]:
            return False, n, {"input": s, "what": "pitch-class tables disagree with twelve-tone arithmetic"}
        if g.STEPS[s] != S.STEP_ORDER.index(s) or g.STEPS[S.STEP_ORDER.index(s)] != s:
            return False, n, {"input": s, "what": "STEPS is not the scale-order bijection"}
    for pc, (st, al) in g.DUMMY_PS_BASE_CLASS.items():
        n += 1
        if (S.PC[st.upper()] + al) % 12 != pc:
            return False, n, {"input": pc, "what": "DUMMY_PS_BASE_CLASS entry wrong"}
    if sorted(g.DUMMY_PS_BASE_CLASS) != list(range(12)):
        return False, n, {"input": None, "what": "DUMMY_PS_BASE_CLASS does not cover 0..11"}
    for k, v in g.INTERVAL_TO_SEMITONES.items():
        n += 1
        q, num = k[:-1], int(k[-1])
        if v != S.interval_semitones(num, q):
            return False, n, {"input": k, "what": "INTERVAL_TO_SEMITONES[%s]=%r, diatonic arithmetic says %r" % (k, v, S.interval_semitones(num, q))}
    for k, v in g.LABEL_DURS.items():
        n += 1
        if Fraction(v) != S.note_value(k):
            return False, n, {"input": k, "what": "LABEL_DURS"}
    for d, v in enumerate(g.DOT_MULTIPLIERS):
        n += 1
        if Fraction(v) != S.dot_multiplier(d):
            return False, n, {"input": d, "what": "DOT_MULTIPLIERS"}
    for i, sd in enumerate(g.SYM_DURS):
        n += 1
        want = S.note_value(sd["type"]) * S.dot_multiplier(sd.get("dots", 0))
        if Fraction(float(g.DURS[i])) != want:
            return False, n, {"input": sd, "what": "DURS[%d]=%r but SYM_DURS says %s" % (i, g.DURS[i], want)}
    if list(g.DURS) != sorted(g.DURS):
        return False, n, {"input": None, "what": "DURS not sorted"}
    for k, v in g.ALT_TO_INT.items():
        n += 1
        if g.ALT_TO_INT[g.INT_TO_ALT[v]] != v:
            return False, n, {"input": k, "what": "ALT_TO_INT/INT_TO_ALT not inverse"}
    for alt, sign in g.ALTER_SIGNS.items():
        n += 1
        want = {None: "", 0: "", 1: "#", 2: "x", -1: "b", -2: "bb"}[alt]
        if sign != want:
            return False, n, {"input": alt, "what": "ALTER_SIGNS"}
    import partitura.score as sc
    for alt in (None, 0, 1, 2, -1, -2):
        n += 1
        if sc.Note("C", 4, alt).alter_sign != {None: "", 0: "", 1: "#", 2: "x", -1: "b", -2: "bb"}[alt]:
            return False, n, {"input": alt, "what": "Note.alter_sign"}
    return True, n, ""


def closed_ticks_arrays():
    """scalars and arrays alike: ticks = round(1e6*ppq*s/mpq)"""
    m = _music()
    n = 0
    for ppq, mpq in ((480, 500000), (96, 600000), (960, 250000)):
        secs = np.array([0.0, 0.001, 0.5, 1.0, 1.2345, 10.0, 59.999, 3600.0, -0.001, -0.5011, -2.0, -1.2345, -59.999])
        n += 1
        try:
            arr = m.seconds_to_midi_ticks(secs, mpq=mpq, ppq=ppq)
        except Exception as e:
            return False, n, {"input": {"kind": "ndarray", "ppq": ppq, "mpq": mpq}, "what": "array argument raised %s: %s" % (type(e).__name__, e)}
        for s, t in zip(secs, arr):
            n += 1
            sc = m.seconds_to_midi_ticks(float(s), mpq=mpq, ppq=ppq)
            if int(t) != sc:
                return False, n, {"input": [float(s), ppq, mpq], "what": "array %r vs scalar %r" % (t, sc)}
            exact = Fraction(10**6 * ppq) * Fraction(float(s)) / mpq
            if abs(sc - exact) > Fraction(1, 2):
                return False, n, {"input": [float(s), ppq, mpq], "what": "not the nearest tick"}
            back = m.midi_ticks_to_seconds(sc, mpq=mpq, ppq=ppq)
            if abs(Fraction(back) - Fraction(float(s))) > Fraction(mpq, 2 * 10**6 * ppq) + Fraction(1, 10**9):
                return False, n, {"input": [float(s), ppq, mpq], "what": "ticks -> seconds off by more than half a tick"}
        # tick arrays of narrow integer types (what a MIDI reader or a note array column may hold)
        for dt in (np.int32, np.int16, np.uint16, np.int64):
            tk_arr = np.array([0, 1, 4295, 30000], dtype=dt)
            secs_arr = np.asarray(m.midi_ticks_to_seconds(tk_arr, mpq=mpq, ppq=ppq)).ravel()
            for tk, sec in zip(tk_arr.tolist(), secs_arr):
                n += 1
                exact = Fraction(int(tk)) * mpq / (10**6 * ppq)
                if abs(Fraction(float(sec)) - exact) > Fraction(1, 10**9):
                    return False, n, {"input": [int(tk), str(np.dtype(dt)), ppq, mpq], "what": "ticks -> seconds of a %s array: %r, the formula gives %s" % (np.dtype(dt), float(sec), float(exact))}
        # ticks that are not whole numbers (rescaled from another resolution), as an array and one by one
        frac = np.array([0.5, 239.5, 1e-3, 959.999, -0.25, -3.5, 1234.5678])
        fa = m.midi_ticks_to_seconds(frac, mpq=mpq, ppq=ppq)
        for tk, sec in zip(frac, np.asarray(fa).ravel()):
            n += 1
            one = m.midi_ticks_to_seconds(float(tk), mpq=mpq, ppq=ppq)
            exact = Fraction(float(tk)) * mpq / (10**6 * ppq)
            if abs(Fraction(float(sec)) - exact) > Fraction(1, 10**9) or abs(Fraction(float(one)) - exact) > Fraction(1, 10**9):
                return False, n, {"input": [float(tk), ppq, mpq], "what": "ticks -> seconds: array gives %r, scalar %r, the formula %s" % (float(sec), float(one), float(exact))}
        if not np.issubdtype(np.asarray(arr).dtype, np.integer):
            return False, n, {"input": {"kind": "ndarray"}, "what": "array result is not integer typed"}
        back = m.midi_ticks_to_seconds(np.asarray(arr), mpq=mpq, ppq=ppq)
        if not np.allclose(back, np.asarray(arr) * mpq / (1e6 * ppq)):
            return False, n, {"input": {"kind": "ndarray"}, "what": "midi_ticks_to_seconds on arrays"}
    return True, n, ""


CLOSED = [
    ("note_names_documented_grammar", closed_note_names),
    ("midi_spelling_roundtrip_0..127_and_all_spellings", closed_midi_roundtrip),
    ("key_name_fifths_mode_bijection_30_keys_and_rejection", closed_key_bijection),
    ("mode_and_clef_codes_decode_to_what_was_encoded", closed_mode_clef_codes),
    ("interval_classes_sizes_and_validation", closed_intervals),
    ("tuplet_multiplier_and_symbolic_durations", closed_tuplets_durations),
    ("tables_agree", closed_tables_agree),
    ("seconds_ticks_scalars_and_arrays", closed_ticks_arrays),
]

TRUSTED = ["np.mod == Python % on ints", "np.round half-to-even", "dict/list lookup semantics of CPython"]


def bounded(b):
    """frequency <-> MIDI pitch in equal temperament (transcendental: outside the SMT fragment)"""
    m = _music()
    b.rules.append("exhaustive MIDI pitches 0..127 x a4 in {415,440,442,466.16}: frequency_to_midi_pitch(midi_pitch_to_frequency(p)) == p, "
                   "f(69)=a4, octave doubles; arrays agree with scalars; non-trivial = every (pitch,a4) pair")
    b.scopes.append("pitch 0..127, 4 reference tunings")
    for a4 in (415.0, 440.0, 442.0, 466.16):
        for p in range(128):
            ok, f = b.guard("frequency/roundtrip", [p, a4], lambda: m.midi_pitch_to_frequency(p, a4))
            if not ok:
                continue
            ok, back = b.guard("frequency/roundtrip", [p, a4], lambda: m.frequency_to_midi_pitch(f, a4))
            if ok:
                b.case("frequency/roundtrip", int(back) == p, [p, a4], "pitch %d -> %r Hz -> %r" % (p, f, back))
            b.case("frequency/equal_temperament", abs(f - a4 * 2 ** ((p - 69) / 12)) <= 1e-9 * f, [p, a4], "f=%r" % f)
        arr = np.arange(128)
        ok, fr = b.guard("frequency/array", ["arange(128)", a4], lambda: m.frequency_to_midi_pitch(m.midi_pitch_to_frequency(arr, a4), a4))
        if ok:
            b.case("frequency/array", bool(np.array_equal(np.asarray(fr), arr)), ["arange(128)", a4], "array round trip differs")
        # arrays of every numeric type a pitch or frequency column may have, asked twice: the same answer, and the caller's array as it was
        for dt in ("float64", "float32", "int64", "int32", "int16", "uint8", "int8"):
            pa_ = np.array([21, 60, 69, 108, 127] if dt != "int8" else [0, 5, 21, 60, 69], dtype=dt) if dt != "uint8" else np.array([0, 5, 8, 60, 127], dtype=dt)
            keep = pa_.copy()
            case_ = ["%s array" % dt, a4]
            ok, f1 = b.guard("frequency/array", case_, lambda: np.array(m.midi_pitch_to_frequency(pa_, a4), dtype=float))
            if not ok:
                continue
            ok, f2 = b.guard("frequency/array", case_, lambda: np.array(m.midi_pitch_to_frequency(pa_, a4), dtype=float))
            want = np.array([a4 * 2 ** ((int(p) - 69) / 12) for p in keep])
            b.case("frequency/array", ok and bool(np.array_equal(pa_, keep)) and bool(np.allclose(f1, want, rtol=1e-6)) and bool(np.allclose(f2, want, rtol=1e-6)), case_,
                   "pitches %r (were %r); first answer %r, second %r, equal temperament %r" % (pa_.tolist(), keep.tolist(), np.round(f1, 3).tolist(), None if f2 is None else np.round(f2, 3).tolist(), np.round(want, 3).tolist()))
            fa_ = np.array(want, dtype=dt if dt.startswith("float") else "float64")
            keepf = fa_.copy()
            ok, p1 = b.guard("frequency/array", case_, lambda: np.array(m.frequency_to_midi_pitch(fa_, a4)))
            if ok:
                b.case("frequency/array", bool(np.array_equal(fa_, keepf)) and [int(x) for x in np.asarray(p1).ravel()] == [int(x) for x in keep], case_,
                       "frequencies -> pitches %r, expected %r; the caller's array %s" % (np.asarray(p1).tolist(), keep.tolist(), "unchanged" if np.array_equal(fa_, keepf) else "was overwritten"))


def replay_case(clause, case):
    class B:
        fails = []

        def case(self, c, ok, cs, what="", **k):
            if not ok and cs == case:
                self.fails.append(what)

        def guard(self, c, cs, fn, what=""):
            try:
                return True, fn()
            except Exception as e:
                self.fails.append(str(e))
                return False, None
        rules = []
        scopes = []
    bb = B()
    bounded(bb)
    return (not bb.fails), (bb.fails[0] if bb.fails else "holds")
