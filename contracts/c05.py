"""C05 - the note array is a faithful table of the score.

Tier P/closed: `GenericNote.duration_tied` / `end_tied` (sum over the tie chain; closed over chains of length 1..5 with symbolic-free
               integer spans), the two-pass sort used by note_array_from_note_list (stable sort by onset of a pitch-sorted array is
               lexicographic (onset, pitch): closed over all arrays of <= 5 rows over small domains), `create_divs_from_beats`
               (closed over small rational grids: every onset and duration equals div/divs exactly).
Tier B:        every column of Part.note_array / Score.note_array / Part.rest_array against the timeline and the exact maps, all
               combinations of the include_* options, lcm rescaling and id prefixing, inverse construction (bounded).
"""
import itertools
from fractions import Fraction

import numpy as np

LEVEL = "exploration"
MANIFEST = {
    "level": "exploration",
    "technique": "contract-based: SMT contract on GenericNote.duration_tied/end_tied (tie chains of 1..4 notes, arbitrary times); run-time checking (bounded) of the note/rest array contracts on the real functions, with exhaustive closed evaluation of the tie-chain sums, the two-pass sort lemma and create_divs_from_beats over small domains; structured-array construction is outside the SMT subset",
    "text": "One row per sounding note (tie chains merged, grace notes kept with zero duration), onset/duration in divisions = timeline, quarters/beats = exact maps, pitch, voice, id, every optional column = what the score states at the onset, rows ordered by onset then pitch; score-level arrays = union rescaled to the lcm with part-prefixed ids on request; rest arrays; note array -> score -> note array. All on generated parts/scores for all 2^7 option combinations (quick: a covering subset).",
    "note": "bounded only; float32 columns compared with 1e-5 tolerance; parts with several divisions values are excluded from include_divs_per_quarter (documented as unsupported)",
}
EXPLANATION = "Bounded run-time contracts with exact oracles; closed exhaustive checks of the small arithmetic kernels."

OPTS = ["include_pitch_spelling", "include_key_signature", "include_time_signature", "include_metrical_position", "include_grace_notes", "include_staff",
        "include_divs_per_quarter"]


def _sc():
    import partitura.score as sc
    return sc


def closed_tie_chain_sums():
    sc = _sc()
    n = 0
    for k in range(1, 6):
        for durs in itertools.product((1, 3, 8), repeat=k):
            n += 1
            p = sc.Part("P", quarter_duration=4)
            notes = []
            t = 0
            for d in durs:
                nt = sc.Note("C", 4, voice=1)
                p.add(nt, t, t + d)
                if notes:
                    notes[-1].tie_next, nt.tie_prev = nt, notes[-1]
                notes.append(nt)
                t += d
            if notes[0].duration_tied != sum(durs) or notes[0].end_tied.t != t:
                return False, n, {"input": list(durs), "what": "duration_tied %r end_tied %r, chain sums to %d" % (notes[0].duration_tied, notes[0].end_tied.t, sum(durs))}
            if [x.id for x in p.notes_tied] != [notes[0].id] or len(p.notes_tied) != 1:
                return False, n, {"input": list(durs), "what": "notes_tied is not exactly the first note of the chain"}
    return True, n, ""


def closed_two_pass_sort():
    """np.argsort by pitch, then stable mergesort by onset: the result is ordered by (onset, pitch) for every small array"""
    n = 0
    for k in range(1, 6):
        for rows in itertools.product(list(itertools.product((0, 1, 2), (60, 62))), repeat=k):
            n += 1
            a = np.array(list(rows), dtype=[("o", int), ("p", int)])
            a = a[np.argsort(a["p"])]
            a = a[np.argsort(a["o"], kind="mergesort")]
            got = [(int(x["o"]), int(x["p"])) for x in a]
            if got != sorted(list(rows)):
                return False, n, {"input": list(rows), "what": "two-pass sort gives %r" % got}
    return True, n, ""


def closed_divs_from_beats():
    from partitura.musicanalysis.note_array_to_score import create_divs_from_beats
    n = 0
    grid = [Fraction(a, b) for b in (1, 2, 3, 4) for a in range(0, 2 * b + 1)]
    vals = sorted(set(grid))
    for on in itertools.combinations(vals, 2):
        for dur in (Fraction(1, 2), Fraction(1, 3), Fraction(1, 4), Fraction(3, 2)):
            n += 1
            na = np.array([(float(o), float(dur)) for o in on], dtype=[("onset_beat", "f8"), ("duration_beat", "f8")])
            try:
                r = create_divs_from_beats(na)
            except Exception as e:
                return False, n, {"input": [[str(o) for o in on], str(dur)], "what": "raised %s: %s" % (type(e).__name__, e)}
            arr, divs = r
            od, dd = arr["onset_div"], arr["duration_div"]
            for o, x in zip(on, od):
                if Fraction(int(x), int(divs)) != o - min(on) and Fraction(int(x), int(divs)) != o:
                    return False, n, {"input": [[str(o) for o in on], str(dur)], "what": "onset %s represented as %d/%d" % (o, x, divs)}
            for x in dd:
                if Fraction(int(x), int(divs)) != dur:
                    return False, n, {"input": [[str(o) for o in on], str(dur)], "what": "duration %s represented as %d/%d" % (dur, x, divs)}
    return True, n, ""


# ------------------------------------------------------------------------------------------------ P: tie chains
def _tie_chain_contracts():
    """GenericNote.duration_tied / end_tied on chains of 1..4 tied notes with arbitrary (symbolic, not necessarily contiguous) start and
    end times: the sum of the members' own durations, and the end point of the last member"""
    from pyv.contracts import Contract, Int, ListOf, TupleOf

    def build(ip, a):
        sc = _sc()
        tps, notes = [], []
        for (s, e) in a.times:
            if ip is None:
                ts, te = sc.TimePoint(s), sc.TimePoint(e)
                n = sc.Note.__new__(sc.Note)
                n.__dict__.update(start=ts, end=te, tie_next=None, tie_prev=None)
            else:
                ts, te = ip.new_symobj(sc.TimePoint, t=s), ip.new_symobj(sc.TimePoint, t=e)
                n = ip.new_symobj(sc.Note, start=ts, end=te, tie_next=None, tie_prev=None)
            notes.append(n)
            tps.append((ts, te))
        for x, y in zip(notes, notes[1:]):
            if ip is None:
                x.__dict__["tie_next"], y.__dict__["tie_prev"] = y, x
            else:
                ip.setattr(x, "tie_next", y)
                ip.setattr(y, "tie_prev", x)
        return notes, tps

    def call(ip, fobj, a):
        notes, tps = build(ip, a)
        if ip is None:
            return notes[0].duration_tied, notes[0].end_tied, tps
        return ip.getattr(notes[0], "duration_tied"), ip.getattr(notes[0], "end_tied"), tps

    def ens(a, r):
        total = 0
        for (s, e) in a.times:
            total = total + (e - s)
        return (r[0] == total) & (r[1] is r[2][-1][1])
    out = []
    for n in (1, 2, 3, 4):
        out.append(Contract("C05", "partitura.score.GenericNote.duration_tied", [("times", ListOf(TupleOf(Int(0, None), Int(0, None)), n))],
                            call=call, ensures=[("sum_of_the_chain_members_durations_and_end_of_the_last_member", ens)], name="GenericNote.duration_tied/end_tied[chain of %d]" % n))
    return out


CONTRACTS = _tie_chain_contracts()

CLOSED = [("tie_chain_sums_and_notes_tied", closed_tie_chain_sums), ("two_pass_sort_is_lexicographic", closed_two_pass_sort),
          ("create_divs_from_beats_exact", closed_divs_from_beats)]


# ------------------------------------------------------------------------------------------------ bounded
def _expected_rows(part, opts):
    from gen import oracles as O
    sc = _sc()
    rows = []
    notes = O.sounding_notes(part)
    mus = bool(getattr(part, "_use_musical_beat", False))
    for (on, dur, pitch, n) in notes:
        r = {"onset_div": on, "duration_div": dur, "pitch": pitch, "id": n.id, "voice": n.voice,
             "onset_quarter": O.quarter_pos(part, on), "duration_quarter": O.quarter_pos(part, on + dur) - O.quarter_pos(part, on),
             "onset_beat": O.beat_pos(part, on, mus), "duration_beat": O.beat_pos(part, on + dur, mus) - O.beat_pos(part, on, mus)}
        if opts.get("include_pitch_spelling"):
            r.update(step=n.step, alter=n.alter or 0, octave=n.octave)
        if opts.get("include_key_signature"):
            ks = sorted(part.iter_all(sc.KeySignature), key=lambda k: k.start.t)
            cur = None
            for k in ks:
                if k.start.t <= on or cur is None:
                    cur = k
            r.update(ks_fifths=cur.fifths if cur else 0, ks_mode=(-1 if cur is not None and cur.mode in ("minor", -1) else 1))
        if opts.get("include_time_signature"):
            ts = O.ts_in_force(part, on)
            r.update(ts_beats=ts.beats if ts else 4, ts_beat_type=ts.beat_type if ts else 4)
        if opts.get("include_grace_notes"):
            r.update(is_grace=int(isinstance(n, sc.GraceNote)), grace_type=(n.grace_type if isinstance(n, sc.GraceNote) else ""))
        if opts.get("include_staff"):
            r.update(staff=n.staff or 0)
        if opts.get("include_divs_per_quarter"):
            r.update(divs_pq=part._quarter_durations[0])
        if opts.get("include_metrical_position"):
            ms = sorted((m.start.t, m.end.t) for m in part.iter_all(sc.Measure))
            cur = None
            for m in ms:
                if m[0] <= on:
                    cur = m
            if cur is not None and len(ms) >= 2:
                start = cur[0]
                if cur == ms[0]:
                    ts = O.ts_in_force(part, 0)
                    full = Fraction(ts.beats * 4, ts.beat_type) * O.q_in_force(part, 0) if ts else None
                    if full is not None and cur[1] - cur[0] < full:
                        start = cur[1] - full
                r.update(rel_onset_div=int(on - start), tot_measure_div=int(cur[1] - start), is_downbeat=int(on - start == 0))
        rows.append(r)
    rows.sort(key=lambda r: (r["onset_div"], r["pitch"]))
    return rows


def _compare(b, clause, case, na, rows, voice_free=False):
    ok, what = len(na) == len(rows), "%d rows, expected %d (one per sounding note)" % (len(na), len(rows))
    if ok:
        # rows with equal (onset, pitch) may appear in either order
        key = lambda r: (int(r["onset_div"]), int(r["pitch"]))
        if [key(r) for r in na] != [key(r) for r in rows]:
            ok, what = False, "row order/content by (onset_div, pitch): %r, expected %r" % ([key(r) for r in na][:8], [key(r) for r in rows][:8])
    if ok:
        pool = list(rows)
        for r in na:
            hit = None
            for w in pool:
                if key(w) != key(r):
                    continue
                good = True
                for k, v in w.items():
                    if k not in na.dtype.names:
                        good = False
                        what = "column %s missing" % k
                        break
                    g = r[k]
                    if k == "voice":
                        if v is None:
                            continue
                    if isinstance(v, Fraction):
                        if abs(float(g) - float(v)) > 1e-5 * (1 + abs(float(v))):
                            good = False
                            what = "row %r column %s = %r, expected %s" % (key(r), k, g, v)
                    elif isinstance(v, str) or v is None:
                        if str(g) != str(v if v is not None else "None"):
                            good = False
                            what = "row %r column %s = %r, expected %r" % (key(r), k, g, v)
                    elif int(g) != int(v):
                        good = False
                        what = "row %r column %s = %r, expected %r" % (key(r), k, g, v)
                    if not good:
                        break
                if good:
                    hit = w
                    break
            if hit is None:
                ok = False
                break
            pool.remove(hit)
    b.case(clause, ok, case, what if not ok else "")


def _parts(tier):
    from gen import scores as G
    sc = _sc()
    out = []
    out.append(("rich_divs12", lambda: G.rich_part("P1", 12)))
    out.append(("rich_divs6", lambda: G.rich_part("P1", 6)))
    # the timeline goes on after the last barline (a pedal mark and a final note held longer than the last bar)
    out.append(("timeline_continues_past_the_last_barline", lambda: G.build_part("P1", 4, notes=[("a", 0, 16, "C", None, 4, 1, 1), ("b", 16, 8, "D", None, 4, 1, 1), ("c", 24, 16, "E", None, 4, 1, 1), ("lo", 20, 4, "C", None, 3, 2, 1)],
                                                                                rests=[("r", 16, 4, 2, 1)], measures=[(0, 16), (16, 32)], key=(0, "major"),
                                                                                extra=lambda p, byid: p.add(sc.SustainPedalDirection(), 0, 44))))
    out.append(("tie_chain_3_measures", lambda: G.build_part("P1", 2, notes=[("a0", 0, 8, "B", None, 3, 1, 1), ("a1", 8, 8, "B", None, 3, 1, 1), ("a2", 16, 4, "B", None, 3, 1, 1), ("a3", 20, 4, "C", 1, 4, None, None),
                                                                               ("lo", 0, 24, "C", None, 2, 2, 2)], ties=[("a0", "a1"), ("a1", "a2")], key=(-2, "minor"))))
    out.append(("pickup_signature_change", lambda: G.build_part("P1", 4, ts=((0, 3, 4), (28, 6, 8)), notes=[("u", 0, 4, "G", None, 4, 1, 1), ("a", 4, 12, "C", None, 5, 1, 1), ("b", 16, 12, "E", -1, 5, 1, 1), ("c", 28, 6, "F", 1, 4, 1, 1),
                                                                                                             ("d", 34, 6, "A", None, 4, 1, 1)], measures=[(0, 4), (4, 16), (16, 28), (28, 40)], key=(3, "major"),
                                                                graces=[("g", 16, "D", None, 5, 1, 1, "b")])))
    # rests off the beat in a meter whose beat is not a quarter, a rest with a missing voice, notes in voice 0 next to voice 1
    out.append(("six_eight_rests_voice0", lambda: G.build_part("P1", 4, ts=((0, 6, 8),), notes=[("a", 0, 2, "C", None, 4, 0, 1), ("b", 4, 2, "D", None, 4, 1, 1), ("c", 6, 6, "E", None, 4, 0, 1),
                                                                                               ("d", 12, 6, "F", None, 4, 1, 1), ("e", 22, 2, "G", None, 4, 0, 1)],
                                                               rests=[("r0", 2, 2, 1, 1), ("r1", 18, 3, None, None), ("r2", 21, 1, 1, 1)], measures=[(0, 12), (12, 24)], key=(1, "major"))))
    out.append(("two_two_then_three_eight_rests", lambda: G.build_part("P1", 2, ts=((0, 2, 2), (8, 3, 8)), notes=[("a", 0, 3, "C", None, 4, 1, 1), ("b", 4, 4, "D", None, 4, 1, 1), ("c", 9, 2, "E", None, 4, 1, 1)],
                                                                       rests=[("r0", 3, 1, 1, 1), ("r1", 8, 1, 1, 1)], measures=[(0, 8), (8, 11)])))
    out.append(("relative_key_change_same_fifths", lambda: G.build_part("P1", 4, notes=[("a", 0, 8, "C", None, 4, 1, 1), ("b", 8, 8, "A", None, 3, 1, 1), ("c", 16, 8, "E", None, 4, 1, 1), ("d", 24, 8, "A", None, 3, 1, 1)],
                                                                       rests=[("r0", 32, 8, 1, 1)], key=(0, "major"), measures=[(0, 16), (16, 32), (32, 48)],
                                                                       extra=lambda p, byid: (p.add(_sc().KeySignature(0, "minor"), 16), p.add(_sc().KeySignature(3, "major"), 24), p.add(_sc().KeySignature(3, "minor"), 32)))))

    def counted_in_two():
        p = G.build_part("P1", 4, ts=((0, 4, 4), (32, 3, 4)), notes=[("a", 0, 6, "C", None, 4, 1, 1), ("b", 6, 10, "D", None, 4, 1, 1), ("c", 16, 16, "E", None, 4, 1, 1), ("d", 34, 4, "F", None, 4, 1, 1)],
                         measures=[(0, 16), (16, 32), (32, 44)])
        p.use_musical_beat({"4/4": 2, "3/4": 1})
        return p
    out.append(("four_four_counted_in_two_musical_beats", counted_in_two))

    def six_eight_musical():
        p = G.build_part("P1", 2, ts=((0, 6, 8),), notes=[("a", 0, 3, "C", None, 4, 1, 1), ("b", 3, 3, "D", None, 4, 1, 1), ("c", 6, 5, "E", None, 4, 1, 1)], measures=[(0, 6), (6, 12)])
        p.use_musical_beat()
        return p
    out.append(("six_eight_default_musical_beats", six_eight_musical))

    def upbeat_under_musical_beats(ts, divs, pick, user=None):
        def f():
            bar = 4 * divs * ts[0] // ts[1]
            notes = [("u", 0, pick, "G", None, 4, 1, 1)] + [("n%d" % k, pick + k * (bar // 2), bar // 2, "CDEF"[k % 4], None, 4, 1, 1) for k in range(4)]
            p = G.build_part("P1", divs, ts=((0, ts[0], ts[1]),), notes=notes, rests=[("r0", pick + 2 * bar, bar, 1, 1)], measures=[(0, pick), (pick, pick + bar), (pick + bar, pick + 2 * bar), (pick + 2 * bar, pick + 3 * bar)])
            p.use_musical_beat(user or {})
            return p
        return f
    # an upbeat of one eighth / of four eighths in 6/8, of two eighths in 9/8, of a quarter in 4/4 counted in two - all under musical beats
    out.append(("upbeat_of_an_eighth_in_six_eight_musical_beats", upbeat_under_musical_beats((6, 8), 2, 1)))
    out.append(("upbeat_of_four_eighths_in_six_eight_musical_beats", upbeat_under_musical_beats((6, 8), 2, 4)))
    out.append(("upbeat_of_two_eighths_in_nine_eight_musical_beats", upbeat_under_musical_beats((9, 8), 4, 4)))
    out.append(("upbeat_of_a_quarter_in_four_four_counted_in_two", upbeat_under_musical_beats((4, 4), 4, 4, {"4/4": 2})))
    if tier == "thorough":
        out.append(("plain", lambda: G.build_part("P1", 1, notes=[("a", 0, 4, "C", None, 4, 1, 1), ("b", 4, 4, "D", None, 4, 1, 1)])))
    return out


def _option_sets(tier):
    allsets = [dict(zip(OPTS, bits)) for bits in itertools.product((False, True), repeat=len(OPTS))]
    if tier == "thorough":
        return allsets
    cover = [dict.fromkeys(OPTS, False), dict.fromkeys(OPTS, True)] + [dict({o: (o == x) for o in OPTS}) for x in OPTS]
    import random
    rng = random.Random(5)
    return cover + rng.sample(allsets, 8)


def bounded(b):
    from gen import scores as G
    from gen import oracles as O
    import partitura as pt
    sc = _sc()
    parts = _parts(b.tier)
    osets = _option_sets(b.tier)
    b.rules.append("generated parts (%d: two staves/voices, chords, ties over one and several barlines, grace notes, pickup, signature/key change, "
                   "missing voice/staff) x %d include_* option sets (thorough: all 128); scores of 2-3 parts with divisions (2,3), (4,6,3), (4,2) x "
                   "unique_id_per_part; rest arrays; note array -> score -> note array for beat-only, div-only and both kinds of columns; "
                   "non-trivial = every (part, option set)" % (len(parts), len(osets)))
    b.scopes.append("%d parts x %d option sets; 3 multi-part scores" % (len(parts), len(osets)))
    for name, mk in parts:
        for opts in osets:
            part = mk()
            if opts.get("include_divs_per_quarter") and len(part._quarter_durations) != 1:
                continue
            case = {"part": name, "options": [k for k, v in opts.items() if v]}
            ok, na = b.guard("note_array/no_exception", case, lambda: part.note_array(**opts))
            if not ok:
                continue
            _compare(b, "note_array/one_row_per_sounding_note_every_column_as_the_score_states", case, na, _expected_rows(part, opts))
        # rest array
        part = mk()
        case = {"part": name, "rest_array": True}
        rests = sorted((r.start.t, r.end.t - r.start.t, r.id, r.voice) for r in part.iter_all(sc.Rest))
        for ropts in ({}, {"include_time_signature": True, "include_key_signature": True, "include_staff": True}, {"include_staff": True}, {"include_grace_notes": True},
                      {"include_pitch_spelling": True}, {"include_metrical_position": True}):
            ok, ra = b.guard("rest_array/no_exception", dict(case, options=sorted(ropts)), lambda: part.rest_array(**ropts))
            if ok:
                # the columns are those that were asked for
                want_cols = {"include_staff": ["staff"], "include_grace_notes": ["is_grace", "grace_type"], "include_time_signature": ["ts_beats", "ts_beat_type"], "include_key_signature": ["ks_fifths", "ks_mode"],
                             "include_pitch_spelling": ["step", "alter", "octave"], "include_metrical_position": ["rel_onset_div", "tot_measure_div", "is_downbeat"]}
                names = set(ra.dtype.names or ())
                wrong = [c for k, cols in want_cols.items() for c in cols if (c in names) != bool(ropts.get(k))]
                b.case("rest_array/optional_columns", not wrong, dict(case, options=sorted(ropts), columns=True), "columns present or missing against the options: %r (array has %r)" % (wrong, sorted(names)))
                got = sorted((int(r["onset_div"]), int(r["duration_div"]), str(r["id"])) for r in ra)
                b.case("rest_array/one_row_per_rest_with_timeline_values", got == [(a, d, str(i)) for (a, d, i, _) in rests], dict(case, options=sorted(ropts)), "rests %r, expected %r" % (got, rests))
                if ok and len(ra) and "ts_beats" in ra.dtype.names:
                    good = all(int(r["ts_beats"]) == O.ts_in_force(part, int(r["onset_div"])).beats for r in ra)
                    b.case("rest_array/optional_columns", good, dict(case, options=sorted(ropts)), "time signature column of the rest array")
                # the rest array obeys the rules of the note array: quarters and beats by the exact maps, voice and staff as stated
                bad = None
                byid = {str(r["id"]): r for r in ra}
                for rest in part.iter_all(sc.Rest):
                    r = byid.get(str(rest.id))
                    if r is None:
                        continue
                    on, off = rest.start.t, rest.end.t
                    mus_ = bool(getattr(part, "_use_musical_beat", False))
                    want = {"onset_quarter": O.quarter_pos(part, on), "duration_quarter": O.quarter_pos(part, off) - O.quarter_pos(part, on),
                            "onset_beat": O.beat_pos(part, on, mus_), "duration_beat": O.beat_pos(part, off, mus_) - O.beat_pos(part, on, mus_), "pitch": 0}
                    if rest.voice is not None:
                        want["voice"] = rest.voice
                    if "staff" in ra.dtype.names:
                        want["staff"] = rest.staff or 0
                    if "ts_beat_type" in ra.dtype.names:
                        want["ts_beat_type"] = O.ts_in_force(part, on).beat_type
                    for k, v in want.items():
                        if abs(float(r[k]) - float(v)) > 1e-5 * (1 + abs(float(v))):
                            bad = bad or "rest %s column %s = %r, the score states %s" % (rest.id, k, r[k], v)
                b.case("rest_array/columns_follow_the_rules_of_the_note_array", bad is None, dict(case, options=sorted(ropts)), bad or "", nontrivial=len(ra) > 0)
    # scores / lists of parts: lcm rescaling and id prefixing
    # a negative entry stands for a part of that many divisions that holds one rest and no note (its divisions divide the lcm of the
    # others, so that "the least common multiple of the parts" is the same number whether or not such a part is counted)
    for divs in ((2, 3), (4, 6, 3), (4, 2), (6, 6), (2, -1, 3), (-2, 3, 4), (4, 6, -3), (2, -6, 3)):
        for uid in (True, False):
            pl = [G.build_part("P%d" % i, d, notes=[("n%d_%d" % (i, k), k * d, d * (1 + k % 2), "CDE"[k % 3], None, 4 + i, 1, 1) for k in range(3)]) if d > 0 else
                  G.build_part("P%d" % i, -d, notes=[], rests=[("r%d" % i, 0, -4 * d, 1, 1)]) for i, d in enumerate(divs)]
            notefree = [i for i, d in enumerate(divs) if d < 0]
            divs = tuple(abs(d) for d in divs)
            score = G.simple_score(pl)
            case = {"score_divs": list(divs), "unique_id_per_part": uid}
            if notefree:
                case["parts_without_notes"] = notefree
            if len(pl) == 3 and not notefree:
                # the same parts with the first two inside a part group, and a score whose part list was changed after construction:
                # the array is the union over the score's parts as they are now, prefixed by their position in that flat list
                import partitura.score as _sc2
                grp = _sc2.PartGroup(group_name="g")
                grp.children = pl[:2]
                for c_ in pl[:2]:
                    c_.parent = grp
                nested = _sc2.Score(partlist=[grp, pl[2]], id="S")
                okn, nan = b.guard("score_array/no_exception", dict(case, structure="[group[P0, P1], P2]"), lambda: nested.note_array(unique_id_per_part=uid, include_divs_per_quarter=True))
                ok0, na0 = b.guard("score_array/no_exception", case, lambda: score.note_array(unique_id_per_part=uid, include_divs_per_quarter=True))
                if okn and ok0:
                    key_ = lambda na_: [(int(r["onset_div"]), int(r["duration_div"]), int(r["pitch"]), str(r["id"])) for r in na_]
                    b.case("score_array/union_rescaled_to_lcm_with_part_prefixed_ids", key_(nan) == key_(na0), dict(case, structure="[group[P0, P1], P2]"),
                           "rows of the score with a part group %r, of the flat score %r" % (key_(nan)[:4], key_(na0)[:4]))
            ok, na = b.guard("score_array/no_exception", case, lambda: score.note_array(unique_id_per_part=uid, include_divs_per_quarter=True))
            if not ok:
                continue
            L = O.lcm(divs)
            want = []
            for i, p in enumerate(pl):
                m = L // p._quarter_durations[0]
                for (on, dur, pitch, n) in O.sounding_notes(p):
                    want.append((on * m, dur * m, pitch, ("P%02d_" % i if uid else "") + n.id, L))
            want.sort(key=lambda r: (r[0], r[2]))
            got = [(int(r["onset_div"]), int(r["duration_div"]), int(r["pitch"]), str(r["id"]), int(r["divs_pq"])) for r in na]
            b.case("score_array/union_rescaled_to_lcm_with_part_prefixed_ids", got == want, case, "rows %r, expected %r" % (got[:6], want[:6]))
            ok, na2 = b.guard("score_array/no_exception", dict(case, via="list"), lambda: pt.utils.music.note_array_from_part_list(pl, unique_id_per_part=uid))
            if ok:
                b.case("score_array/list_of_parts_same_as_score", [(int(r["onset_div"]), int(r["pitch"]), str(r["id"])) for r in na2] == [(w[0], w[2], w[3]) for w in want], dict(case, via="list"), "list of parts differs")
            ok, ra = b.guard("score_rest_array/no_exception", case, lambda: pt.utils.music.rest_array_from_part_list(pl))
            if ok:
                b.case("score_rest_array/no_rests_no_rows", len(ra) == len(notefree), case, "rest array has %d rows for %d rests" % (len(ra), len(notefree)))
                want_ids = sorted("P%02d_r%d" % (i, i) for i in notefree)
                b.case("score_rest_array/ids_carry_the_position_of_their_part", sorted(str(x) for x in ra["id"]) == want_ids, case,
                       "rest ids %r, the rests belong to the parts at positions %r: %r" % (sorted(str(x) for x in ra["id"]), notefree, want_ids))
            # the dispatcher hands the id option on as it was given (False included)
            ok, na3 = b.guard("score_array/no_exception", dict(case, via="ensure_notearray"), lambda: pt.utils.music.ensure_notearray(score, unique_id_per_part=uid))
            if ok:
                b.case("score_array/list_of_parts_same_as_score", sorted(str(r["id"]) for r in na3) == sorted(w[3] for w in want), dict(case, via="ensure_notearray"),
                       "ids from ensure_notearray(score, unique_id_per_part=%r): %r, expected %r" % (uid, sorted(str(r["id"]) for r in na3)[:4], sorted(w[3] for w in want)[:4]))
    # inverse direction
    from partitura.musicanalysis.note_array_to_score import note_array_to_score
    base = [(0.0, 1.0, 0, 4, 60), (1.0, 0.5, 4, 2, 62), (1.5, 0.5, 6, 2, 64), (2.0, 2.0, 8, 8, 67), (2.0, 1.0, 8, 4, 72)]
    for kind in ("beat", "div", "both"):
        for with_ts in (False, True):
            dt = []
            if kind in ("beat", "both"):
                dt += [("onset_beat", "f4"), ("duration_beat", "f4")]
            if kind in ("div", "both"):
                dt += [("onset_div", "i4"), ("duration_div", "i4")]
            dt += [("pitch", "i4")]
            if with_ts:
                dt += [("ts_beats", "i4"), ("ts_beat_type", "i4")]
            rows = []
            for (ob, db, od, dd, p) in base:
                r = []
                if kind in ("beat", "both"):
                    r += [ob, db]
                if kind in ("div", "both"):
                    r += [od, dd]
                r += [p]
                if with_ts:
                    r += [4, 4]
                rows.append(tuple(r))
            na = np.array(rows, dtype=dt)
            case = {"inverse": kind, "time_signature_columns": with_ts}
            kw = {} if kind != "div" else {"divs": 4}
            ok, score = b.guard("inverse/no_exception", case, lambda: note_array_to_score(na, **kw))
            if not ok:
                continue
            back = score.note_array() if hasattr(score, "note_array") else score[0].note_array()
            if kind == "div":
                got = sorted((int(r["onset_div"]), int(r["duration_div"]), int(r["pitch"])) for r in back)
                want = sorted((od, dd, p) for (_, _, od, dd, p) in base)
                scale = (got[-1][0] / want[-1][0]) if want[-1][0] else 1
                same = [(round(a / scale), round(d / scale), p) for a, d, p in got] == want
            else:
                got = sorted((round(float(r["onset_beat"]), 4), round(float(r["duration_beat"]), 4), int(r["pitch"])) for r in back)
                want = sorted((ob, db, p) for (ob, db, _, _, p) in base)
                same = got == want
            b.case("inverse/note_array_to_score_and_back_same_onsets_durations_pitches", same, case, "round trip %r, expected %r" % (got, want))
    # arrays that carry the spelling (step, alter, octave): the notes of the new score are built from numpy scalars
    spelled = [(0.0, 1.0, 61, "C", 1, 4), (1.0, 1.0, 63, "E", -1, 4), (2.0, 1.0, 78, "F", 1, 5), (3.0, 1.0, 57, "A", 0, 3), (4.0, 2.0, 58, "C", -2, 4), (6.0, 2.0, 62, "C", 2, 4)]
    for adt in ("i4", "i8", "i2"):
        na = np.array([(o, d, p, st, al, oc) for (o, d, p, st, al, oc) in spelled],
                      dtype=[("onset_beat", "f4"), ("duration_beat", "f4"), ("pitch", "i4"), ("step", "U1"), ("alter", adt), ("octave", adt)])
        case = {"inverse": "beat", "spelling_columns": True, "alter_dtype": adt}
        ok, score = b.guard("inverse/no_exception", case, lambda: note_array_to_score(na))
        if ok:
            back = score.note_array(include_pitch_spelling=True) if hasattr(score, "note_array") else score[0].note_array(include_pitch_spelling=True)
            got = sorted((round(float(r["onset_beat"]), 4), round(float(r["duration_beat"]), 4), int(r["pitch"]), str(r["step"]), int(r["alter"]), int(r["octave"])) for r in back)
            want = sorted((o, d, p, st, al, oc) for (o, d, p, st, al, oc) in spelled)
            b.case("inverse/note_array_to_score_and_back_same_onsets_durations_pitches", got == want, case, "round trip %r, expected %r" % (got, want))
    # pitches below the piano's lowest key (the array has no spelling columns: the new notes are spelled by the library)
    low = [(0.0, 1.0, 5), (1.0, 1.0, 12), (2.0, 1.0, 19), (3.0, 1.0, 20), (4.0, 1.0, 0), (5.0, 1.0, 7), (6.0, 1.0, 10), (7.0, 1.0, 21)]
    na = np.array(low, dtype=[("onset_beat", "f4"), ("duration_beat", "f4"), ("pitch", "i4")])
    case = {"inverse": "beat", "pitches_below_A0": True}
    ok, score = b.guard("inverse/no_exception", case, lambda: note_array_to_score(na))
    if ok:
        back = score.note_array() if hasattr(score, "note_array") else score[0].note_array()
        got = sorted((round(float(r["onset_beat"]), 4), round(float(r["duration_beat"]), 4), int(r["pitch"])) for r in back)
        b.case("inverse/note_array_to_score_and_back_same_onsets_durations_pitches", got == sorted(low), case, "round trip %r, expected %r" % (got, sorted(low)))
    # arrays with grace notes (rows of duration zero) in front of their main notes, voices numbered from 0 and from 1
    grows = [(0, 4, 72, 0), (4, 0, 76, 0), (4, 4, 74, 0), (8, 8, 76, 0), (16, 0, 79, 0), (16, 0, 81, 0), (16, 8, 77, 0), (24, 8, 76, 0),
             (0, 8, 48, 1), (8, 0, 50, 1), (8, 8, 52, 1), (16, 16, 55, 1)]
    for vbase in (0, 1):
        for with_ts in (False, True):
            dt = [("onset_beat", "f4"), ("duration_beat", "f4"), ("onset_div", "i4"), ("duration_div", "i4"), ("pitch", "i4"), ("voice", "i4")]
            if with_ts:
                dt += [("ts_beats", "i4"), ("ts_beat_type", "i4")]
            na = np.array([(o / 4.0, d / 4.0, o, d, p, v + vbase) + ((4, 4) if with_ts else ()) for (o, d, p, v) in grows], dtype=dt)
            case = {"inverse": "both", "grace_notes": True, "lowest_voice_number": vbase, "time_signature_columns": with_ts}
            ok, score = b.guard("inverse/no_exception", case, lambda: note_array_to_score(na))
            if ok:
                back = score.note_array(include_grace_notes=True) if hasattr(score, "note_array") else score[0].note_array(include_grace_notes=True)
                got = sorted((int(r["onset_div"]), int(r["duration_div"]), int(r["pitch"])) for r in back)
                want = sorted((o, d, p) for (o, d, p, _) in grows)
                scale = (got[-1][0] / want[-1][0]) if got and want[-1][0] else 1
                same = len(got) == len(want) and [(round(a_ / scale), round(d_ / scale), p_) for a_, d_, p_ in got] == want
                b.case("inverse/note_array_to_score_and_back_same_onsets_durations_pitches", same, case, "round trip %r, expected %r" % (got, want))
    # a note array read, the notes respelled or moved by an octave, the note array read again: the pitch column follows the notes
    for name, mk in parts[:4]:
        part = mk()
        case = {"part": name, "note_array_read_then_notes_respelled_then_read_again": True}
        ok, _ = b.guard("note_array/no_exception", case, lambda: part.note_array(include_pitch_spelling=True))
        if not ok:
            continue
        for k, n in enumerate(part.iter_all(sc.Note, include_subclasses=True)):
            if k % 3 == 0:
                n.alter = (n.alter or 0) + 1
            elif k % 3 == 1:
                n.octave = n.octave + 1
            else:
                n.step = {"C": "D", "D": "E", "E": "F", "F": "G", "G": "A", "A": "B", "B": "C"}[n.step]
        opts = {"include_pitch_spelling": True}
        ok, na = b.guard("note_array/no_exception", case, lambda: part.note_array(**opts))
        if ok:
            _compare(b, "note_array/one_row_per_sounding_note_every_column_as_the_score_states", case, na, _expected_rows(part, opts))
    _inverse_from_parts(b)


def _inverse_from_parts(b):
    """note arrays taken from generated parts with signature changes (numerator only, denominator only, both) -> score -> note array"""
    from gen import scores as G
    from partitura.musicanalysis.note_array_to_score import note_array_to_score
    # arrays with a pickup (negative onsets in beats), with and without the clean-up pass
    for name, ts, pick in (("pickup_3_4", (3, 4), 4), ("pickup_6_8", (6, 8), 2)):
        bar = 4 * 4 * ts[0] // ts[1]
        notes = [("u", 0, pick, "G", None, 4, 1, 1)] + [("n%d" % k, pick + k * (bar // 3), bar // 3, "CDEFGAB"[k % 7], None, 4, 1, 1) for k in range(6)]
        part = G.build_part("P", 4, ts=((0, ts[0], ts[1]),), notes=notes, measures=[(0, pick), (pick, pick + bar), (pick + bar, pick + 2 * bar)])
        na = part.note_array(include_time_signature=True)
        cols = ["onset_beat", "duration_beat", "onset_div", "duration_div", "pitch", "ts_beats", "ts_beat_type"]
        sub = np.array([tuple(r[c] for c in cols) for r in na], dtype=[(c, na.dtype[c]) for c in cols])
        for sanitize in (True, False):
            case = {"inverse_from_part": name, "sanitize": sanitize}
            ok, score = b.guard("inverse/no_exception", case, lambda: note_array_to_score(sub, sanitize=sanitize))
            if not ok:
                continue
            back = score.note_array() if hasattr(score, "note_array") else score[0].note_array()
            got = sorted((round(float(r["onset_beat"]), 4), round(float(r["duration_beat"]), 4), int(r["pitch"])) for r in back)
            want = sorted((round(float(r["onset_beat"]), 4), round(float(r["duration_beat"]), 4), int(r["pitch"])) for r in na)
            b.case("inverse/note_array_to_score_and_back_same_onsets_durations_pitches", got == want, case, "round trip %r, expected %r" % (got[:5], want[:5]))
    for name, tss in (("3_4_to_3_8", ((0, 3, 4), (24, 3, 8))), ("2_4_to_2_2", ((0, 2, 4), (16, 2, 2))), ("4_4_to_6_8", ((0, 4, 4), (32, 6, 8))), ("3_4_to_4_4", ((0, 3, 4), (24, 4, 4)))):
        first_len = tss[1][0]
        notes = [("n%d" % k, k * 4, 4, "CDEFGAB"[k % 7], None, 4, 1, 1) for k in range(first_len // 4 + 6)]
        part = G.build_part("P", 8, ts=tss, notes=notes)
        na = part.note_array(include_time_signature=True)
        for cols in (["onset_beat", "duration_beat", "pitch", "ts_beats", "ts_beat_type"], ["onset_beat", "duration_beat", "onset_div", "duration_div", "pitch", "ts_beats", "ts_beat_type"]):
            if "onset_div" not in cols and len({bt for (_, _, bt) in tss}) > 1:
                continue  # documented: beat-only arrays must keep one beat unit (create_divs_from_beats assumes uniform beats)
            sub = np.array([tuple(r[c] for c in cols) for r in na], dtype=[(c, na.dtype[c]) for c in cols])
            case = {"inverse_from_part": name, "columns": cols}
            ok, score = b.guard("inverse/no_exception", case, lambda: note_array_to_score(sub))
            if not ok:
                continue
            back = score.note_array() if hasattr(score, "note_array") else score[0].note_array()
            got = sorted((round(float(r["onset_beat"]), 4), round(float(r["duration_beat"]), 4), int(r["pitch"])) for r in back)
            want = sorted((round(float(r["onset_beat"]), 4), round(float(r["duration_beat"]), 4), int(r["pitch"])) for r in na)
            b.case("inverse/note_array_to_score_and_back_same_onsets_durations_pitches", got == want, case, "round trip %r, expected %r" % (got[4:10], want[4:10]))
