"""C13 - a piano roll shows exactly the given notes, in their cells, with their velocity.

closed-eval: `pianoroll_to_notearray` on EVERY roll with 2 active pitch rows x 4 columns x values {0, 1, 2} (6561 rolls, 128- and
             88-row shapes): output = all maximal constant-velocity runs, sorted; `get_time_units_from_note_array` preference order.
Tier B:      compute_pianoroll against an independent rasteriser: note arrays of <= 4 rows in every row order, score and performance
             units, with/without velocity and channel (incl. drum channel 9), collisions, x the product of onset_only, note_separation,
             pitch_margin, time_margin, piano_range, remove_silence, end_time, binary, return_idxs, time_div; pitch-class fold; inverse on
             grid-aligned non-touching notes (bounded: numpy + scipy.sparse end to end).
"""
import itertools
import math

import numpy as np

LEVEL = "exploration"
MANIFEST = {
    "level": "exploration",
    "technique": "contract-based run-time checking (bounded) of compute_pianoroll against an independent rasteriser over an option product; exhaustive closed evaluation of the run-length decoder pianoroll_to_notearray over all small rolls",
    "text": "Shape (128 / 88 / span + 2*margin rows; columns from the time span, resolution and margins), cell (p, j) non-zero exactly when a note of pitch p sounds in frame j (onset frame only in onset mode, last frame dropped with note separation, never less than one frame), value = that note's velocity (1 without velocities or in binary mode, maximum at collisions) for every row order; index rows; pitch-class fold; roll -> notes. Exhaustive over the stated option product on small note arrays (bounded); the decoder is exhaustively evaluated on 6561 x 2 rolls.",
    "note": "bounded; rounding at exact half frames accepts either neighbour (numpy rounds half to even); nothing here is counted as proved",
}
EXPLANATION = "Independent rasteriser oracle over an option product (bounded) and exhaustive closed evaluation of the decoder."


def closed_decoder_all_small_rolls():
    from partitura.utils.music import pianoroll_to_notearray
    n = 0
    for shape, rows in ((128, (60, 61)), (88, (0, 87))):
        for vals in itertools.product((0, 1, 2), repeat=8):
            n += 1
            roll = np.zeros((shape, 4), dtype=int)
            roll[rows[0], :] = vals[:4]
            roll[rows[1], :] = vals[4:]
            want = []
            for r in rows:
                j = 0
                while j < 4:
                    v = roll[r, j]
                    if v == 0:
                        j += 1
                        continue
                    k = j
                    while k < 4 and roll[r, k] == v:
                        k += 1
                    want.append((r + (21 if shape == 88 else 0), j / 2.0, (k - j) / 2.0, int(v)))
                    j = k
            want.sort(key=lambda x: (x[1], x[0], x[1] + x[2], x[3]))
            na = pianoroll_to_notearray(roll, time_div=2, time_unit="beat")
            got = [(int(r["pitch"]), float(r["onset_beat"]), float(r["duration_beat"]), int(r["velocity"])) for r in na]
            if got != want:
                return False, n, {"input": {"rows": shape, "values": list(vals)}, "what": "decoded %r, maximal runs are %r" % (got, want)}
    return True, n, ""


def closed_time_unit_preference():
    from partitura.utils.music import get_time_units_from_note_array
    n = 0
    pref_score = ["onset_beat", "onset_quarter", "onset_div"]
    pref_perf = ["onset_sec", "onset_tick"]
    names = pref_score + pref_perf
    for k in range(1, len(names) + 1):
        for sub in itertools.combinations(names, k):
            n += 1
            na = np.zeros(1, dtype=[(x, "f4") for x in sub] + [(x.replace("onset", "duration"), "f4") for x in sub])
            got = get_time_units_from_note_array(na)
            sc = [x for x in pref_score if x in sub]
            want = sc[0] if sc else [x for x in pref_perf if x in sub][0]
            if got != (want, want.replace("onset", "duration")):
                return False, n, {"input": list(sub), "what": "units %r, preferred %r" % (got, want)}
    return True, n, ""


CLOSED = [("run_length_decoder_all_small_rolls", closed_decoder_all_small_rolls), ("time_unit_preference_order", closed_time_unit_preference)]


# ------------------------------------------------------------------------------------------------ independent rasteriser
def _round_opts(x):
    """nearest integer; exactly half-way: both neighbours acceptable"""
    lo = math.floor(x)
    if abs(x - lo - 0.5) < 1e-9:
        return {lo, lo + 1}
    return {int(round(x))}


def raster(notes, time_div, onset_only, note_separation, pitch_margin, time_margin, piano_range, remove_silence, end_time, binary, has_velocity):
    """notes: list of (pitch, onset, duration, velocity).  returns (M, N, cells dict (row, col) -> value, per-note (row, on, off)) or None if a
    rounding tie makes the result ambiguous (such cases are skipped by the caller)"""
    on0 = min(o for (_, o, _, _) in notes)
    min_time = on0 if remove_silence else (0 if on0 >= 0 else on0)
    lo_p, hi_p = (min(p for (p, _, _, _) in notes), max(p for (p, _, _, _) in notes)) if pitch_margin > -1 else (0, 127)
    M = hi_p - lo_p + 1 + (2 * pitch_margin if pitch_margin > -1 else 0)
    cells = {}
    per = []
    max_off = 0
    for (p, o, d, v) in notes:
        ons = _round_opts(time_div * (o - min_time))
        durs = _round_opts(time_div * d)
        if len(ons) > 1 or len(durs) > 1:
            return None
        on = ons.pop() + int(time_margin * time_div)
        dur = max(durs.pop(), 1)
        off = on + dur
        max_off = max(max_off, off)
        row = p - lo_p + (pitch_margin if pitch_margin > -1 else 0)
        if onset_only:
            cols = [on]
            off_i = off
        else:
            off_i = max(on + 1, off - (1 if note_separation else 0))
            cols = range(on, off_i)
        val = 1 if (binary or not has_velocity) else v
        for c in cols:
            cells[(row, c)] = max(cells.get((row, c), 0), val)
        per.append((row, on, off_i, p))
    if end_time is None:
        N = int(math.ceil(time_div * time_margin + max_off))
    else:
        N = int(math.ceil(time_div * time_margin + time_div * (end_time - min_time)))
    if piano_range:
        cells = {(r - 21, c): v for (r, c), v in cells.items() if 21 <= r <= 108}
        per = [(r - 21, a, c, p) for (r, a, c, p) in per]
        M = 88
    return M, N, cells, per


def _note_arrays(tier):
    base = [
        ("two_notes", [(60, 0.0, 1.0, 64), (64, 1.0, 0.5, 80)]),
        ("unsorted_with_collision", [(67, 2.0, 1.0, 30), (60, 0.0, 2.0, 90), (60, 1.0, 2.0, 50), (72, 0.5, 0.25, 127)]),
        ("short_and_zero_length", [(61, 0.0, 0.05, 10), (62, 0.5, 0.0, 20), (63, 0.5, 0.125, 30)]),
        ("low_high_pitch", [(21, 0.0, 1.0, 1), (108, 0.5, 1.0, 2), (20, 1.0, 1.0, 3), (109, 1.0, 0.5, 4)]),
        ("late_start", [(60, 3.0, 1.0, 64), (62, 4.0, 1.0, 65)]),
    ]
    if tier == "thorough":
        base.append(("dense", [(60 + i % 3, 0.25 * i, 0.25 * (1 + i % 4), 10 * (i + 1)) for i in range(5)]))
    return base


def bounded(b):
    import random
    from partitura.utils.music import compute_pianoroll, compute_pitch_class_pianoroll, pianoroll_to_notearray
    rng = random.Random(b.seed)
    arrays = _note_arrays(b.tier)
    opts = list(itertools.product((False, True), (False, True), (-1, 0, 2), (0, 1), (False, True), (False, True), (None, "pad"), (False, True), (1, 4, 8)))
    if b.tier == "quick":
        opts = rng.sample(opts, 60) + [(False, True, -1, 0, False, True, None, False, 8), (False, False, -1, 0, False, True, None, False, 8), (True, False, 2, 1, False, False, "pad", True, 4)]
    b.rules.append("note arrays (%d: collisions, unsorted rows, sub-frame and zero-length notes, pitches inside/outside the piano range, late start) in "
                   "every row order (<= 24 permutations) x units {beat, sec} x {with, without} velocity x channel column incl. drum channel x option "
                   "tuples (onset_only, note_separation, pitch_margin, time_margin, piano_range, remove_silence, end_time, binary, time_div): %d; contract: "
                   "shape, every cell, index rows vs an independent rasteriser; non-trivial = every case" % (len(arrays), len(opts)))
    b.scopes.append("%d arrays x permutations x %d option tuples" % (len(arrays), len(opts)))
    for name, notes in arrays:
        perms = list(itertools.permutations(range(len(notes))))
        if len(perms) > 6 and b.tier == "quick":
            perms = [perms[0], perms[-1]] + rng.sample(perms, 3)
        for unit in ("beat", "sec"):
            for has_vel in (True, False):
                for (onset_only, sep, pm, tm, pr_range, rs, et, binary, td) in opts:
                    if pr_range and pm > -1:
                        continue
                    end_time = None
                    if et == "pad":
                        end_time = max(o + d for (_, o, d, _) in notes) + 1.0
                    exp = raster(notes, td, onset_only, sep, pm, tm, pr_range, rs, end_time, binary, has_vel)
                    if exp is None:
                        b.ties += 1
                        continue
                    M, N, cells, per = exp
                    for perm in perms:
                        rows = [notes[i] for i in perm]
                        dt = [("pitch", "i4"), ("onset_" + unit, "f4"), ("duration_" + unit, "f4")] + ([("velocity", "i4")] if has_vel else [])
                        na = np.array([r[:3] + ((r[3],) if has_vel else ()) for r in rows], dtype=dt)
                        case = {"array": name, "order": list(perm), "unit": unit, "velocity": has_vel, "onset_only": onset_only, "note_separation": sep,
                                "pitch_margin": pm, "time_margin": tm, "piano_range": pr_range, "remove_silence": rs, "end_time": end_time, "binary": binary, "time_div": td}
                        ok, res = b.guard("roll/no_exception", case, lambda: compute_pianoroll(na, time_unit=unit, time_div=td, onset_only=onset_only, note_separation=sep,
                                                                                                pitch_margin=pm, time_margin=tm, piano_range=pr_range, remove_silence=rs,
                                                                                                end_time=end_time, binary=binary, return_idxs=True))
                        if not ok:
                            continue
                        roll, idxs = res
                        arr = roll.toarray()
                        b.case("roll/shape", arr.shape == (M, N), case, "shape %r, expected %r" % (arr.shape, (M, N)))
                        if arr.shape == (M, N):
                            got = {(int(r), int(c)): int(arr[r, c]) for r, c in zip(*np.nonzero(arr))}
                            diff = [(k, got.get(k), cells.get(k)) for k in set(got) | set(cells) if got.get(k, 0) != cells.get(k, 0)]
                            b.case("roll/every_cell_holds_its_notes_velocity", not diff, case, "cells (row, col, got, expected) %r" % sorted(diff)[:5])
                        want_idx = [per[i] for i in perm]
                        gi = [tuple(int(x) for x in r) for r in idxs]
                        b.case("roll/index_rows_designate_the_notes_cells_in_input_order", gi == [tuple(w) for w in want_idx], case, "index rows %r, expected %r" % (gi, want_idx))
    # every time unit, named explicitly and inferred ("auto"), on arrays that carry only that unit
    grid_notes = [(60, 0, 2, 64), (64, 1, 3, 70), (67, 4, 1, 30), (60, 6, 2, 90)]
    for unit in ("beat", "quarter", "div", "sec", "tick"):
        ftype = "i4" if unit in ("div", "tick") else "f4"
        na = np.array(grid_notes, dtype=[("pitch", "i4"), ("onset_" + unit, ftype), ("duration_" + unit, ftype), ("velocity", "i4")])
        for tu in (unit, "auto"):
            case = {"time_unit": tu, "columns": unit}
            ok, roll = b.guard("roll/no_exception", case, lambda: compute_pianoroll(na, time_unit=tu, time_div=2, remove_silence=False))
            if ok:
                M, N, cells, _ = raster(grid_notes, 2, False, False, -1, 0, False, False, None, False, True)
                arr = roll.toarray()
                got = {(int(r), int(c)): int(arr[r, c]) for r, c in zip(*np.nonzero(arr))}
                b.case("roll/every_time_unit_named_or_inferred", arr.shape == (M, N) and got == cells, case, "shape %r (expected %r) or cells differ" % (arr.shape, (M, N)))
    # object inputs: a Performance shows the notes of ALL its performed parts; a Score in 'div' units shows every part on the common (lcm) grid
    import partitura.performance as pf
    from gen import scores as G
    pn = [[(60, 0.0, 1.0, 64), (64, 0.5, 1.0, 70)], [(72, 1.0, 1.5, 100), (48, 2.5, 0.5, 30)]]
    perf = pf.Performance([pf.PerformedPart([dict(id="p%dn%d" % (i, k), midi_pitch=p, note_on=o, note_off=o + d, velocity=v, track=i, channel=0) for k, (p, o, d, v) in enumerate(part)], id="P%d" % i)
                           for i, part in enumerate(pn)])
    case = {"input": "Performance with two performed parts"}
    ok, roll = b.guard("roll/no_exception", case, lambda: compute_pianoroll(perf, time_unit="sec", time_div=4, remove_silence=False))
    if ok:
        M, N, cells, _ = raster([n for part in pn for n in part], 4, False, False, -1, 0, False, False, None, False, True)
        arr = roll.toarray()
        got = {(int(r), int(c)): int(arr[r, c]) for r, c in zip(*np.nonzero(arr))}
        b.case("roll/object_inputs_show_every_part", arr.shape == (M, N) and got == cells, case, "shape %r (expected %r) or cells differ: the notes of some part are missing" % (arr.shape, (M, N)))
    for divs in ((2, 3), (4, 6), (4, 6, 1)):
        L = 1
        for d_ in divs:
            L = L * d_ // __import__("math").gcd(L, d_)
        parts = [G.build_part("P%d" % i, d_, notes=[("q%d_%d" % (i, k), k * d_, d_ * (1 + k % 2), "CEG"[k % 3], None, 3 + i, 1, 1) for k in range(3)]) for i, d_ in enumerate(divs)]
        sco = G.simple_score(parts)
        case = {"input": "Score", "divisions_of_the_parts": list(divs), "time_unit": "div"}
        ok, roll = b.guard("roll/no_exception", case, lambda: compute_pianoroll(sco, time_unit="div", time_div=1, remove_silence=False))
        if ok:
            notes = [(n.midi_pitch, n.start.t * L // d_, (n.end.t - n.start.t) * L // d_, 1) for p_, d_ in zip(parts, divs) for n in p_.notes]
            M, N, cells, _ = raster(notes, 1, False, False, -1, 0, False, False, None, False, False)
            arr = roll.toarray()
            got = {(int(r), int(c)): int(arr[r, c]) for r, c in zip(*np.nonzero(arr))}
            b.case("roll/object_inputs_show_every_part", arr.shape == (M, N) and got == cells, case, "shape %r, on the common grid of %d divisions per quarter the notes span %r" % (arr.shape, L, (M, N)))
    # a Part whose spellings cross the octave boundary (B sharp sounds the C above, C flat the B below): the row is the SOUNDING pitch
    from gen import oracles as O
    sp = G.build_part("P0", 2, notes=[("s0", 0, 2, "B", 1, 3, 1, 1), ("s1", 2, 2, "C", -1, 5, 1, 1), ("s2", 4, 2, "B", 2, 4, 1, 1), ("s3", 6, 2, "C", -2, 4, 1, 1), ("s4", 8, 2, "E", 1, 4, 1, 1), ("s5", 10, 2, "F", -1, 4, 1, 1)])
    for kw in ({}, {"piano_range": True}, {"pitch_margin": 2}):
        case = {"input": "Part with B sharp, C flat, B double sharp, C double flat", "options": kw}
        ok, res = b.guard("roll/no_exception", case, lambda: compute_pianoroll(sp, time_unit="div", time_div=1, remove_silence=False, **kw))
        if ok:
            notes = [(O.spelled_pitch(n), n.start.t, n.end.t - n.start.t, 1) for n in sp.notes]
            M, N, cells, _ = raster(notes, 1, False, False, kw.get("pitch_margin", -1), 0, bool(kw.get("piano_range")), False, None, False, False)
            arr = res.toarray()
            got = {(int(r), int(c)): int(arr[r, c]) for r, c in zip(*np.nonzero(arr))}
            b.case("roll/object_inputs_show_every_part", arr.shape == (M, N) and got == cells, case, "shape %r (expected %r); rows used %r, sounding pitches %r" % (
                arr.shape, (M, N), sorted({r for r, _ in got}), sorted({n[0] for n in notes})))
    # a PerformedPart: a note sounds until its sounding end; with the threshold at 127 (documented: pedal off) a pedal value of 127 holds nothing
    for thr, want_end in ((64, 2.0), (127, 1.0), (100, 1.0)):
        pp = pf.PerformedPart([dict(id="n0", midi_pitch=60, note_on=0.0, note_off=1.0, velocity=80, track=0, channel=0), dict(id="n1", midi_pitch=67, note_on=2.0, note_off=3.0, velocity=50, track=0, channel=0)],
                              controls=[dict(number=64, time=0.5, value=(127 if thr != 100 else 100), track=0, channel=0), dict(number=64, time=2.0, value=0, track=0, channel=0)], id="P0")
        pp.sustain_pedal_threshold = thr
        case = {"input": "PerformedPart", "pedal_value_between_the_notes": 127 if thr != 100 else 100, "sustain_pedal_threshold": thr}
        ok, res = b.guard("roll/no_exception", case, lambda: compute_pianoroll(pp, time_unit="sec", time_div=4, remove_silence=False))
        if ok:
            M, N, cells, _ = raster([(60, 0.0, want_end, 80), (67, 2.0, 1.0, 50)], 4, False, False, -1, 0, False, False, None, False, True)
            arr = res.toarray()
            got = {(int(r), int(c)): int(arr[r, c]) for r, c in zip(*np.nonzero(arr))}
            b.case("roll/object_inputs_show_every_part", arr.shape == (M, N) and got == cells, case, "shape %r (expected %r); the note of pitch 60 fills columns %r, it sounds until %.2f s" % (
                arr.shape, (M, N), sorted(c for (r, c) in got if r == 60), want_end))
    # a PerformedPart with its own clock in tick units, and a Performance asked again after its pedal threshold was changed
    for ppq_, mpq_ in ((4, 1000000), (8, 250000)):
        pp = pf.PerformedPart([dict(id="n0", midi_pitch=60, note_on=0.0, note_off=1.5, velocity=80, track=0, channel=0), dict(id="n1", midi_pitch=67, note_on=2.0, note_off=2.5, velocity=50, track=0, channel=0)],
                              id="P0", ppq=ppq_, mpq=mpq_)
        case = {"input": "PerformedPart", "ppq": ppq_, "mpq": mpq_, "time_unit": "tick"}
        ok, res = b.guard("roll/no_exception", case, lambda: compute_pianoroll(pp, time_unit="tick", time_div=1, remove_silence=False))
        if ok:
            tk = lambda s_: int(round(1e6 * ppq_ * s_ / mpq_))
            M, N, cells, _ = raster([(60, tk(0.0), tk(1.5) - tk(0.0), 80), (67, tk(2.0), tk(2.5) - tk(2.0), 50)], 1, False, False, -1, 0, False, False, None, False, True)
            arr = res.toarray()
            got = {(int(r), int(c)): int(arr[r, c]) for r, c in zip(*np.nonzero(arr))}
            b.case("roll/object_inputs_show_every_part", arr.shape == (M, N) and got == cells, case, "shape %r, in ticks of the part's own clock the notes span %r" % (arr.shape, (M, N)))
    perf2 = pf.Performance([pf.PerformedPart([dict(id="n0", midi_pitch=60, note_on=0.0, note_off=1.0, velocity=80, track=0, channel=0), dict(id="n1", midi_pitch=67, note_on=2.0, note_off=3.0, velocity=50, track=0, channel=0)],
                                             controls=[dict(number=64, time=0.5, value=100, track=0, channel=0), dict(number=64, time=2.0, value=0, track=0, channel=0)], id="P0")])
    case = {"input": "Performance", "sequence": "roll, then sustain_pedal_threshold = 127, then roll again"}
    ok, r1 = b.guard("roll/no_exception", case, lambda: compute_pianoroll(perf2, time_unit="sec", time_div=4, remove_silence=False).toarray())
    if ok:
        perf2[0].sustain_pedal_threshold = 127
        ok, r2 = b.guard("roll/no_exception", case, lambda: compute_pianoroll(perf2, time_unit="sec", time_div=4, remove_silence=False).toarray())
        if ok:
            M, N, cells, _ = raster([(60, 0.0, 1.0, 80), (67, 2.0, 1.0, 50)], 4, False, False, -1, 0, False, False, None, False, True)
            got = {(int(r), int(c)): int(r2[r, c]) for r, c in zip(*np.nonzero(r2))}
            b.case("roll/object_inputs_show_every_part", r2.shape == (M, N) and got == cells, case, "after the threshold was raised to 127 the note of pitch 60 still fills columns %r (it sounds for one second)" % sorted(c for (r, c) in got if r == 60))
    # a pedalled part whose pedal events are taken away and whose threshold is then set again: the notes sound until their release
    pp3 = pf.PerformedPart([dict(id="n0", midi_pitch=60, note_on=0.0, note_off=1.0, velocity=80, track=0, channel=0), dict(id="n1", midi_pitch=67, note_on=2.0, note_off=3.0, velocity=50, track=0, channel=0)],
                           controls=[dict(number=64, time=0.5, value=100, track=0, channel=0), dict(number=64, time=2.0, value=0, track=0, channel=0)], id="P0")
    pp3.controls = []
    pp3.sustain_pedal_threshold = 64
    case = {"input": "PerformedPart", "sequence": "pedal events removed, threshold set again, roll"}
    ok, res = b.guard("roll/no_exception", case, lambda: compute_pianoroll(pp3, time_unit="sec", time_div=4, remove_silence=False).toarray())
    if ok:
        M, N, cells, _ = raster([(60, 0.0, 1.0, 80), (67, 2.0, 1.0, 50)], 4, False, False, -1, 0, False, False, None, False, True)
        got = {(int(r), int(c)): int(res[r, c]) for r, c in zip(*np.nonzero(res))}
        b.case("roll/object_inputs_show_every_part", res.shape == (M, N) and got == cells, case, "the note of pitch 60 fills columns %r (it sounds for one second, no pedal event is left)" % sorted(c for (r, c) in got if r == 60))
    # a Part with a tie over the barline in the `quarter` unit (a tie chain fills the frames of all its notes)
    tied = G.build_part("P0", 4, notes=[("t0", 0, 12, "C", None, 4, 1, 1), ("t1", 12, 8, "C", None, 4, 1, 1), ("u", 0, 20, "G", None, 3, 2, 1)], ties=[("t0", "t1")], measures=[(0, 16), (16, 32)])
    for unit, div_ in (("quarter", 4), ("beat", 4), ("div", 1)):
        case = {"input": "Part with a tie chain", "time_unit": unit}
        ok, res = b.guard("roll/no_exception", case, lambda: compute_pianoroll(tied, time_unit=unit, time_div=div_, remove_silence=False).toarray())
        if ok:
            M, N, cells, _ = raster([(60, 0, 20, 1), (55, 0, 20, 1)], 1, False, False, -1, 0, False, False, None, False, False)
            got = {(int(r), int(c)): int(res[r, c]) for r, c in zip(*np.nonzero(res))}
            b.case("roll/object_inputs_show_every_part", res.shape == (M, N) and got == cells, case, "shape %r (expected %r); the tied C4 fills columns %r, it sounds for 20 sixteenths" % (res.shape, (M, N), sorted(c for (r, c) in got if r == 60)))
    # meters counted in halves and in whole notes (alla breve 2/2, 3/2, 2/1), rolled on the beat time line: a half note is one column per
    # beat at time_div=1 in x/2, a whole note is one column in x/1
    for (bts, btype) in ((2, 2), (3, 2), (2, 1)):
        d_ = 4
        beat = 4 * d_ // btype                                   # divisions per notated beat
        bar = bts * beat
        ab = G.build_part("P0", d_, ts=((0, bts, btype),), notes=[("h0", 0, beat, "C", None, 4, 1, 1), ("h1", beat, beat, "E", None, 4, 1, 1), ("h2", bar, 2 * beat, "G", None, 4, 1, 1), ("lo", 0, bar, "C", None, 3, 2, 1)],
                          measures=[(0, bar), (bar, 2 * bar)])
        for unit in ("beat", "auto"):
            case = {"input": "Part", "time_signature": "%d/%d" % (bts, btype), "time_unit": unit}
            ok, res = b.guard("roll/no_exception", case, lambda: compute_pianoroll(ab, time_unit=unit, time_div=2, remove_silence=False).toarray())
            if ok:
                M, N, cells, _ = raster([(60, 0, 1, 1), (64, 1, 1, 1), (67, bts, 2, 1), (48, 0, bts, 1)], 2, False, False, -1, 0, False, False, None, False, False)
                got = {(int(r), int(c)): int(res[r, c]) for r, c in zip(*np.nonzero(res))}
                b.case("roll/object_inputs_show_every_part", res.shape == (M, N) and got == cells, case, "shape %r (expected %r) with two columns per beat of a 1/%d note" % (res.shape, (M, N), btype))
    # parts with a history: a divisions change entered and undone at the same place; musical beats of the user's choice, reset, then the
    # default ones asked for - the roll shows the part as it is now
    def undone_divisions():
        p_ = G.build_part("P0", 4, ts=((0, 4, 4),), notes=[("a", 0, 8, "C", None, 4, 1, 1), ("b", 8, 8, "E", None, 4, 1, 1), ("c", 16, 8, "G", None, 4, 1, 1), ("d", 24, 8, "C", None, 5, 1, 1)], measures=[(0, 16), (16, 32)])
        p_.set_quarter_duration(16, 8)
        p_.set_quarter_duration(16, 4)
        return p_

    def beats_reset():
        p_ = G.build_part("P0", 4, ts=((0, 4, 4),), notes=[("a", 0, 8, "C", None, 4, 1, 1), ("b", 8, 8, "E", None, 4, 1, 1), ("c", 16, 8, "G", None, 4, 1, 1), ("d", 24, 8, "C", None, 5, 1, 1)], measures=[(0, 16), (16, 32)])
        p_.use_musical_beat({"4/4": 2})
        p_.use_notated_beat()
        p_.use_musical_beat()
        return p_
    for hname, mkh in (("divisions_change_entered_and_undone_at_the_same_place", undone_divisions), ("user_beats_then_notated_then_default_musical_beats", beats_reset)):
        for unit in ("beat", "quarter", "auto"):
            case = {"input": "Part", "history": hname, "time_unit": unit}
            ok, res = b.guard("roll/no_exception", case, lambda: compute_pianoroll(mkh(), time_unit=unit, time_div=2, remove_silence=False).toarray())
            if ok:
                # four half notes in 4/4: each lasts two quarters = two beats = four columns at two columns per beat
                M, N, cells, _ = raster([(60, 0, 2, 1), (64, 2, 2, 1), (67, 4, 2, 1), (72, 6, 2, 1)], 2, False, False, -1, 0, False, False, None, False, False)
                got = {(int(r), int(c)): int(res[r, c]) for r, c in zip(*np.nonzero(res))}
                b.case("roll/object_inputs_show_every_part", res.shape == (M, N) and got == cells, case, "shape %r (expected %r): four half notes in 4/4 at two columns per beat" % (res.shape, (M, N)))
    # meters with three beats to the bar (3/4, 3/8, 3/2) under the default musical beats: three beats stay three beats
    for (bts, btype) in ((3, 4), (3, 8), (3, 2)):
        d_ = 4
        beat = 4 * d_ // btype
        bar = 3 * beat
        def three():
            p_ = G.build_part("P0", d_, ts=((0, bts, btype),), notes=[("a", 0, beat, "C", None, 4, 1, 1), ("b", beat, 2 * beat, "E", None, 4, 1, 1), ("c", bar, bar, "G", None, 4, 1, 1)], measures=[(0, bar), (bar, 2 * bar)])
            p_.use_musical_beat()
            return p_
        for unit in ("beat", "auto"):
            case = {"input": "Part", "time_signature": "%d/%d" % (bts, btype), "default_musical_beats": True, "time_unit": unit}
            ok, res = b.guard("roll/no_exception", case, lambda: compute_pianoroll(three(), time_unit=unit, time_div=2, remove_silence=False).toarray())
            if ok:
                M, N, cells, _ = raster([(60, 0, 1, 1), (64, 1, 2, 1), (67, 3, 3, 1)], 2, False, False, -1, 0, False, False, None, False, False)
                got = {(int(r), int(c)): int(res[r, c]) for r, c in zip(*np.nonzero(res))}
                b.case("roll/object_inputs_show_every_part", res.shape == (M, N) and got == cells, case, "shape %r (expected %r): two bars of three beats at two columns per beat" % (res.shape, (M, N)))
    # a performed part made from a note array with track AND channel columns: the drum channel is channel 9, whatever the track is called
    for rows in ([(60, 0.0, 1.0, 64, 9, 0), (36, 0.0, 1.0, 100, 2, 9), (62, 1.0, 1.0, 70, 9, 3)], [(60, 0.0, 1.0, 64, 0, 0), (36, 0.5, 1.0, 100, 1, 9), (62, 1.0, 1.0, 70, 9, 1)]):
        na = np.array([(p_, o_, du_, v_, tr_, ch_, "n%d" % k) for k, (p_, o_, du_, v_, tr_, ch_) in enumerate(rows)],
                      dtype=[("pitch", "i4"), ("onset_sec", "f4"), ("duration_sec", "f4"), ("velocity", "i4"), ("track", "i4"), ("channel", "i4"), ("id", "U8")])
        for rd in (True, False):
            case = {"input": "PerformedPart.from_note_array", "tracks": [r[4] for r in rows], "channels": [r[5] for r in rows], "remove_drums": rd}
            ok, roll = b.guard("roll/no_exception", case, lambda: compute_pianoroll(pf.PerformedPart.from_note_array(na), time_unit="sec", time_div=2, remove_drums=rd, remove_silence=False))
            if ok:
                keep = [r[:4] for r in rows if not (rd and r[5] == 9)]
                M, N, cells, _ = raster(keep, 2, False, False, -1, 0, False, False, None, False, True)
                arr = roll.toarray()
                got = {(int(r), int(c)): int(arr[r, c]) for r, c in zip(*np.nonzero(arr))}
                b.case("roll/drum_channel_filtering", got == cells, case, "cells %r, expected the notes that are not on channel 9: %r" % (sorted({r for r, _ in got}), sorted({r for r, _ in cells})))
    # drum channel filtering
    for ch in ([0, 9, 1], [9, 9, 0], [10, 9, 15], [8, 11, 9]):
        notes = [(60, 0.0, 1.0, 64), (36, 0.0, 1.0, 100), (62, 1.0, 1.0, 70)]
        na = np.array([n + (c,) for n, c in zip(notes, ch)], dtype=[("pitch", "i4"), ("onset_sec", "f4"), ("duration_sec", "f4"), ("velocity", "i4"), ("channel", "i4")])
        for rd in (True, False):
            case = {"channels": ch, "remove_drums": rd}
            ok, roll = b.guard("roll/no_exception", case, lambda: compute_pianoroll(na, time_div=2, remove_drums=rd))
            if ok:
                keep = [n for n, c in zip(notes, ch) if not (rd and c == 9)]
                M, N, cells, _ = raster(keep, 2, False, False, -1, 0, False, True, None, False, True)
                arr = roll.toarray()
                got = {(int(r), int(c)): int(arr[r, c]) for r, c in zip(*np.nonzero(arr))}
                b.case("roll/drum_channel_filtering", got == cells, case, "cells differ with drum channel filtering")
    # pitch-class roll = octave fold
    for name, notes in arrays:
        na = np.array([n for n in notes], dtype=[("pitch", "i4"), ("onset_beat", "f4"), ("duration_beat", "f4"), ("velocity", "i4")])
        for normalize, popts in ((True, {}), (False, {}), (False, {"note_separation": True}), (False, {"onset_only": True}), (False, {"time_margin": 2}),
                                 (True, {"note_separation": True, "time_margin": 1})):
            case = {"array": name, "pitch_class_normalize": normalize, "options": popts}
            ok, pc = b.guard("pitch_class/no_exception", case, lambda: compute_pitch_class_pianoroll(na, time_div=4, normalize=normalize, binary=True, **popts))
            if not ok:
                continue
            full = compute_pianoroll(na, time_div=4, binary=True, **popts).toarray()
            fold = np.zeros((12, full.shape[1]))
            for p in range(128):
                fold[p % 12] += full[p]
            if normalize:
                s = fold.sum(0)
                fold = np.divide(fold, s, out=np.zeros_like(fold), where=s > 0)
            else:
                fold = (fold > 0).astype(float) if np.asarray(pc).max() <= 1 else fold
            b.case("pitch_class/octave_fold_of_the_full_roll", np.asarray(pc).shape == fold.shape and np.allclose(np.asarray(pc), fold), case, "pitch-class roll is not the octave fold")
    # inverse: grid-aligned, non-touching notes
    for notes in ([(60, 0.0, 1.0, 64), (60, 2.0, 1.0, 64), (62, 0.5, 0.5, 30)], [(21, 0.0, 0.25, 1), (108, 0.25, 2.0, 127), (21, 1.0, 0.25, 1)]):
        na = np.array(notes, dtype=[("pitch", "i4"), ("onset_sec", "f4"), ("duration_sec", "f4"), ("velocity", "i4")])
        for pr_range in (False, True):
            case = {"inverse": notes, "piano_range": pr_range}
            ok, back = b.guard("inverse/no_exception", case, lambda: pianoroll_to_notearray(compute_pianoroll(na, time_div=4, piano_range=pr_range, remove_silence=False), time_div=4, time_unit="sec"))
            if ok:
                got = sorted((int(r["pitch"]), float(r["onset_sec"]), float(r["duration_sec"]), int(r["velocity"])) for r in back)
                b.case("inverse/roll_of_grid_aligned_notes_back_to_the_notes", got == sorted(notes), case, "recovered %r" % got)
