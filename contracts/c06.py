"""C06 - performance MIDI export and import preserve notes, controls and timing.

Tier P: `adjust_time` against the tempo integral (symbolic ticks, 1..3 tempo changes with symbolic change ticks, mpq from a
        finite set to stay linear), `note_hash` injective on channels 0..15 x pitches 0..127 (all pairs, SMT),
        `midi_ticks_to_seconds` (C12).
Tier B: save -> load round trip on generated performances (Performance / PerformedPart / list input; float times on and off
        the tick grid incl. .5 ticks; 1-3 tracks; controls, programs, meta events; ppq/mpq products; merge on either side) and
        hand-built MIDI files with tempo changes in track 0, in a later track only, and interleaved (bounded).
"""
import io
import itertools
from fractions import Fraction

from pyv.contracts import Contract, Int, Enum, Spec, NS
from pyv.sym import sand, sor, implies, ite

LEVEL = "other"
MANIFEST = {
    "level": "other",
    "technique": "contract-based: SMT contracts on adjust_time (tempo integral) and note_hash (injectivity) over the real source; bounded run-time contract check of save_performance_midi/load_performance_midi round trips and of hand-built MIDI files against an exact-rational tempo oracle",
    "text": "adjust_time is proved equal to the piecewise tempo integral for every tick and every sorted list of up to three tempo changes (change ticks symbolic); note_hash is proved injective on the MIDI channel/pitch ranges; the end-to-end clauses (same notes with times rounded to the nearest tick, controls, programs, key/time signatures, meta events; pairing of note-on with the next note-off/zero-velocity note-on; id order; tempo integration over all tracks) are run-time contracts on generated performances and hand-built files (bounded).",
    "note": "floats as exact reals in the adjust_time proof; adjust_time's precondition (tempo changes sorted by tick, first at 0) is established by load_performance_midi only as checked by the bounded part (files with tempo events in several tracks); mido is trusted to write and read what it is given; half-tick coincidences accept either neighbour",
}
EXPLANATION = "SMT on the tick->seconds integral and the pairing key; bounded round trips with an exact-rational oracle for everything that goes through mido."

MPQS = [500000, 250000, 600000]


class TempoChanges(Spec):
    """sorted list of 1..3 (tick, mpq) pairs, first at tick 0; change ticks symbolic, mpq from a finite set"""

    def sym(self, name, ip):
        import z3
        from pyv.sym import SymInt
        k = ip.eng.choose([None] * 3, name + ".len", labels=[1, 2, 3])
        out = []
        prev = None
        for i in range(k + 1):
            m = MPQS[ip.eng.choose([None] * len(MPQS), "%s.mpq%d" % (name, i), labels=MPQS)]
            if i == 0:
                t = 0
            else:
                t = SymInt(z3.Int("%s.tick%d" % (name, i)))
                ip.eng.assume(t.z >= (prev.z if isinstance(prev, SymInt) else prev))
            out.append((t, m))
            prev = t
        return out

    def describe(self):
        return "sorted tempo changes (1..3), symbolic ticks"


def tempo_integral(tick, changes, ppq):
    """seconds = sum over tempo segments of ticks_in_segment * mpq / (1e6 * ppq), up to `tick`"""
    total = 0
    for i, (t0, mpq) in enumerate(changes):
        t1 = changes[i + 1][0] if i + 1 < len(changes) else None
        # ticks of [t0, t1) that lie before `tick`
        hi = tick if t1 is None else ite(tick < t1, tick, t1)
        seg = ite(hi > t0, hi - t0, 0)
        total = total + seg * Fraction(mpq, 10**6 * ppq)
    return total


def _approx(r, want):
    """logical reading: equality over the reals; executable reading: equality up to double rounding"""
    from pyv.sym import Sym
    if isinstance(r, Sym) or isinstance(want, Sym):
        return r == want
    return abs(float(r) - float(want)) <= 1e-9 * (1 + abs(float(want)))


def _two_hashes(ip, f, a):
    if ip is None:
        return f(a.c1, a.p1), f(a.c2, a.p2)
    return ip.call(f, [a.c1, a.p1], {}), ip.call(f, [a.c2, a.p2], {})


CONTRACTS = [
    Contract("C06", "partitura.io.importmidi.adjust_time",
             [("tick", Int(0, None)), ("tempo_changes", TempoChanges()), ("ppq", Enum([480, 96, 1]))], float_mode="real",
             ensures=[("equals_the_tempo_integral", lambda a, r: _approx(r, tempo_integral(a.tick, a.tempo_changes, a.ppq)))]),
    Contract("C06", "partitura.io.importmidi.note_hash",
             [("c1", Int(0, 15)), ("p1", Int(0, 127)), ("c2", Int(0, 15)), ("p2", Int(0, 127))], call=_two_hashes,
             ensures=[("distinct_channel_pitch_pairs_get_distinct_keys",
                       lambda a, r: implies(r[0] == r[1], sand(a.c1 == a.c2, a.p1 == a.p2)))]),
]


# ------------------------------------------------------------------------------------------------ bounded
def _perf_cases(tier):
    """(name, list of (notes, controls, programs, extra) per part) ; times in seconds"""
    tick = Fraction(500000, 10**6 * 480)  # default tick length in seconds
    g = lambda k: float(k * tick)
    cases = []
    cases.append(("on_grid", [dict(notes=[(60, g(0), g(480), 64, 0), (64, g(480), g(960), 70, 0), (67, g(960), g(1000), 1, 15), (60, g(480), g(720), 127, 1)],
                                   controls=[(64, g(10), 127), (64, g(500), 0), (67, g(0), 5), (1, g(700), 64)], programs=[(g(0), 5, 0)])]))
    cases.append(("off_grid", [dict(notes=[(60, 0.0123, 0.4567, 64, 0), (61, 0.4567, 0.9999, 33, 0), (100, 1.00004, 2.5, 99, 3)],
                                    controls=[(64, 0.3333, 100), (64, 1.7777, 3)], programs=[])]))
    cases.append(("half_ticks", [dict(notes=[(60, g(0.5), g(10.5), 64, 0), (62, g(20.5), g(30.49), 64, 0), (64, g(41.5), g(50), 64, 0)], controls=[(64, g(2.5), 64)], programs=[])]))
    cases.append(("two_tracks", [dict(notes=[(60, 0.0, 0.5, 64, 0), (64, 0.5, 1.0, 70, 0)], controls=[(64, 0.2, 127)], programs=[(0.0, 5, 0)]),
                                 dict(notes=[(72, 0.25, 0.75, 100, 2), (48, 0.0, 3.0, 30, 3)], controls=[], programs=[])]))
    cases.append(("unsorted_notes_touching", [dict(notes=[(60, 1.0, 2.0, 64, 0), (60, 0.0, 1.0, 65, 0), (62, 0.5, 0.5 + float(tick), 66, 0)], controls=[], programs=[])]))
    cases.append(("extreme_pitches_adjacent_channels", [dict(notes=[(127, 0.0, 1.0, 64, 0), (0, 0.25, 0.75, 65, 1), (127, 0.1, 0.2, 3, 14), (0, 0.15, 0.9, 4, 15)], controls=[], programs=[])]))
    # equal onset and pitch on two channels, the lower channel released later; equal onset, pitch and release on two channels
    cases.append(("same_onset_and_pitch_on_two_channels", [dict(notes=[(60, 0.0, 2.0, 64, 0), (60, 0.0, 1.0, 65, 1), (64, 0.5, 1.0, 66, 3), (64, 0.5, 1.0, 67, 2), (62, 0.0, 0.5, 60, 1)],
                                                                controls=[], programs=[])]))
    # one performed part whose notes sit on tracks that are not numbered 0..n-1 (a Performance renumbers them; the file then carries the same tracks)
    cases.append(("single_part_on_tracks_2_and_5", [dict(notes=[(60, 0.0, 1.0, 64, 0, 2), (64, 0.5, 1.5, 65, 0, 5), (67, 1.0, 2.0, 66, 1, 2), (72, 1.5, 2.5, 67, 1, 5)], controls=[], programs=[])]))
    cases.append(("meta_and_signatures", [dict(notes=[(60, 0.0, 1.0, 64, 0)], controls=[], programs=[(0.0, 1, 0), (0.5, 40, 0)],
                                               key_signatures=[dict(time=0.0, fifths=-3, mode="minor"), dict(time=1.0, fifths=2, mode="major")],
                                               time_signatures=[dict(time=0.0, beats=6, beat_type=8)], meta_other=[dict(time=0.25, type="marker", text="A")])]))
    # several control changes at one time, handed in in the order in which they were played (pedal fully down then up at once; soft before sustain)
    cases.append(("control_changes_sharing_a_time", [dict(notes=[(60, 0.0, 2.0, 64, 0)], programs=[],
                                                          controls=[(64, 0.5, 127), (64, 0.5, 0), (67, 1.0, 90), (64, 1.0, 30), (64, 1.0, 10), (1, 1.5, 99), (1, 1.5, 3), (1, 1.5, 50)])]))
    # every way of naming a mode that the library documents (strings, None = major, and the integer codes 1 = major, -1 = minor)
    cases.append(("key_signature_modes_by_name_and_by_code", [dict(notes=[(60, 0.0, 1.0, 64, 0)], controls=[], programs=[],
                                                                   key_signatures=[dict(time=0.0, fifths=-1, mode=1), dict(time=0.5, fifths=-1, mode=-1), dict(time=1.0, fifths=3, mode=None),
                                                                                   dict(time=1.5, fifths=0, mode="minor"), dict(time=2.0, fifths=-4, mode="major")])]))
    # the pedal on a track of its own: a part that holds control changes and not a single note
    cases.append(("a_part_with_controls_and_no_note", [dict(notes=[(60, 0.5, 1.0, 64, 0), (64, 1.0, 1.5, 70, 0)], controls=[], programs=[]),
                                                        dict(notes=[], controls=[(64, 0.2, 127), (64, 0.9, 0), (67, 0.4, 50)], programs=[])]))
    # an instrument set-up track: a part that holds program changes and neither a note nor a control change
    cases.append(("a_part_with_program_changes_only", [dict(notes=[(60, 0.5, 1.0, 64, 1), (64, 1.0, 1.5, 70, 2)], controls=[], programs=[(0.0, 0, 1), (0.0, 0, 2)]),
                                                        dict(notes=[], controls=[], programs=[(0.0, 41, 1), (0.25, 73, 2), (1.0, 19, 1)])]))
    if tier == "thorough":
        cases.append(("three_tracks", [dict(notes=[(60 + i, 0.1 * i, 0.1 * i + 0.3, 10 + i, i)], controls=[(64, 0.05 * i, i)], programs=[]) for i in range(3)]))
        cases.append(("short_notes", [dict(notes=[(60, 1.0, 1.0003, 64, 0), (61, 1.0, 1.002, 64, 0), (62, 2.0, 2.0, 64, 0)], controls=[], programs=[])]))
    return cases


def _build(parts):
    import partitura.performance as pf
    pps = []
    for i, d in enumerate(parts):
        nl = [dict(id="n%d" % k, midi_pitch=x[0], note_on=x[1], note_off=x[2], velocity=x[3], track=(x[5] if len(x) > 5 else i), channel=x[4]) for k, x in enumerate(d["notes"])]
        cl = [dict(number=num, time=t, value=val, track=i, channel=0) for (num, t, val) in d.get("controls", [])]
        pl = [dict(time=t, program=pr, track=i, channel=ch) for (t, pr, ch) in d.get("programs", [])]
        pps.append(pf.PerformedPart(nl, id="P%d" % i, controls=cl, programs=pl, key_signatures=[dict(k, track=i) for k in d.get("key_signatures", [])],
                                    time_signatures=[dict(k, track=i) for k in d.get("time_signatures", [])],
                                    meta_other=[dict(k, track=i) for k in d.get("meta_other", [])], track=i))
    return pps


def _ticks(t, ppq, mpq):
    x = Fraction(10**6 * ppq) * Fraction(t) / mpq
    lo = x.numerator // x.denominator
    if abs(x - lo - Fraction(1, 2)) < Fraction(1, 10**6):
        return {lo, lo + 1}  # half-way (up to double rounding): either neighbour
    return {lo + 1} if x - lo > Fraction(1, 2) else {lo}


def bounded(b):
    import mido
    import partitura as pt
    import partitura.performance as pf
    cases = _perf_cases(b.tier)
    settings = [(480, 500000), (96, 600000), (960, 250000)] if b.tier == "quick" else [(48, 500000), (480, 500000), (960, 250000), (96, 600000), (480, 600000)]
    b.rules.append("generated performances (%d shapes: on/off the tick grid, exact half ticks, several tracks, unsorted touching notes of one pitch, "
                   "pitches 0/127 on adjacent channels, programs, key/time signatures, marker) x ppq/mpq settings %r x input kind {Performance, "
                   "PerformedPart, list} x merge on save/load; contract: same multiset of (pitch, velocity, channel, on tick, off tick) with ticks = "
                   "times rounded to the nearest tick, controls/programs/signatures/meta preserved, seconds = ticks*mpq/(1e6*ppq), ids in "
                   "(onset,pitch,offset,channel,track) order; plus hand-built files with tempo maps; non-trivial = every case" % (len(cases), settings))
    b.scopes.append("%d performances x %d settings x 3 input kinds x merge flags" % (len(cases), len(settings)))
    for name, parts in cases:
        for (ppq, mpq) in settings:
            for kind in ("performance", "part", "list"):
                for merge_save, merge_load in ((False, False), (True, False), (False, True)):
                    if kind == "part" and (len(parts) > 1 or name == "single_part_on_tracks_2_and_5"):
                        continue
                    if (merge_save or merge_load) and kind != "performance":
                        continue
                    case = {"perf": name, "ppq": ppq, "mpq": mpq, "input": kind, "merge_save": merge_save, "merge_load": merge_load}
                    ok, pps = b.guard("roundtrip/performance_built_no_exception", case, lambda: _build(parts))
                    if not ok:
                        continue
                    perf = pf.Performance(pps) if kind != "part" else None
                    arg = perf if kind == "performance" else (pps[0] if kind == "part" else list(perf.performedparts))
                    buf = io.BytesIO()
                    ok, _ = b.guard("roundtrip/save_no_exception", case, lambda: pt.save_performance_midi(arg, buf, mpq=mpq, ppq=ppq, merge_tracks_save=merge_save))
                    if not ok:
                        continue
                    buf.seek(0)
                    ok, back = b.guard("roundtrip/load_no_exception", case, lambda: pt.load_performance_midi(mido.MidiFile(file=buf), merge_tracks=merge_load))
                    if not ok:
                        continue
                    _compare(b, case, pps if kind != "part" else [pps[0]], back, ppq, mpq, merged=merge_save or merge_load)
                    if len(parts) == 1:
                        # order of the control changes as HANDED IN (the specification list, not the built part)
                        want_seq = [(num, val) for (num, t_, val) in sorted(parts[0].get("controls", []), key=lambda c: c[1])]  # (stable: equal times keep their order)
                        got_seq = [(c["number"], c["value"]) for pp in back.performedparts for c in sorted(pp.controls, key=lambda c: c["time_tick"])]
                        b.case("roundtrip/same_control_changes", got_seq == want_seq, dict(case, compared="order of the control changes"),
                               "control changes come back in the order %r, they were handed in as %r" % (got_seq, want_seq))
    _dispatcher(b)
    _tempo_files(b)


def closed_ticks_helper():
    """the seconds <-> ticks helper named in the property's mechanism, for scalars and arrays alike (shared with C12): nearest tick, array = scalar"""
    from contracts import c12
    return c12.closed_ticks_arrays()


CLOSED = [("seconds_to_ticks_helper_scalars_and_arrays_nearest_tick", closed_ticks_helper)]


def _dispatcher(b):
    """load_performance (format dispatch) hands its options to the MIDI reader as named: merge_tracks merges, first_note_at_zero only shifts"""
    import os
    import shutil
    import tempfile
    import partitura as pt
    import partitura.performance as pf
    # the pedal is pressed and released in the lead-in (all its events before the first note); the soft pedal moves only afterwards
    pps = _build([dict(notes=[(60, 0.5, 1.0, 64, 0), (64, 1.0, 1.5, 70, 0)], controls=[(64, 0.1, 127), (64, 0.3, 0), (67, 0.7, 50), (67, 1.2, 90), (1, 0.2, 33), (1, 0.8, 99)], programs=[]),
                  dict(notes=[(72, 0.75, 1.25, 100, 2), (48, 0.5, 3.0, 30, 3)], controls=[], programs=[])])
    d = tempfile.mkdtemp(prefix="c06_")
    try:
        fn = os.path.join(d, "two_tracks.mid")
        pt.save_performance_midi(pf.Performance(pps), fn)
        for merge, zero in ((False, False), (True, False), (False, True), (True, True)):
            case = {"load_performance": {"merge_tracks": merge, "first_note_at_zero": zero}}
            ok, perf = b.guard("dispatch/no_exception", case, lambda: pt.load_performance(fn, merge_tracks=merge, first_note_at_zero=zero))
            if not ok:
                continue
            ref = pt.load_performance_midi(fn, merge_tracks=merge)
            nparts = len(perf.performedparts)
            tracks = sorted({n["track"] for pp in perf.performedparts for n in pp.notes})
            good = nparts == len(ref.performedparts) == (1 if merge else 2) and tracks == ([0] if merge else [0, 1])
            first = min(n["note_on"] for n in perf.performedparts[0].notes)
            ref_first = min(n["note_on"] for n in ref.performedparts[0].notes)
            if zero:
                good = good and abs(first) < 1e-9  # first_note_at_zero: the first NOTE is at zero (events before it are folded into time 0)
            else:
                good = good and abs(first - ref_first) < 1e-9
            if zero:
                # the state of every controller at and after the first note is what it was in the file, moved with the notes
                sh = ref_first
                def state(cs, num, t):
                    v = None
                    for c in sorted((c for c in cs if c["number"] == num), key=lambda c: c["time"]):
                        if c["time"] <= t + 1e-9:
                            v = c["value"]
                    return v
                bad = None
                for num in sorted({c["number"] for c in ref.performedparts[0].controls}):
                    for t in (0.0, 0.1, 0.25, 0.4, 0.75, 1.0):
                        w, g = state(ref.performedparts[0].controls, num, t + sh), state(perf.performedparts[0].controls, num, t)
                        if w is not None and g != w:
                            bad = bad or "controller %d at %.2f s after the first note: %r, in the file %r" % (num, t, g, w)
                b.case("dispatch/controller_states_move_with_the_notes", bad is None, case, bad or "")
            b.case("dispatch/options_reach_the_midi_reader_as_named", good, case, "%d parts on tracks %r, first note of the first part at %.4f s (MIDI reader: %d parts, %.4f s)" % (
                nparts, tracks, first, len(ref.performedparts), ref_first))
        # the second public reader of the same file: one table of all notes, ids in order of onset over ALL tracks
        from partitura.io.importmidi import midi_to_notearray
        case = {"midi_to_notearray": "two tracks"}
        ok, na = b.guard("dispatch/no_exception", case, lambda: midi_to_notearray(fn))
        if ok:
            rows = [(str(r["id"]), int(r["pitch"]), round(float(r["onset_sec"]), 3)) for r in na]
            want = [("n%d" % i, p_, o_) for i, (o_, p_) in enumerate(sorted([(0.5, 48), (0.5, 60), (0.75, 72), (1.0, 64)]))]
            b.case("load/ids_in_order_of_onset_pitch_offset_channel_track", rows == want, case, "rows (id, pitch, onset) %r, the file holds %r" % (rows, want))
        # a part made from a note array that names channels but no tracks: the channels reach the file
        import numpy as np
        arr = np.array([(60, 0.0, 0.5, 64, 0, "a0"), (64, 0.5, 0.5, 70, 3, "a1"), (67, 1.0, 0.5, 75, 15, "a2"), (72, 1.5, 0.5, 80, 9, "a3")],
                       dtype=[("pitch", "i4"), ("onset_sec", "f4"), ("duration_sec", "f4"), ("velocity", "i4"), ("channel", "i4"), ("id", "U4")])
        case = {"part_from_note_array": "channel column, no track column"}
        fn2 = os.path.join(d, "from_array.mid")
        ok, back = b.guard("roundtrip/load_no_exception", case, lambda: (pt.save_performance_midi(pf.PerformedPart.from_note_array(arr), fn2), pt.load_performance_midi(fn2))[1])
        if ok:
            got = sorted((n["midi_pitch"], n["channel"]) for pp in back.performedparts for n in pp.notes)
            b.case("roundtrip/same_notes_times_rounded_to_nearest_tick", got == [(60, 0), (64, 3), (67, 15), (72, 9)], case, "(pitch, channel) read back %r, the array says channels 0, 3, 15, 9" % got)
    finally:
        shutil.rmtree(d, ignore_errors=True)


def _compare(b, case, pps, back, ppq, mpq, merged):
    want = []
    for pp in pps:
        for n in pp.notes:
            want.append((n["midi_pitch"], n["velocity"], n["channel"], None if merged else n["track"], _ticks(n["note_on"], ppq, mpq), _ticks(n["note_off"], ppq, mpq)))
    got = []
    for pp in back.performedparts:
        for n in pp.notes:
            got.append((n["midi_pitch"], n["velocity"], n["channel"], None if merged else n["track"], n["note_on_tick"], n["note_off_tick"], n["note_on"], n["note_off"], n["id"]))
    ok, what = len(got) == len(want), "number of notes %d, expected %d" % (len(got), len(want))
    used = [False] * len(got)
    if ok:
        for w in want:
            hit = None
            for i, g in enumerate(got):
                if not used[i] and g[:4] == w[:4] and g[4] in w[4] and g[5] in w[5]:
                    hit = i
                    break
            if hit is None:
                ok, what = False, "note %r (pitch, velocity, channel, track, on ticks, off ticks) not found among %r" % (w, [g[:6] for g in got])
                break
            used[hit] = True
    b.case("roundtrip/same_notes_times_rounded_to_nearest_tick", ok, case, what)
    secs = all(abs(g[6] - g[4] * mpq / (1e6 * ppq)) < 1e-9 and abs(g[7] - g[5] * mpq / (1e6 * ppq)) < 1e-9 for g in got)
    b.case("roundtrip/seconds_are_ticks_times_mpq_over_1e6_ppq", secs, case, "seconds do not follow from the ticks")
    for pp in back.performedparts:
        key = [(n["note_on"], n["midi_pitch"], n["note_off"], n["channel"], n["track"]) for n in pp.notes]
        ids = [n["id"] for n in pp.notes]
        b.case("load/ids_in_order_of_onset_pitch_offset_channel_track", key == sorted(key) and ids == ["n%d" % i for i in range(len(ids))], case, "ids %r keys %r" % (ids, key))

    def ctl(pplist, tick_of):
        out = []
        for pp in pplist:
            for c in pp.controls:
                out.append((c["number"], c["value"], None if merged else c["track"], tick_of(c)))
        return sorted(out, key=lambda x: (x[0], x[1], str(x[2]), min(x[3]) if isinstance(x[3], set) else x[3]))
    wc = ctl(pps, lambda c: _ticks(c["time"], ppq, mpq))
    gc = ctl(back.performedparts, lambda c: c["time_tick"])
    okc = len(wc) == len(gc) and all(w[:3] == g[:3] and g[3] in w[3] for w, g in zip(wc, gc))
    b.case("roundtrip/same_control_changes", okc, case, "controls %r, expected %r" % (gc, wc))
    wp = sorted((p["program"], p["channel"]) for pp in pps for p in pp.programs)
    gp = sorted((p["program"], p["channel"]) for pp in back.performedparts for p in pp.programs)
    # parts without programs get the default program 0 exactly once per (track, channel); explicit programs are kept as they are
    # (merging tracks does not merge the defaults: one per original (track, channel) pair)
    defaults = sorted({(0, x["channel"], x["track"]) for pp in pps if not pp.programs for x in list(pp.notes) + list(pp.controls)})
    rest = list(gp)
    okp = True
    for w in wp:
        if w in rest:
            rest.remove(w)
        else:
            okp = False
    b.case("roundtrip/same_program_changes", okp, case, "programs %r, expected to contain %r" % (gp, wp))
    b.case("save/default_program_once_per_track_channel", all(r[0] == 0 for r in rest) and len(rest) == len(defaults), case,
           "default program changes %r for program-less (track, channel) pairs %r" % (rest, defaults))
    wk = sorted((k.get("fifths"), "minor" if k.get("mode") in ("minor", -1) else "major") for pp in pps for k in pp.key_signatures)  # (documented: 1, "major", None = major)
    gk = sorted((k["fifths"], k["mode"]) for pp in back.performedparts for k in pp.key_signatures)
    wt = sorted((t["beats"], t["beat_type"]) for pp in pps for t in pp.time_signatures)
    gt = sorted((t["beats"], t["beat_type"]) for pp in back.performedparts for t in pp.time_signatures)
    wm = sorted((m.get("type"), m.get("text")) for pp in pps for m in pp.meta_other)
    gm = sorted((m.get("type"), m.get("text")) for pp in back.performedparts for m in pp.meta_other if m.get("type") not in ("end_of_track", "set_tempo"))
    b.case("roundtrip/same_signatures_and_meta_events", wk == gk and wt == gt and wm == gm, case, "key %r/%r time %r/%r meta %r/%r" % (gk, wk, gt, wt, gm, wm))


def _tempo_files(b):
    """hand-built MIDI files: tempo changes in track 0, in track 1 only, interleaved across tracks"""
    import mido
    import partitura as pt
    ppq = 480

    def build(tempo_events, notes):
        """tempo_events: {track: [(abs_tick, mpq)]}; notes: {track: [(abs_on, abs_off, pitch, channel, velocity, zero_vel_off)]}"""
        mf = mido.MidiFile(type=1, ticks_per_beat=ppq)
        ntr = max(list(tempo_events) + list(notes)) + 1
        for tr in range(ntr):
            evs = []
            for (t, mpq) in tempo_events.get(tr, []):
                evs.append((t, 0, mido.MetaMessage("set_tempo", tempo=mpq)))
            for (on, off, p, ch, vel, zv) in notes.get(tr, []):
                evs.append((on, 2, mido.Message("note_on", note=p, velocity=vel, channel=ch)))
                evs.append((off, 1, mido.Message("note_on", note=p, velocity=0, channel=ch) if zv else mido.Message("note_off", note=p, velocity=0, channel=ch)))
            evs.sort(key=lambda x: (x[0], x[1]))
            track = mido.MidiTrack()
            cur = 0
            for (t, _, m) in evs:
                track.append(m.copy(time=t - cur))
                cur = t
            mf.tracks.append(track)
        return mf

    def seconds(tick, tempo_events):
        ch = sorted([(t, m) for evs in tempo_events.values() for (t, m) in evs], key=lambda x: x[0])
        ch = [(0, 500000)] + ch
        total = Fraction(0)
        for i, (t0, m) in enumerate(ch):
            t1 = ch[i + 1][0] if i + 1 < len(ch) else None
            hi = tick if t1 is None else min(tick, t1)
            if hi > t0:
                total += Fraction((hi - t0) * m, 10**6 * ppq)
        return total
    notes = {0: [(0, 480, 60, 0, 64, False), (480, 960, 60, 0, 70, True), (1000, 2000, 64, 1, 1, False)], 1: [(240, 1200, 72, 0, 99, False), (1500, 1500 + 960, 40, 9, 5, True)]}
    files = {
        "tempo_in_track0": {0: [(0, 600000), (960, 300000)]},
        "tempo_in_track1_only": {1: [(480, 250000)]},
        "tempo_interleaved": {0: [(0, 400000), (1440, 800000)], 1: [(480, 250000), (2000, 500000)]},
        "no_tempo": {},
        # slow tempi (later than the provisional conversion assumes), in a conductor track and in a track after the notes
        "slow_conductor_track_then_fast": {0: [(0, 1000000), (1920, 400000)]},
        "slow_tempo_in_a_later_track": {2: [(0, 750000)]},
        "tempo_restated_in_second_track": {0: [(0, 500000), (960, 500000)], 1: [(480, 500000), (1200, 600000)]},
    }
    notes_only_track1 = {1: [(0, 480, 60, 0, 64, False), (480, 1900, 62, 0, 70, True), (2000, 2400, 64, 1, 1, False)]}
    for name, tev in files.items():
        case = {"file": name}
        nts = notes_only_track1 if name == "slow_conductor_track_then_fast" else notes
        mf = build(tev, nts)
        ok, perf = b.guard("load/no_exception", case, lambda: pt.load_performance_midi(mf))
        if not ok:
            continue
        good, what = True, ""
        got = sorted((n["midi_pitch"], n["channel"], n["note_on_tick"], n["note_off_tick"], n["velocity"], n["note_on"], n["note_off"]) for pp in perf.performedparts for n in pp.notes)
        want = sorted((p, ch, on, off, vel) for tr in nts.values() for (on, off, p, ch, vel, zv) in tr)
        if [g[:5] for g in got] != want:
            good, what = False, "paired notes %r, expected %r" % ([g[:5] for g in got], want)
        else:
            for g in got:
                if abs(Fraction(g[5]) - seconds(g[2], tev)) > Fraction(1, 10**9) or abs(Fraction(g[6]) - seconds(g[3], tev)) > Fraction(1, 10**9):
                    good, what = False, "note pitch %d at tick %d..%d loaded at %.6f..%.6f s, tempo integral gives %.6f..%.6f s" % (
                        g[0], g[2], g[3], g[5], g[6], float(seconds(g[2], tev)), float(seconds(g[3], tev)))
                    break
        b.case("load/ticks_to_seconds_integrates_every_tempo_change_in_order", good, case, what)


def replay_case(clause, case):
    from pyv.main import BoundedCtx
    b = BoundedCtx("C06", "thorough", 0)
    bounded(b)
    f = [x for x in b.failures if x["clause"] == clause and x["case"] == case]
    return (not f), (f[0]["what"] if f else "holds")
