"""C07 - match-file lines survive format/parse round trips in every version.

closed-eval: `FractionalSymbolicDuration` addition is exact and string round trips keep the value, over a grid of numerators,
             denominators, tuplet divisors and additive components; key-signature names of the 30 keys (all historical spellings that
             the library's own tables list) keep their value.
Tier B:      for every line class of every format version, lines harvested from the fixture match files and from the repository's
             test corpus, plus field mutations by type (ticks/controllers 0,1,127; four-decimal beat times at rounding boundaries;
             fractional durations with tuplet divisors and additive components): parse(format(x)) has the same class and equal fields,
             format is a fixpoint after one round, to_v1 keeps kind and musical content (bounded: regular expressions and str.format are
             not modelled by the verifier).
"""
import itertools
import os
import numpy as np
import re
from fractions import Fraction

LEVEL = "exploration"
MANIFEST = {
    "level": "exploration",
    "technique": "contract-based run-time checking (bounded) of the line round-trip contracts on the real parser/formatter classes; exhaustive closed evaluation of fractional-duration arithmetic and key-name tables; parsing is by regular expressions, which the verifier does not model",
    "text": "Round trips parse(format(x)) = x and format(parse(format(x))) = format(x) for every line class reachable from the ordered parser lists of versions 0.1.0-0.5.0 and 1.0.0, on harvested lines and type-driven field mutations; upgrade to 1.0.0 keeps kind and musical content; fractional durations: exact addition and value-preserving string round trips on a grid (closed).",
    "note": "bounded only; identifiers with separators, free-text fields with parentheses and values outside a version's format are not generated",
}
EXPLANATION = "Bounded run-time round-trip contracts; closed arithmetic of fractional durations."


def _value(fsd):
    """exact value of a FractionalSymbolicDuration (in whole notes)"""
    if fsd.add_components:
        return sum(Fraction(int(n), int(d) * int(t or 1)) for (n, d, t) in fsd.add_components)
    return Fraction(int(fsd.numerator), int(fsd.denominator) * int(fsd.tuple_div or 1))


def closed_fractional_durations():
    from partitura.io.matchfile_utils import FractionalSymbolicDuration as F, interpret_as_fractional, format_fractional
    n = 0
    grid = [F(a, b, t) for a in (1, 2, 3, 5) for b in (1, 2, 4, 8, 16, 32) for t in (None, 3, 5)]
    for x in grid:
        n += 1
        s = str(x)
        y = interpret_as_fractional(s)
        if _value(y) != _value(x) or str(y) != s:
            return False, n, {"input": s, "what": "string round trip %r -> value %s (was %s), text %r" % (s, _value(y), _value(x), str(y))}
        if abs(float(x) - float(_value(x))) > 1e-12:
            return False, n, {"input": s, "what": "float value %r, exact %s" % (float(x), _value(x))}
    # the finest values a file can hold: numerators and denominators up to the bound of 1024 itself ("1024th" notes)
    for a_, b_ in ((1, 64), (1, 128), (3, 256), (1, 512), (1, 1024), (3, 1024), (1023, 1024), (1024, 1), (512, 3)):
        n += 1
        x = F(a_, b_)
        s = str(x)
        y = interpret_as_fractional(s)
        if _value(x) != Fraction(a_, b_) or _value(y) != Fraction(a_, b_) or str(y) != s:
            return False, n, {"input": "%d/%d" % (a_, b_), "what": "%d/%d built as %r (value %s), read back as %r (value %s)" % (a_, b_, s, _value(x), str(y), _value(y))}
    fine = [(F(1, 512), F(1, 1024)), (F(3, 1024), F(1, 1024)), (F(1, 2), F(1, 1024)), (F(1, 256), F(1, 256)), (F(5, 1024), F(1, 512))]
    for x, y in list(itertools.product(grid[::3], grid[::4])) + fine:
        n += 1
        vx, vy, sx, sy = _value(x), _value(y), str(x), str(y)
        z = x + y
        if _value(z) != vx + vy:
            return False, n, {"input": [sx, sy], "what": "sum %s has value %s, exact %s" % (str(z), _value(z), vx + vy)}
        if abs(float(z) - float(vx + vy)) > 1e-9:
            return False, n, {"input": [sx, sy], "what": "float(sum) = %r, exact %s" % (float(z), vx + vy)}
        if str(x) != sx or str(y) != sy or _value(x) != vx or _value(y) != vy:
            return False, n, {"input": [sx, sy], "what": "addition modified an operand: now %r / %r" % (str(x), str(y))}
        w = interpret_as_fractional(str(z))
        if _value(w) != vx + vy or str(w) != str(z):
            return False, n, {"input": [sx, sy], "what": "sum %r does not survive a string round trip" % str(z)}
        # three-term sums and re-use of a sum as the left operand
        z2 = z + x
        if _value(z2) != vx + vy + vx or _value(z) != vx + vy or str(interpret_as_fractional(str(z2))) != str(z2):
            return False, n, {"input": [sx, sy, sx], "what": "three-term sum %r / left operand now %r" % (str(z2), str(z))}
    return True, n, ""


def closed_key_and_time_signatures():
    """the 15 major and 15 minor keys in each of the three text formats: writing and reading back keeps (fifths, mode) and the text"""
    from partitura.io.matchfile_utils import MatchKeySignature, MatchTimeSignature
    n = 0
    for fmt in ("v1.0.0", "v0.3.0", "v0.1.0"):
        for mode in ("major", "minor"):
            for f in range(-7, 8):
                n += 1
                ks = MatchKeySignature(fifths=f, mode=mode, fmt=fmt)
                text = str(ks)
                try:
                    ks2 = MatchKeySignature.from_string(text if fmt != "v0.1.0" else "[%s]" % text if not text.startswith("[") else text)
                except Exception as e:
                    return False, n, {"input": [f, mode, fmt], "what": "key signature written as %r does not parse back: %s: %s" % (text, type(e).__name__, e)}
                if (ks2.fifths, ks2.mode) != (f, mode):
                    return False, n, {"input": [f, mode, fmt], "what": "key signature written as %r reads back as fifths %r, mode %r" % (text, ks2.fifths, ks2.mode)}
                ks2.fmt = fmt
                ks2.is_list = ks.is_list
                if str(ks2) != text:
                    return False, n, {"input": [f, mode, fmt], "what": "text %r becomes %r after one round" % (text, str(ks2))}
    # a key with an alternative key of the other mode (relative major/minor) and of the same mode
    for fmt in ("v1.0.0", "v0.3.0"):
        for (f, m, fa, ma) in ((3, "major", 3, "minor"), (3, "minor", 3, "major"), (0, "major", 0, "minor"), (-4, "minor", -4, "major"), (4, "major", 1, "major"), (-2, "minor", -5, "minor")):
            n += 1
            ks = MatchKeySignature(fifths=f, mode=m, fifths_alt=fa, mode_alt=ma, fmt=fmt)
            text = str(ks)
            try:
                ks2 = MatchKeySignature.from_string(text)
            except Exception as e:
                return False, n, {"input": [f, m, fa, ma, fmt], "what": "key signature written as %r does not parse back: %s: %s" % (text, type(e).__name__, e)}
            if (ks2.fifths, ks2.mode, ks2.fifths_alt, ks2.mode_alt) != (f, m, fa, ma):
                return False, n, {"input": [f, m, fa, ma, fmt], "what": "key signature written as %r reads back as %r" % (text, (ks2.fifths, ks2.mode, ks2.fifths_alt, ks2.mode_alt))}
    for (num, den) in ((4, 4), (6, 8), (3, 2), (12, 16), (5, 4)):
        n += 1
        ts = MatchTimeSignature.from_string("%d/%d" % (num, den))
        if (int(ts.numerator), int(ts.denominator)) != (num, den) or str(MatchTimeSignature.from_string(str(ts))) != str(ts):
            return False, n, {"input": [num, den], "what": "time signature string round trip: %r" % str(ts)}
    return True, n, ""


CLOSED = [("fractional_symbolic_duration_arithmetic_and_strings", closed_fractional_durations),
          ("key_and_time_signature_strings", closed_key_and_time_signatures)]


# ------------------------------------------------------------------------------------------------ bounded
def _harvest():
    """(version string, line) pairs: all lines of the fixture match files + every string literal that looks like a match line in the test corpus"""
    import partitura
    base = os.path.join(os.path.dirname(partitura.__file__), "..", "tests")
    out = []
    for fn in sorted(os.listdir(os.path.join(base, "data", "match"))):
        lines = open(os.path.join(base, "data", "match", fn), encoding="utf-8").read().splitlines()
        ver = None
        for l in lines:
            mm = re.match(r"info\(matchFileVersion,\s*([0-9.]+)\)\.", l)
            if mm:
                ver = mm.group(1)
        seen = set()
        for l in lines:
            l = l.strip()
            kind = re.sub(r"[0-9.\-+,/\[\]a-zA-Z_#:]+", "", l)[:20] + l.split("(")[0]
            if l and (kind not in seen or len(seen) < 400):
                seen.add(kind)
                out.append((ver, l))
    tf = os.path.join(base, "test_match_import.py")
    if os.path.exists(tf):
        src = open(tf, encoding="utf-8").read()
        for mm in re.finditer(r"\"((?:info|scoreprop|meta|section|snote|note|insertion|sustain|soft|ornament|trill|stime|ptime|hammer_bounce|trailing_played_note)[^\"\n]*?\)\.)\"", src):
            out.append((None, mm.group(1)))
    # lines of kinds / field values that no fixture contains (written after the format description): ornament lines with one and several
    # ornament types, durations and offsets whose denominator is 1 inside a tuplet, a sum with such a component
    out += [("1.0.0", "ornament(n1,[trill])-note(n901,77,192,230,20,0,0)."),
            ("1.0.0", "ornament(n1,[trill,mordent])-note(n902,78,192,230,20,0,0)."),
            ("1.0.0", "ornament(1156-1,[trill,mordent,turn])-note(n903,79,192,230,20,0,0)."),
            ("1.0.0", "snote(n5,[C,n],4,1:1,1/1/3,2/1/3,0.3333,1.0000,[v1,staff1])-deletion."),
            ("1.0.0", "snote(n6,[D,#],5,2:1,0,1/4+1/1/3,4.0000,5.3333,[v1,staff1])-note(n6,75,480,960,64,0,0)."),
            ("1.0.0", "snote(n7,[E,b],3,2:2,1/8,1/1/5,5.5000,5.7000,[v2,staff2])-deletion."),
            ("0.5.0", "snote(n5,[c,n],4,1:1,1/1/3,2/1/3,0.3333,1.0,[s])-deletion."),
            ("0.3.0", "snote(n5,[c,n],4,1:1,1/1/3,2/1/3,0.3333,1.0,[s])-deletion."),
            # performed notes of the oldest versions carry tick times with two decimals: fractions on both sides of one half
            ("0.1.0", "snote(n1,[c,n],6,0:3,0/1,1/8,-4.00000,-3.00000,[1])-note(1,[c,n],6,39060.60,39890.40,38)."),
            ("0.1.0", "snote(n2,[d,n],5,1:1,0/1,1/8,0.00000,1.00000,[1])-note(6,[d,n],5,48840.50,49870.99,26)."),
            ("0.2.0", "snote(n3,[e,b],5,1:2,0/1,1/4,1.00000,3.00000,[s])-note(17,[e,b],5,72600.75,75380.25,26)."),
            ("0.1.0", "insertion-note(85,[b,b],3,162600.49,164950.51,27)."),
            # a sounding end BEFORE the key release (adjusted offset < offset: legal tick values, e.g. after pedal-corrected data were edited)
            ("0.5.0", "snote(n9,[c,n],5,1:1,0,1/4,0.0,1.0,[s])-note(207,[c,n],5,3763,4020,4019,72)."),
            ("0.4.0", "snote(n9,[c,n],5,1:1,0,1/4,0.0,1.0,[s])-note(207,[c,n],5,3763,4020,3900,72)."),
            ("0.3.0", "insertion-note(208,[d,#],4,100,250,249,30)."),
            # the lowest octave (-1: MIDI pitches 0..11) and the highest
            ("1.0.0", "snote(n10,[C,n],-1,1:1,0,1/4,0.0000,1.0000,[v1,staff2])-deletion."),
            ("1.0.0", "snote(n11,[B,b],-1,1:2,0,1/4,1.0000,2.0000,[v1,staff2])-note(n11,10,480,960,64,0,0)."),
            ("1.0.0", "snote(n12,[G,n],9,1:3,0,1/4,2.0000,3.0000,[v1,staff1])-deletion."),
            ("0.5.0", "snote(n10,[c,n],-1,1:1,0,1/4,0.0,1.0,[s])-deletion."),
            ("0.3.0", "snote(n10,[a,#],-1,1:1,0,1/4,0.0,1.0,[s])-deletion."),
            # spellings across the octave boundary (B sharp sounds in the octave above its number, C flat in the one below)
            ("0.1.0", "insertion-note(86,[b,#],3,1000.00,2000.00,30)."), ("0.3.0", "insertion-note(209,[c,b],4,100,250,249,30)."),
            ("0.5.0", "snote(n13,[b,#],4,1:1,0,1/4,0.0,1.0,[s])-note(210,[b,#],4,3763,4020,4019,72)."),
            ("0.4.0", "snote(n14,[c,b],5,1:1,0,1/4,0.0,1.0,[s])-note(211,[c,b],5,3763,4020,3900,72)."),
            ("0.2.0", "snote(n15,[b,n],5,1:2,0/1,1/4,1.00000,3.00000,[s])-note(18,[b,x],2,72600.75,75380.25,26)."),
            # the older spelling of the attribute that names the performance file
            ("0.5.0", "info(midiFilename,'perf.mid')."), ("0.3.0", "info(midiFilename,'take2.mid')."),
            # text values that contain the two characters which close a line, and brackets, before their end
            ("1.0.0", "info(midiFileName,take(1).mid)."), ("1.0.0", "info(piece,Sonata (arr.). Part 2)."), ("0.5.0", "info(midiFileName,'take(1).mid')."),
            ("0.3.0", "info(piece,'Sonata (arr.). Part 2')."), ("1.0.0", "info(composer,Mozart (W.A.))."),
            # quoted text values of the old versions with an apostrophe, a comma-free phrase, digits
            ("0.5.0", "info(piece,'L'isle joyeuse')."),
            ("0.3.0", "info(composer,'Claude Debussy')."),
            ("0.4.0", "info(performer,'O'Brien')."),
            # every sharp and flat minor key in the 1.0.0 spelling, alone and as the alternative after a slash
            # tempo indications of several words
            ("1.0.0", "scoreprop(tempoIndication,[lento,ma,non,troppo],1:1,0,0.0000)."), ("1.0.0", "scoreprop(tempoIndication,[allegro,assai],3:1,0,8.0000)."),
            ("0.5.0", "info(tempoIndication,[lento,ma,non,troppo])."), ("0.3.0", "info(tempoIndication,[andante,con,moto])."),
            ("1.0.0", "scoreprop(keySignature,F#m,1:1,0,0.0000)."), ("1.0.0", "scoreprop(keySignature,C#m,1:1,0,0.0000)."), ("1.0.0", "scoreprop(keySignature,G#m,1:1,0,0.0000)."),
            ("1.0.0", "scoreprop(keySignature,D#m,1:1,0,0.0000)."), ("1.0.0", "scoreprop(keySignature,A#m,1:1,0,0.0000)."), ("1.0.0", "scoreprop(keySignature,Bbm,1:1,0,0.0000)."),
            ("1.0.0", "scoreprop(keySignature,A/F#m,1:1,0,0.0000)."), ("1.0.0", "scoreprop(keySignature,E/C#m,2:1,0,4.0000).")]
    return out


VERSIONS = ["0.1.0", "0.2.0", "0.3.0", "0.4.0", "0.5.0", "1.0.0"]


def _methods(version):
    from partitura.io.matchfile_utils import Version
    import partitura.io.matchlines_v0 as v0
    import partitura.io.matchlines_v1 as v1
    vt = tuple(int(x) for x in version.split("."))
    ver = Version(*vt)
    if vt[0] >= 1:
        return ver, v1.FROM_MATCHLINE_METHODS
    return ver, v0.FROM_MATCHLINE_METHODS


def _canon(v):
    n = v.__class__.__name__
    if n == "MatchKeySignature":
        return ("key", v.fifths, v.mode, v.fifths_alt, v.mode_alt, [str(x) for x in v.other_components])
    if n == "MatchTimeSignature":
        return ("time", int(v.numerator), int(v.denominator), [str(x) for x in v.other_components])
    if n == "FractionalSymbolicDuration":
        return ("dur", str(_value(v)), str(v))
    if n in ("Version", "MatchTempoIndication"):
        return str(v)
    return v


def _fields(obj):
    return {fn: _canon(getattr(obj, fn, None)) for fn in obj.field_names}


def _same(a, b):
    if type(a) is not type(b):
        return False, "class %s became %s" % (type(a).__name__, type(b).__name__)
    fa, fb = _fields(a), _fields(b)
    for k in fa:
        x, y = fa[k], fb.get(k)
        if isinstance(x, float) and isinstance(y, float):
            if abs(x - y) > 1e-9:
                return False, "field %s: %r became %r" % (k, x, y)
        elif x != y:
            return False, "field %s: %r became %r" % (k, x, y)
    return True, ""


def bounded(b):
    import contextlib
    import io as _io
    with contextlib.redirect_stdout(_io.StringIO()):
        _bounded(b)


def _token_diff(a, b_):
    """first token at which two line texts name different values, or None; tokens are what lies between , ( ) [ ] and the final dot"""
    from fractions import Fraction
    ta = [t.strip() for t in re.split(r"[,()\[\]]", a.strip().rstrip("."))]
    tb = [t.strip() for t in re.split(r"[,()\[\]]", b_.strip().rstrip("."))]
    if len(ta) != len(tb):
        return "%d tokens against %d" % (len(ta), len(tb))

    def val(t):
        try:
            return Fraction(t)
        except Exception:
            pass
        try:
            if re.fullmatch(r"-?[0-9]+(/[0-9]+)+", t):
                parts = [int(x) for x in t.split("/")]
                return ("tuplet", Fraction(parts[0], parts[1]), tuple(parts[2:]))
        except Exception:
            pass
        return t
    for x, y in zip(ta, tb):
        if x == y:
            continue
        vx, vy = val(x), val(y)
        if isinstance(vx, Fraction) and isinstance(vy, Fraction) and abs(vx - vy) < Fraction(1, 10**4):
            continue
        if vx == vy:
            continue
        if len(x) == 1 and len(y) == 1 and x.lower() == y.lower() and x.lower() in "abcdefg":
            continue  # note names are written in upper case whatever the case they were read in
        return "token %r became %r" % (x, y)
    return None


def _bounded(b):
    from partitura.io.importmatch import parse_matchline
    from partitura.io.matchfile_utils import FractionalSymbolicDuration as F
    import partitura.io.matchlines_v1 as v1
    harvested = _harvest()
    b.rules.append("lines harvested from the 3 fixture match files and from the repository's test corpus (%d lines), parsed under every format version that "
                   "accepts them; field mutations by type: ints in {0,1,127}, floats in {0.0, 0.00005, 1.99995, 12.3456, -1.0}, fractional durations incl. "
                   "tuplet divisors and sums of two/three; contract: same class and equal fields after parse(format(x)), identical text after a second "
                   "round, to_v1 keeps kind and musical content; non-trivial = distinct (class, version, line shape)" % len(harvested))
    seen_classes = set()
    count = 0
    for ver_hint, line in harvested:
        vers = [ver_hint] if ver_hint in VERSIONS else VERSIONS
        if ver_hint is not None and ver_hint not in VERSIONS:
            vers = {"4.0": ["0.4.0"], "5.0": ["0.5.0"], "3.0": ["0.3.0"], "2.0": ["0.2.0"], "1.0": ["0.1.0"]}.get(ver_hint, VERSIONS)
        for version in vers:
            ver, methods = _methods(version)
            try:
                obj = parse_matchline(line, methods, ver)
            except Exception:
                obj = None
            if obj is None:
                if ver_hint in VERSIONS and re.match(r"(info|scoreprop|meta|section|snote|note|insertion|sustain|soft|ornament|trill|stime|ptime|hammer_bounce|trailing_played_note)\(", line):
                    # a line of a file that declares this version (or written after the format description) is a line of that version
                    b.case("line/line_of_the_declared_version_is_read", False, {"version": version, "line": line[:160]}, "no line class of version %s reads this line" % version)
                continue
            if ver_hint in VERSIONS:
                b.case("line/line_of_the_declared_version_is_read", True, {"version": version, "line": line[:160]}, "", nontrivial=False)
            count += 1
            cls = type(obj).__name__
            case = {"version": version, "class": cls, "line": line[:160]}
            key = (cls, version, re.sub(r"[0-9]+", "0", line)[:60])
            nontriv = key not in seen_classes
            seen_classes.add(key)
            ok, s1 = b.guard("line/format_no_exception", case, lambda: obj.matchline)
            if not ok:
                continue
            shape = lambda t: re.sub(r"[^\[\],()/+:]", "", t)
            if ver_hint not in VERSIONS and shape(s1) != shape(line):
                # a line of unknown provenance whose value this version's format cannot express (e.g. a list of time signatures
                # under 0.3.0, an alternative key under 0.1.0): outside "every field value its format version allows"
                continue
            if ver_hint in VERSIONS:
                # the object came from a line of this very version: what it writes names the same values, token by token (numbers compared as
                # numbers, fractions as fractions), so a reader that drops or alters a field is seen even though it agrees with itself
                bad_tok = _token_diff(line, s1)
                b.case("line/written_text_carries_the_values_that_were_read", bad_tok is None, case, "read %r, wrote %r: %s" % (line[:120], s1[:120], bad_tok), nontrivial=nontriv, key=repr(key))
            try:
                obj2 = parse_matchline(s1, methods, ver)
            except Exception as e:
                obj2 = None
            if obj2 is None:
                b.case("line/parse_of_formatted_line_gives_same_class_and_fields", False, case, "the written text %r does not parse" % s1[:120], nontrivial=nontriv, key=repr(key))
                continue
            same, why = _same(obj, obj2)
            b.case("line/parse_of_formatted_line_gives_same_class_and_fields", same, case, why, nontrivial=nontriv, key=repr(key))
            ok, s2 = b.guard("line/format_no_exception", case, lambda: obj2.matchline)
            if ok:
                b.case("line/formatting_is_a_fixpoint_after_one_round", s2 == s1, case, "second round text %r, first %r" % (s2[:120], s1[:120]), nontrivial=nontriv, key=repr(key))
            # upgrade to 1.0.0
            if version != "1.0.0":
                try:
                    up = v1.to_v1(obj)
                except Exception as e:
                    if "tempoIndication" not in line and "Indication" not in line:
                        b.case("upgrade/to_v1_keeps_kind_and_musical_content", False, case, "to_v1 raised %s: %s" % (type(e).__name__, str(e)[:100]), nontrivial=nontriv, key=repr(key))
                    continue
                good, why = True, ""
                pairs = [(obj, up)] + [(getattr(obj, sub), getattr(up, sub)) for sub in ("note", "snote") if getattr(obj, sub, None) is not None and getattr(up, sub, None) is not None]
                for (obj_, up_) in pairs:
                  for f in ("Onset", "Offset", "Velocity", "MidiPitch", "Time", "Value", "NoteName", "Octave", "Measure", "Beat", "Anchor", "Id", "Modifier", "Duration"):
                    if hasattr(obj_, f) and hasattr(up_, f):
                        x, y = getattr(obj_, f), getattr(up_, f)
                        if f == "Duration" and isinstance(x, float) and isinstance(y, (int, np.integer)):
                            # a difference of two tick times, each taken to its nearest tick
                            if abs(x - int(y)) > 1.0 + 1e-9:
                                good, why = False, "field Duration: %r became %r after upgrading" % (x, y)
                        elif f in ("Onset", "Offset") and isinstance(x, float) and isinstance(y, (int, np.integer)):
                            # two-decimal tick times become whole ticks: the nearest one
                            if abs(x - int(y)) > 0.5 + 1e-9:
                                good, why = False, "field %s: tick time %r became %r after upgrading (not the nearest tick)" % (f, x, y)
                        elif str(x) != str(y) and not (isinstance(x, float) and abs(x - float(y)) < 1e-9):
                            good, why = False, "field %s: %r became %r after upgrading" % (f, x, y)
                    # the MIDI pitch a 1.0.0 note carries is the pitch of the old note's spelling (own twelve-tone arithmetic)
                    if all(hasattr(obj_, f) for f in ("NoteName", "Modifier", "Octave")) and "MidiPitch" in getattr(up_, "field_names", ()):
                        try:
                            spelled = 12 * (int(obj_.Octave) + 1) + {"C": 0, "D": 2, "E": 4, "F": 5, "G": 7, "A": 9, "B": 11}[str(obj_.NoteName).upper()] + int(obj_.Modifier or 0)
                        except (KeyError, ValueError, TypeError):
                            spelled = None
                        if spelled is not None and int(up_.MidiPitch) != spelled:
                            good, why = False, "note %s%+d in octave %s sounds at MIDI pitch %d, the upgraded note carries %r" % (obj_.NoteName, int(obj_.Modifier or 0), obj_.Octave, spelled, up_.MidiPitch)
                base_kind = lambda c: re.sub(r"^Match", "", c).replace("Meta", "ScoreProp")
                b.case("upgrade/to_v1_keeps_kind_and_musical_content", good, case, why, nontrivial=nontriv, key=repr(key))
                # the upgraded line, written after the old line has been written, is a 1.0.0 line that survives its own round trip
                ok, su = b.guard("upgrade/upgraded_line_writes", case, lambda: up.matchline)
                if ok:
                    ver1, methods1 = _methods("1.0.0")
                    try:
                        obj3 = parse_matchline(su, methods1, ver1)
                    except Exception:
                        obj3 = None
                    if obj3 is None:
                        b.case("upgrade/upgraded_line_reads_back_as_written", False, case, "the upgraded line %r does not parse as a 1.0.0 line" % su[:120], nontrivial=nontriv, key=repr(key))
                    else:
                        try:
                            s3 = obj3.matchline
                        except Exception as e:
                            s3 = "<%s>" % type(e).__name__
                        b.case("upgrade/upgraded_line_reads_back_as_written", s3 == su and type(obj3) is type(up), case,
                               "upgraded line %r is written as %r after reading it back" % (su[:120], s3[:120]), nontrivial=nontriv, key=repr(key))
            # a line object written once, then edited, writes its NEW field values (no stale text): compared with a freshly parsed twin
            def _holder(o):
                for sub in ("note", "snote"):
                    if getattr(o, sub, None) is not None and hasattr(getattr(o, sub), "field_names"):
                        return getattr(o, sub)
                return o
            try:
                twin = parse_matchline(s1, methods, ver)
                h2, ht = _holder(obj2), _holder(twin)
                fld = next((f for f in getattr(h2, "field_names", ()) if isinstance(getattr(h2, f, None), int) and not isinstance(getattr(h2, f, None), bool)
                            and f in ("Velocity", "Value", "Time", "Octave", "MidiPitch", "Onset", "Offset")), None)
                if fld is not None and twin is not None:
                    _ = obj2.matchline
                    newv = getattr(h2, fld) + 1
                    setattr(h2, fld, newv)
                    setattr(ht, fld, newv)
                    t2, tt = obj2.matchline, twin.matchline
                    b.case("line/text_follows_the_fields_after_an_edit", t2 == tt and t2 != s1, case,
                           "after writing, setting %s=%r and writing again the text is %r; a fresh object with that field writes %r" % (fld, newv, t2[:100], tt[:100]),
                           nontrivial=nontriv, key=repr(key))
            except Exception:
                pass
            # type-driven mutations
            for fn in obj.field_names:
                v0_ = getattr(obj, fn, None)
                muts = []
                if isinstance(v0_, bool) or v0_ is None:
                    continue
                if isinstance(v0_, int):
                    muts = [0, 1, 127]
                elif isinstance(v0_, float):
                    muts = [0.0, 0.00005, 1.99995, 12.3456, np.float64(12.3456), np.float64(-0.5), np.float32(1.5)]
                elif isinstance(v0_, F):
                    muts = [F(1, 4), F(1, 8, 3), F(3, 16), F(1, 4) + F(1, 16), F(1, 4) + F(1, 8) + F(1, 32), F(1, 4, 5) + F(1, 16)]
                for mv in muts:
                    try:
                        import copy
                        o3 = copy.copy(obj)
                        setattr(o3, fn, mv)
                        s3 = o3.matchline
                    except Exception:
                        continue
                    if isinstance(mv, np.floating):
                        # a numpy float is a number like any other: the line reads as if the plain float had been given
                        try:
                            o3b = copy.copy(obj)
                            setattr(o3b, fn, float(mv))
                            s3b = o3b.matchline
                        except Exception:
                            s3b = None
                        if s3b is not None:
                            b.case("line/mutated_field_survives_the_round_trip", s3 == s3b, dict(case, field=fn, value=repr(mv)),
                                   "with %r in field %s the line is written %r, with the plain float %r" % (mv, fn, s3[:120], s3b[:120]), nontrivial=False)
                        continue
                    if s3 == s1 and str(mv) != str(v0_):
                        continue  # composite line: the field lives in a nested line object, the copy's attribute is not what is written
                    mcase = dict(case, field=fn, value=str(mv))
                    try:
                        o4 = parse_matchline(s3, methods, ver)
                    except Exception:
                        o4 = None
                    if o4 is None:
                        continue  # the mutated value is outside what this version's format can express
                    g = getattr(o4, fn, None)
                    if isinstance(mv, float):
                        okm = isinstance(g, float) and abs(g - round(mv, 4)) < 1e-9 or abs(float(g) - mv) < 5.1e-5
                    elif isinstance(mv, F):
                        okm = _value(g) == _value(mv)
                    else:
                        okm = g == mv
                    b.case("line/mutated_field_survives_the_round_trip", okm, mcase, "field %s written as %r read back as %r" % (fn, str(mv), str(g)), nontrivial=False)
                    try:
                        b.case("line/formatting_is_a_fixpoint_after_one_round", o4.matchline == s3, mcase, "text %r, second round %r" % (s3[:100], o4.matchline[:100]), nontrivial=False)
                    except Exception:
                        pass
    b.scopes.append("%d (line, version) pairs, %d distinct (class, version, shape)" % (count, len(seen_classes)))
