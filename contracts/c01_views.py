"""State views for the C01 timeline contracts: ONE specification text (c01.py: wf, operation postconditions) is read
logically through SymState (z3 terms over the heap arrays) and executably through NativeState (a snapshot of a real
Part), so a counter-model found by the solver is judged natively by the very clause that was refuted."""
import itertools

import z3

from pyv import sym
from pyv.sym import SymInt, SymBool, mkbool, sand, sor, snot, implies, ite, zint, zb


class SymState:
    symbolic = True

    def __init__(self, part, heap):
        pts, qt, qd = part.__dict__["_points"], part.__dict__["_quarter_times"], part.__dict__["_quarter_durations"]
        self.n, self.P = SymInt(pts.n), pts.arr
        self.m, self.QT = SymInt(qt.n), qt.arr
        self.m2, self.QD = SymInt(qd.n), qd.arr
        self.Qf = part.__dict__["_quarter_map"].Qf
        self.H = heap.snapshot()
        self.alloc0 = z3.simplify(heap.alloc0 + heap.nalloc)  # every reference handed out so far

    # ---- element access (logical: no bounds / null checks)
    def pt(self, j):
        return SymInt(z3.Select(self.P, zint(j)))

    def _f(self, name, r):
        return z3.Select(self.H[name], zint(r))

    def t(self, r):
        return SymInt(self._f("t", r))

    def prev(self, r):
        return SymInt(self._f("prev", r))

    def next(self, r):
        return SymInt(self._f("next", r))

    def quarter_is_none(self, r):
        return mkbool(self._f("quarter?none", r))

    def quarter(self, r):
        return SymInt(self._f("quarter", r))

    def qt(self, k):
        return SymInt(z3.Select(self.QT, zint(k)))

    def qd(self, k):
        return SymInt(z3.Select(self.QD, zint(k)))

    def Q(self, u):
        return SymInt(self.Qf(zint(u)))

    def none(self):
        return 0

    def is_none(self, r):
        return mkbool(zint(r) == 0)

    def same(self, a, b):
        return mkbool(zint(a) == zint(b))

    def allocated(self, r):
        return mkbool(z3.And(zint(r) > 0, zint(r) <= self.alloc0))

    def ref(self, v):
        """contract-level value (Ref / None) -> logical reference"""
        from pyv.seq import Ref
        if v is None:
            return 0
        if isinstance(v, Ref):
            return SymInt(v.z)
        return v

    def forall(self, fn, n=1, pats=None):
        vs = [z3.Int(sym.fresh_name("q")) for _ in range(n)]
        body = fn(*[SymInt(v) for v in vs])
        if isinstance(body, bool):
            return body
        if pats is not None:
            ps = pats(*vs)
            return SymBool(z3.ForAll(vs, zb(body), patterns=ps))
        return SymBool(z3.ForAll(vs, zb(body)))

    def fields_equal_except(self, other, name, refs):
        """heap field `name` of self equals that of `other` at every reference except the listed ones"""
        def body(r):
            return implies(sand(*[snot(self.same(r, x)) for x in refs]) if refs else True,
                           mkbool(z3.Select(self.H[name], zint(r)) == z3.Select(other.H[name], zint(r))))
        return self.forall(body)


class NativeState:
    """frozen copy of the observable state of a real Part"""
    symbolic = False

    def __init__(self, part):
        self.points = list(part._points)
        self.n = len(self.points)
        self.f = {id(p): {"t": p.t, "prev": p.prev, "next": p.next, "quarter": p.quarter} for p in self.points}
        self.objs = {id(p): p for p in self.points}
        for p in list(self.points):
            for q in (p.prev, p.next):
                if q is not None and id(q) not in self.f:
                    self.f[id(q)] = {"t": q.t, "prev": q.prev, "next": q.next, "quarter": q.quarter}
                    self.objs[id(q)] = q
        self.qts = list(part._quarter_times)
        self.qds = list(part._quarter_durations)
        self.m, self.m2 = len(self.qts), len(self.qds)
        qm = part._quarter_map
        self.maxt = max([0] + [int(p.t) for p in self.points] + [int(x) for x in self.qts]) + 2
        vals = set(range(-1, max(self.n, len(self.qts)) + 3))
        for x in [int(p.t) for p in self.points] + [int(x) for x in self.qts]:
            vals.update((x - 1, x, x + 1))
        self.dom = sorted(v for v in vals if -1 <= v)[:60]
        self.qm = qm  # interp1d objects are replaced, never mutated, by the code under test
        self.qvals = {}

    class _Out:
        """stands for an out-of-range element in quantifier instances the guard excludes"""
        t = prev = next = quarter = None

    def pt(self, j):
        return self.points[j] if 0 <= j < self.n else NativeState._Out

    def _get(self, r, name):
        if r is None or r is NativeState._Out:
            return None
        d = self.f.get(id(r))
        return d[name] if d is not None else getattr(r, name)

    def t(self, r):
        v = self._get(r, "t")
        return v if v is not None else -10**9

    def prev(self, r):
        return self._get(r, "prev")

    def next(self, r):
        return self._get(r, "next")

    def quarter_is_none(self, r):
        return self._get(r, "quarter") is None

    def quarter(self, r):
        v = self._get(r, "quarter")
        return v if v is not None else -10**9

    def qt(self, k):
        return self.qts[k] if 0 <= k < self.m else -10**9

    def qd(self, k):
        return self.qds[k] if 0 <= k < self.m2 else -10**9

    def Q(self, u):
        if u not in self.qvals:
            self.qvals[u] = int(self.qm(u))
        return self.qvals[u]

    def none(self):
        return None

    def is_none(self, r):
        return r is None

    def same(self, a, b):
        return a is b

    def allocated(self, r):
        return True

    def ref(self, v):
        return v

    def forall(self, fn, n=1, pats=None):
        dom = self.dom + list(getattr(self, "extra_dom", []))
        for vs in itertools.product(dom, repeat=n):
            if not fn(*vs):
                return False
        return True

    def fields_equal_except(self, other, name, refs):
        for i, d in self.f.items():
            if any(self.objs[i] is x for x in refs):
                continue
            o = other.f.get(i)
            if o is not None and o[name] is not d[name] and o[name] != d[name]:
                return False
        return True
