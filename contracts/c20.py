"""C20 - exports, views and analyses never modify their argument and are repeatable.

Tier F: frame obligations `modifies(f, argument) = {}` for every read-only entry point, discharged by the modular
        effect analysis over the real ASTs (pyv/frames.py); a reported write is confirmed natively (fingerprint) before
        it is called a violation.
Tier P: container protocol of Score / Performance: symbolic execution of the real __iter__/__next__/__len__/__getitem__
        in a nested-iteration harness (two live iterators over one container each yield every part).
Tier B: every entry point called once and twice on generated scores/parts/performances, fingerprint before/after, results
        compared (bounded).
"""
import io
import itertools
import os
import tempfile

import numpy as np

from pyv.contracts import Contract, Spec, Enum, NS
from pyv.engine import PyRaise

LEVEL = "other"
MANIFEST = {
    "level": "other",
    "technique": "contract-based: frame contracts (modifies = {}) discharged by a modular effect analysis of the real ASTs; iterator-protocol contract by symbolic execution of the real methods; bounded run-time contract checks (fingerprint before/after, repeat calls)",
    "text": "For each read-only entry point the obligation 'writes nothing reachable from its argument' is discharged function by function against callee summaries over all of partitura's source (proved frames are listed in the evidence; frames the analysis cannot decide are handed to the bounded back end and reported as undecided, never as violations). Re-entrant iteration of Score/Performance is proved by executing the real protocol methods symbolically in a nested-iteration harness for containers of 0..3 parts. Repeatability and the undecided frames are checked at run time on generated inputs (bounded).",
    "note": "effect analysis assumptions: library calls do not write partitura objects (except listed), receivers without an inferred /repo class that are called with builtin-container method names are builtin containers, attributes observed immutable on generated objects are immutable; benign by declaration: empty defaultdict entries created by reads, Part._number_of_staves cache; determinism is only checked by repeat calls (bounded)",
}
EXPLANATION = ("Frame (non-mutation) obligations per entry point discharged by effect analysis over the real source; iterator "
               "protocol by symbolic execution; bounded fingerprint/repeat checks for what the analysis leaves undecided.")


def _gen():
    from gen import scores as G
    return G


def _first_part_changed(call):
    """native confirmation used by frames: run `call` on generated parts/scores, report whether a fingerprint changes"""
    def confirm():
        G = _gen()
        for name, mk in G.all_scores("thorough"):
            sc = mk()
            for target in [sc] + list(sc.parts):
                before = G.fingerprint(target)
                try:
                    call(target, sc)
                except Exception:
                    continue
                if G.fingerprint(target) != before:
                    return True, "argument fingerprint changed on generated score %r (%s argument)" % (name, type(target).__name__)
        return False, "no generated input changes"
    return confirm


def _entry_points():
    """(name, frame target, param, callable(arg, score) , accepts: 'score'|'part'|'both')"""
    import partitura as pt
    import partitura.score as sc
    from partitura.utils import music as M

    def as_part(x):
        return x if isinstance(x, sc.Part) else x.parts[0]

    def save_xml(x, s):
        return pt.save_musicxml(x, out=None)

    def save_midi(x, s):
        b = io.BytesIO()
        pt.save_score_midi(x, b)
        return b.getvalue()

    def save_match(x, s):
        # a note-for-note performance of the part, aligned to it, written with the part taken as it is (assume_unfolded)
        from contracts.c08 import _triple
        import tempfile
        import shutil
        part = as_part(x)
        ppart, al = _triple(part, "plain")
        d = tempfile.mkdtemp(prefix="c20_")
        try:
            fn = os.path.join(d, "x.match")
            pt.save_match(al, ppart, part, fn, assume_unfolded=True)
            return [ln for ln in open(fn, encoding="utf-8").read().splitlines() if not ln.startswith("info(matchFileVersion") and "Date" not in ln]
        finally:
            shutil.rmtree(d, ignore_errors=True)

    eps = [
        ("save_match", "partitura.io.exportmatch.matchfile_from_alignment", "spart", save_match),
        ("save_musicxml", "partitura.io.exportmusicxml.save_musicxml", "score_data", save_xml),
        ("save_score_midi", "partitura.io.exportmidi.save_score_midi", "score_data", save_midi),
        ("Part.note_array", "partitura.score.Part.note_array", "self", lambda x, s: as_part(x).note_array(include_pitch_spelling=True, include_key_signature=True, include_time_signature=True, include_staff=True, include_divs_per_quarter=True)),
        ("Score.note_array", "partitura.score.Score.note_array", "self", lambda x, s: s.note_array()),
        ("Part.rest_array", "partitura.score.Part.rest_array", "self", lambda x, s: as_part(x).rest_array()),
        ("compute_pianoroll", "partitura.utils.music.compute_pianoroll", "note_info", lambda x, s: M.compute_pianoroll(as_part(x)).toarray()),
        ("time_signature_map", "partitura.score.Part.time_signature_map", "self", lambda x, s: as_part(x).time_signature_map(as_part(x).first_point.t)),
        ("key_signature_map", "partitura.score.Part.key_signature_map", "self", lambda x, s: as_part(x).key_signature_map(as_part(x).first_point.t)),
        ("clef_map", "partitura.score.Part.clef_map", "self", lambda x, s: as_part(x).clef_map(as_part(x).first_point.t)),
        ("measure_map", "partitura.score.Part.measure_map", "self", lambda x, s: as_part(x).measure_map(as_part(x).first_point.t)),
        ("measure_number_map", "partitura.score.Part.measure_number_map", "self", lambda x, s: as_part(x).measure_number_map(as_part(x).first_point.t)),
        ("metrical_position_map", "partitura.score.Part.metrical_position_map", "self", lambda x, s: as_part(x).metrical_position_map(as_part(x).first_point.t)),
        ("beat_map", "partitura.score.Part.beat_map", "self", lambda x, s: as_part(x).beat_map(as_part(x).first_point.t)),
        ("inv_beat_map", "partitura.score.Part.inv_beat_map", "self", lambda x, s: as_part(x).inv_beat_map(0)),
        ("quarter_map", "partitura.score.Part.quarter_map", "self", lambda x, s: as_part(x).quarter_map(as_part(x).last_point.t)),
        ("inv_quarter_map", "partitura.score.Part.inv_quarter_map", "self", lambda x, s: as_part(x).inv_quarter_map(0)),
        ("quarter_duration_map", "partitura.score.Part.quarter_duration_map", "self", lambda x, s: as_part(x).quarter_duration_map(0)),
        ("Part.pretty", "partitura.score.Part.pretty", "self", lambda x, s: as_part(x).pretty()),
        ("unfold_part_maximal", "partitura.score.unfold_part_maximal", "score", lambda x, s: _gen().fingerprint(sc.unfold_part_maximal(x))),
        ("unfold_part_minimal", "partitura.score.unfold_part_minimal", "score", lambda x, s: _gen().fingerprint(sc.unfold_part_minimal(x))),
        ("iter_unfolded_parts", "partitura.score.iter_unfolded_parts", "part", lambda x, s: [_gen().fingerprint(p) for p in sc.iter_unfolded_parts(as_part(x))]),
        ("estimate_spelling", "partitura.musicanalysis.pitch_spelling.estimate_spelling", "note_info", lambda x, s: pt.musicanalysis.estimate_spelling(as_part(x))),
        ("estimate_voices", "partitura.musicanalysis.voice_separation.estimate_voices", "note_info", lambda x, s: pt.musicanalysis.estimate_voices(_nonzero(as_part(x)))),
        ("estimate_key", "partitura.musicanalysis.key_identification.estimate_key", "note_info", lambda x, s: pt.musicanalysis.estimate_key(as_part(x))),
        ("transpose", "partitura.utils.music.transpose", "score", lambda x, s: _gen().fingerprint(M.transpose(x, sc.Interval(3, "m")))),
    ]
    return eps


def _nonzero(part):
    na = part.note_array()
    return na[na["duration_div"] > 0]


def _frames():
    out = []
    for name, target, param, call in _entry_points():
        out.append({"target": target, "param": param, "modifies": [], "confirm": _first_part_changed(call), "label": name})
    # performance-side and array-side entry points
    out.append({"target": "partitura.io.exportmidi.save_performance_midi", "param": "performance_data", "modifies": [], "confirm": _perf_confirm(_save_perf)})
    out.append({"target": "partitura.performance.PerformedPart.note_array", "param": "self", "modifies": [], "confirm": _perf_confirm(lambda p: p.performedparts[0].note_array())})
    out.append({"target": "partitura.performance.Performance.note_array", "param": "self", "modifies": [], "confirm": _perf_confirm(lambda p: p.note_array())})
    out.append({"target": "partitura.utils.music.slice_notearray_by_time", "param": "note_array", "modifies": [], "confirm": _slice_confirm})
    out.append({"target": "partitura.score.Score.__iter__", "param": "self", "modifies": [], "confirm": _iter_confirm("score")})
    out.append({"target": "partitura.performance.Performance.__iter__", "param": "self", "modifies": [], "confirm": _iter_confirm("performance")})
    out.append({"target": "partitura.score.Score.__len__", "param": "self", "modifies": [], "confirm": None})
    out.append({"target": "partitura.score.Score.__getitem__", "param": "self", "modifies": [], "confirm": None})
    return out


def _save_perf(p):
    import partitura as pt
    b = io.BytesIO()
    pt.save_performance_midi(p, b)
    return b.getvalue()


def _perf_confirm(call):
    def confirm():
        G = _gen()
        for perf in G.all_performances("thorough"):
            before = G.fingerprint(perf)
            try:
                call(perf)
            except Exception:
                continue
            if G.fingerprint(perf) != before:
                return True, "performance fingerprint changed"
        return False, "no generated input changes"
    return confirm


def _slice_cases():
    dt = [("onset_beat", "f4"), ("duration_beat", "f4"), ("onset_quarter", "f4"), ("duration_quarter", "f4"), ("onset_div", "i4"), ("duration_div", "i4"),
          ("pitch", "i4"), ("voice", "i4"), ("id", "U8")]
    rows = [(0, 1, 0, 1, 0, 4, 60, 1, "a"), (1, 1, 1, 1, 4, 4, 62, 1, "b"), (2, 6, 2, 6, 8, 24, 64, 1, "c"), (2, 2, 2, 2, 8, 8, 67, 2, "d")]
    na = np.array(rows, dtype=dt)
    return [(na, 0, 3), (na, 1, 2.5), (na, 0, 10), (na, 2, 3), (na, 0.5, 3)]


def _slice_confirm():
    from partitura.utils.music import slice_notearray_by_time
    for na, s, e in _slice_cases():
        arg = na.copy()
        try:
            slice_notearray_by_time(arg, s, e)
        except Exception:
            continue
        if arg.tobytes() != na.tobytes():
            return True, "note array argument changed for window [%s, %s)" % (s, e)
    return False, "no generated input changes"


def _iter_confirm(kind):
    def confirm():
        G = _gen()
        objs = [mk() for _, mk in G.all_scores("quick")] if kind == "score" else G.all_performances("quick")
        for o in objs:
            n = len(o)
            pairs = [(id(a), id(b)) for a in o for b in o]
            if len(pairs) != n * n:
                return True, "nested iteration over a %s with %d parts visits %d pairs instead of %d" % (kind, n, len(pairs), n * n)
        return False, "nested iteration complete on generated inputs (iterator state is benign)"
    return confirm


FRAMES = _frames  # callable: built lazily (imports partitura)


# ------------------------------------------------------------------------------------------------ P: container protocol
class ContainerSpec(Spec):
    def __init__(self, cls, attr):
        self.cls, self.attr = cls, attr

    def sym(self, name, ip):
        from pyv import loader
        cls = loader.resolve(self.cls)
        k = ip.eng.choose([None] * 4, name + ".nparts", labels=[0, 1, 2, 3])
        parts = [_Tok("part%d" % i) for i in range(k)]
        return ip.new_symobj(cls, **{self.attr: parts})

    def describe(self):
        return "%s with 0..3 parts" % self.cls


class _Tok:
    def __init__(self, n):
        self.n = n

    def __repr__(self):
        return self.n


def _nested_harness(ip, f, a):
    """for x in c: for y in c: record (x, y)  -- spelled out with the real protocol methods, interleaved as CPython does"""
    import inspect
    from pyv.interp import BoundMethod
    c = a.c
    cls = type(c)

    def meth(obj, nm):
        if ip is None:
            return getattr(obj, nm)
        if ip.is_symobj(obj):
            return BoundMethod(obj, inspect.getattr_static(type(obj), nm))
        return getattr(obj, nm)

    def call(m, *args):
        if ip is None:
            return m(*args)
        return ip.call(m, list(args), {})

    def nxt(it):
        if ip is None:
            try:
                return True, next(it)
            except StopIteration:
                return False, None
        try:
            if ip.is_symobj(it):
                return True, call(meth(it, "__next__"))
            return True, next(it)
        except PyRaise as e:
            if issubclass(e.exc_type, StopIteration):
                return False, None
            raise
        except StopIteration:
            return False, None
    out = []
    it1 = call(meth(c, "__iter__"))
    for _ in range(10):
        ok, x = nxt(it1)
        if not ok:
            break
        it2 = call(meth(c, "__iter__"))
        for _ in range(10):
            ok2, y = nxt(it2)
            if not ok2:
                break
            out.append((x, y))
    n = call(meth(c, "__len__"))
    items = [call(meth(c, "__getitem__"), i) for i in range(n)]
    return out, n, items


def _protocol_post(attr):
    def post(a, r, old):
        pairs, n, items = r
        parts = getattr(a.c, attr)
        return n == len(parts) and all(x is y for x, y in zip(items, parts)) and len(pairs) == len(parts) ** 2 and \
            all(p[0] is q[0] and p[1] is q[1] for p, q in zip(pairs, [(x, y) for x in parts for y in parts]))
    return post


CONTRACTS = [
    Contract("C20", "partitura.score.Score.__iter__", [("c", ContainerSpec("partitura.score.Score", "parts"))],
             call=_nested_harness, name="Score.container_protocol",
             ensures=[("len_getitem_consistent_and_nested_iteration_visits_every_pair", _protocol_post("parts"))]),
    Contract("C20", "partitura.performance.Performance.__iter__", [("c", ContainerSpec("partitura.performance.Performance", "performedparts"))],
             call=_nested_harness, name="Performance.container_protocol",
             ensures=[("len_getitem_consistent_and_nested_iteration_visits_every_pair", _protocol_post("performedparts"))]),
]


# ------------------------------------------------------------------------------------------------ bounded
def _res_repr(r):
    if isinstance(r, np.ndarray):
        return ("nd", str(r.dtype), r.tolist())
    if isinstance(r, (list, tuple)):
        return [_res_repr(x) for x in r]
    if hasattr(r, "tolist"):
        return r.tolist()
    return r


def bounded(b):
    G = _gen()
    eps = _entry_points()
    scores = G.all_scores(b.tier)
    b.rules.append("every read-only entry point (%d) called twice on every generated score/part (%d scores: built through the API and loaded "
                   "fixtures with ties, grace notes, chords of unequal duration, repeats, several parts); contract: fingerprint of the argument "
                   "unchanged after each call, second result equals first; pairs of different entry points in both orders (quick: sampled); "
                   "nested iteration over Score and Performance; non-trivial = (entry point, score) with >= 1 tie/grace/repeat" % (len(eps), len(scores)))
    b.scopes.append("%d entry points x %d scores x {Score, Part} argument" % (len(eps), len(scores)))
    for sname, mk in scores:
        sc = mk()
        for target in [sc, sc.parts[0]]:
            kind = type(target).__name__
            for name, _, _, call in eps:
                case = {"entry": name, "score": sname, "arg": kind}
                before = G.fingerprint(target)
                try:
                    r1 = call(target, sc)
                except Exception as e:
                    # whether an entry point can process this input is another property's business; purity is still checked
                    b.case("readonly/argument_unchanged_even_when_raising", G.fingerprint(target) == before, case,
                           "raised %s and left the argument modified" % type(e).__name__, nontrivial=False)
                    continue
                b.case("readonly/argument_unchanged", G.fingerprint(target) == before, case, "fingerprint of the argument changed")
                try:
                    r2 = call(target, sc)
                    same = _res_repr(r1) == _res_repr(r2)
                except Exception as e:
                    same = False
                b.case("readonly/second_call_same_result", same, case, "calling again gives a different result")
                b.case("readonly/argument_unchanged", G.fingerprint(target) == before, dict(case, call=2), "fingerprint changed on second call")
        # order of pairs
        part = sc.parts[0]
        pairs = list(itertools.permutations(range(len(eps)), 2))
        import random
        rng = random.Random(b.seed)
        pairs = rng.sample(pairs, 12 if b.tier == "quick" else 120)
        for i, j in pairs:
            case = {"entries": [eps[i][0], eps[j][0]], "score": sname}
            try:
                ref_j = _res_repr(eps[j][3](mk().parts[0], sc))
                p = mk().parts[0]
                eps[i][3](p, sc)
                got = _res_repr(eps[j][3](p, sc))
            except Exception:
                continue
            b.case("readonly/result_independent_of_previous_calls", got == ref_j, case, "%s gives a different result after %s" % (eps[j][0], eps[i][0]))
        n = len(sc)
        pairs = [(id(x), id(y)) for x in sc for y in sc]
        b.case("container/nested_iteration", pairs == [(id(x), id(y)) for x in sc.parts for y in sc.parts], {"score": sname},
               "nested iteration visits %d pairs of %d" % (len(pairs), n * n))
        b.case("container/len_index", len(sc) == len(sc.parts) and all(sc[i] is sc.parts[i] for i in range(n)), {"score": sname}, "len/index")
    # the analyses on a LARGE input (1 700 notes, many equal onsets): orderings that depend on object addresses or unstable sorts only show there
    import partitura as pt
    big = os.path.join(os.path.dirname(pt.__file__), "..", "tests", "data", "musicxml", "test_part_group.xml")
    if os.path.exists(big):
        bsc = pt.load_musicxml(big)
        for name, _, _, call in eps:
            if name not in ("estimate_voices", "estimate_spelling", "estimate_key"):
                continue
            case = {"entry": name, "score": "file:test_part_group.xml", "arg": "Score", "calls": 3}
            try:
                rs = [_res_repr(call(bsc, bsc)) for _ in range(3)]
            except Exception:
                continue
            b.case("readonly/second_call_same_result", rs[1] == rs[0] and rs[2] == rs[0], case, "calling again gives a different result")
    for perf in G.all_performances(b.tier):
        case = {"performance": perf.id}
        before = G.fingerprint(perf)
        for nm, call in (("save_performance_midi", _save_perf), ("Performance.note_array", lambda p: p.note_array().tolist()),
                         ("PerformedPart.note_array", lambda p: p.performedparts[0].note_array().tolist())):
            try:
                r1 = call(perf)
                r2 = call(perf)
            except Exception as e:
                b.case("readonly/argument_unchanged_even_when_raising", G.fingerprint(perf) == before, dict(case, entry=nm), "raised and modified", nontrivial=False)
                continue
            b.case("readonly/argument_unchanged", G.fingerprint(perf) == before, dict(case, entry=nm), "performance fingerprint changed")
            b.case("readonly/second_call_same_result", r1 == r2, dict(case, entry=nm), "different result on second call")
        pairs = [(id(x), id(y)) for x in perf for y in perf]
        b.case("container/nested_iteration", pairs == [(id(x), id(y)) for x in perf.performedparts for y in perf.performedparts], case,
               "nested iteration over a performance visits %d pairs of %d" % (len(pairs), len(perf.performedparts) ** 2))
    from partitura.utils.music import slice_notearray_by_time
    for na, s, e in _slice_cases():
        arg = na.copy()
        case = {"slice": [s, e]}
        ok, r1 = b.guard("readonly/slice_notearray", case, lambda: slice_notearray_by_time(arg, s, e))
        if ok:
            b.case("readonly/argument_unchanged", arg.tobytes() == na.tobytes(), dict(case, entry="slice_notearray_by_time"), "note array argument modified")
            r2 = slice_notearray_by_time(arg, s, e)
            b.case("readonly/second_call_same_result", r1.tolist() == r2.tolist(), dict(case, entry="slice_notearray_by_time"), "different second result")
            b.case("readonly/result_is_a_copy", not np.shares_memory(r1, arg), dict(case, entry="slice_notearray_by_time"), "result aliases the argument")
