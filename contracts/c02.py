"""C02 - quarter and beat maps are exact, monotone and mutually inverse.

Tier P: musical-beat switching (`set_musical_beat_per_ts`, `use_musical_beat`, `use_notated_beat`): symbolic execution on a part
        whose time signatures carry an arbitrary (symbolic) stale musical-beat value; `Part.quarter_duration_map` is C01's.
Tier B: the four maps against exact-rational integration (gen/oracles.py) at every integer position and every change point of
        generated parts (quarter-duration changes x signature changes x pickups x beat modes) - the interpolators are
        numpy/scipy and outside the SMT subset (bounded).
"""
import itertools
from fractions import Fraction

from pyv.contracts import Contract, Spec, Enum, Int, NS
from pyv.sym import sand

LEVEL = "other"
MANIFEST = {
    "level": "other",
    "technique": "contract-based: SMT contracts on the musical-beat state machine over the real source; bounded run-time contract check of the four time maps against an exact-rational integration oracle",
    "text": "Musical-beat switching is proved: after set_musical_beat_per_ts every signature carries the user value if given, else 2/3/4 for 6/9/12 beats, else its numerator, whatever stale value it carried; use_musical_beat/use_notated_beat switch the mode flag and reset as documented. Exactness, continuity/monotonicity, origin (pickup rule) and inverse maps are run-time contracts at every integer position and change point of generated parts, compared with exact Fraction integration (bounded, tolerance 1e-9).",
    "note": "scipy interp1d and numpy cumsum/diff are not modelled: the interpolation clauses are bounded only; IEEE error covered only by the bounded part",
}
EXPLANATION = "State machine by SMT; map values by bounded comparison with an exact-rational oracle."

TS = [(2, 4), (3, 4), (4, 4), (6, 8), (9, 8), (12, 8), (5, 8), (7, 8), (2, 2), (12, 16), (6, 4)]
MB = [{}, {"6/8": 3}, {"5/8": 2, "3/4": 1}, {"4/4": 2, "12/8": 2, "9/8": 1}]


class PartWithSignatures(Spec):
    def __init__(self, n=2):
        self.n = n

    def sym(self, name, ip):
        import partitura.score as sc
        part = sc.Part("P", quarter_duration=4)
        self_ts = []
        for i in range(self.n):
            k = ip.eng.choose([None] * len(TS), "%s.ts%d" % (name, i), labels=["%d/%d" % t for t in TS])
            ts = ip.new_symobj(sc.TimeSignature, beats=TS[k][0], beat_type=TS[k][1], musical_beats=Int(1, None).sym("%s.stale%d" % (name, i), ip),
                               start=None, end=None)
            part.add(ts, 16 * i)
            self_ts.append(ts)
        flag = ip.eng.choose([None, None], name + ".musical", labels=[False, True]) == 1
        part._use_musical_beat = flag
        part.__dict__["__pyv_ts__"] = self_ts
        ip.symobjs[id(part)] = part
        return part

    def describe(self):
        return "part with %d time signatures (each of 11 kinds) carrying arbitrary stale musical-beat values" % self.n


def _default(beats):
    return {6: 2, 9: 3, 12: 4}.get(beats, beats)


def _expected(ts, mb):
    key = "%d/%d" % (ts.beats, ts.beat_type)
    return mb[key] if key in mb else _default(ts.beats)


def _tss(part):
    import partitura.score as sc
    return part.__dict__.get("__pyv_ts__") or list(part.iter_all(sc.TimeSignature))


CONTRACTS = [
    Contract("C02", "partitura.score.Part.set_musical_beat_per_ts", [("self", PartWithSignatures(2)), ("mbeats_per_ts", Enum(MB))],
             old={"flag": lambda a: a.self._use_musical_beat},
             ensures=[("user_value_else_default_2_3_4_else_numerator", lambda a, r: sand(*[ts.musical_beats == _expected(ts, a.mbeats_per_ts) for ts in _tss(a.self)])),
                      ("mode_flag_untouched", lambda a, r, old: a.self._use_musical_beat == old.flag)]),
    Contract("C02", "partitura.score.Part.use_musical_beat", [("self", PartWithSignatures(2)), ("mbeats_per_ts", Enum(MB))],
             old={"flag": lambda a: a.self._use_musical_beat, "stale": lambda a: [ts.musical_beats for ts in _tss(a.self)]},
             ensures=[("musical_mode_on", lambda a, r: a.self._use_musical_beat is True),
                      ("user_beats_applied_when_switching_on", lambda a, r, old: True if (old.flag or a.mbeats_per_ts == {}) else
                       sand(*[ts.musical_beats == _expected(ts, a.mbeats_per_ts) for ts in _tss(a.self)])),
                      ("nothing_changes_when_already_on_or_no_user_beats", lambda a, r, old: sand(*[ts.musical_beats == s for ts, s in zip(_tss(a.self), old.stale)])
                       if (old.flag or a.mbeats_per_ts == {}) else True)]),
    Contract("C02", "partitura.score.Part.use_notated_beat", [("self", PartWithSignatures(2))],
             old={"flag": lambda a: a.self._use_musical_beat, "stale": lambda a: [ts.musical_beats for ts in _tss(a.self)]},
             ensures=[("notated_mode_on", lambda a, r: a.self._use_musical_beat is False),
                      ("musical_beats_reset_to_defaults_when_switching_off", lambda a, r, old: sand(*[ts.musical_beats == _default(ts.beats) for ts in _tss(a.self)]) if old.flag
                       else sand(*[ts.musical_beats == s for ts, s in zip(_tss(a.self), old.stale)]))]),
]


# ------------------------------------------------------------------------------------------------ bounded
def _parts(tier):
    import partitura.score as sc
    out = []

    def mk(qchanges, tss, measures, notes_end, first=0):
        def f():
            p = sc.Part("P", quarter_duration=qchanges[0][1])
            for t, q in qchanges[1:]:
                p.set_quarter_duration(t, q)
            for t, bts, bt in tss:
                p.add(sc.TimeSignature(bts, bt), t)
            for i, (s, e) in enumerate(measures):
                p.add(sc.Measure(number=i + 1), s, e)
            p.add(sc.Note("C", 4, id="n0", voice=1), first, notes_end)
            return p
        return f
    # (name, maker)
    out.append(("plain_4_4", mk([(0, 4)], [(0, 4, 4)], [(0, 16), (16, 32)], 32)))
    out.append(("pickup_1q", mk([(0, 4)], [(0, 4, 4)], [(0, 4), (4, 20), (20, 36)], 36)))
    out.append(("pickup_full_bar_is_not_a_pickup", mk([(0, 2)], [(0, 3, 4)], [(0, 6), (6, 12)], 12)))
    out.append(("six_eight_pickup", mk([(0, 12)], [(0, 6, 8)], [(0, 6), (6, 42), (42, 78)], 78)))
    out.append(("q_change_at_barline", mk([(0, 2), (8, 3)], [(0, 4, 4)], [(0, 8), (8, 20)], 20)))
    out.append(("q_change_mid_bar_and_ts_change", mk([(0, 4), (6, 8), (30, 3)], [(0, 3, 4), (12 + 24, 5, 8)], [(0, 12), (12, 36), (36, 36 + 8)], 44)))
    out.append(("ts_change_not_at_q_change", mk([(0, 6), (24, 4)], [(0, 2, 2), (12, 9, 8), (39, 7, 8)], [(0, 24), (24, 42), (42, 56)], 56)))
    out.append(("q_change_inside_pickup", mk([(0, 2), (2, 4)], [(0, 4, 4)], [(0, 6), (6, 22)], 22)))
    out.append(("fifteen_eight_then_eighteen_sixteen", mk([(0, 4)], [(0, 15, 8), (60, 18, 16)], [(0, 30), (30, 60), (60, 78)], 78)))
    out.append(("three_eight_full_first_bar", mk([(0, 4)], [(0, 3, 8)], [(0, 6), (6, 12), (12, 18)], 18)))
    out.append(("two_two_pickup_of_three_quarters", mk([(0, 2)], [(0, 2, 2)], [(0, 6), (6, 14), (14, 22)], 22)))
    out.append(("six_eight_pickup_of_five_eighths", mk([(0, 2)], [(0, 6, 8)], [(0, 5), (5, 11), (11, 17)], 17)))
    # a long piece on a fine grid (positions beyond 100 000 divisions): one division is far below any relative tolerance of the positions
    out.append(("long_piece_on_a_fine_grid", mk([(0, 480), (115200, 960)], [(0, 4, 4)], [(0, 1920), (1920, 115200), (115200, 172800)], 172800)))
    out.append(("irregular_5_8_7_8", mk([(0, 2)], [(0, 5, 8), (5, 7, 8)], [(0, 5), (5, 12), (12, 19)], 19)))
    # NOTE (DESIGN.md section 6, C02): parts whose first time point lies after timeline position 0 are not generated: the library
    # keeps the origin of such a part at position 0 (the origin shared by all parts of a score, which score-level note arrays rely
    # on) while the statement says "at the first time point"; the statement does not address that corner and no verdict is given.
    if tier == "thorough":
        out.append(("many_changes", mk([(0, 1), (3, 2), (7, 5), (22, 480)], [(0, 3, 4), (3, 6, 8), (9, 2, 4)], [(0, 3), (3, 9), (9, 19)], 2000)))
        out.append(("twelve_eight", mk([(0, 6)], [(0, 12, 8)], [(0, 9), (9, 45)], 45)))
    return out


def bounded(b):
    from gen import oracles as O
    import numpy as np
    parts = _parts(b.tier)
    modes = [("notated", None), ("musical_default", {}), ("musical_user", {"6/8": 3, "5/8": 2, "12/8": 2}), ("musical_user_single_entry", {"4/4": 2}), ("musical_user_single_entry_6_8", {"6/8": 6}),
             ("musical_user_more_beats_than_the_numerator", {"2/2": 4, "4/4": 8, "3/4": 6, "3/8": 6})]
    b.rules.append("generated parts (%d: quarter-duration changes at/inside/outside barlines, signature changes incl. compound and irregular meters, pickups "
                   "of several lengths incl. a full first bar and a divisions change inside the pickup) x beat mode {notated, musical default, musical "
                   "user beats}; at every integer position between first and last point (capped at 400) and every change point: quarter/beat value = "
                   "exact integral, non-decreasing, inverse(forward(t)) = t, quarter_duration_map = divisions in force; non-trivial = part with >= 1 change" % len(parts))
    b.scopes.append("%d parts x 3 beat modes x all integer positions" % len(parts))
    for name, mk in parts:
        for mode, user in modes:
            part = mk()
            case = {"part": name, "mode": mode}
            if user is not None:
                part.use_musical_beat(user)
            musical = user is not None
            if musical:
                # the musical beats in force: the user's value for the signature, else the documented default (2, 3, 4 for 6, 9, 12; the numerator otherwise)
                tsl = list(part.iter_all(__import__("partitura").score.TimeSignature))
                got_mb = [(t.beats, t.beat_type, t.musical_beats) for t in tsl]
                want_mb = [(t.beats, t.beat_type, _expected(t, user)) for t in tsl]
                b.case("beats/musical_beats_are_the_users_value_or_the_documented_default", got_mb == want_mb, case, "musical beats %r, expected %r" % (got_mb, want_mb))
            lo, hi = part.first_point.t, part.last_point.t
            pos = sorted(set(list(range(lo, min(hi, lo + 400) + 1)) + [hi] + [t for t in part._quarter_times if lo <= t <= hi]
                             + [t + d for t in list(part._quarter_times) + [hi] for d in (-2, -1, 1) if lo <= t + d <= hi]))
            ok, maps = b.guard("maps/no_exception", case, lambda: (part.quarter_map, part.beat_map, part.inv_quarter_map, part.inv_beat_map, part.quarter_duration_map))
            if not ok:
                continue
            qm, bm, iqm, ibm, qdm = maps
            bad_q = bad_b = bad_inv = bad_mono = bad_qd = None
            prevq = prevb = None
            for t in pos:
                try:
                    q, bt = float(qm(t)), float(bm(t))
                except Exception as e:
                    bad_q = "raised %s at t=%d" % (type(e).__name__, t)
                    break
                wq, wb = O.quarter_pos(part, t), O.beat_pos(part, t, musical)
                if abs(q - float(wq)) > 1e-9 * (1 + abs(float(wq))) and bad_q is None:
                    bad_q = "quarter_map(%d) = %r, exact value %s" % (t, q, wq)
                if abs(bt - float(wb)) > 1e-9 * (1 + abs(float(wb))) and bad_b is None:
                    bad_b = "beat_map(%d) = %r, exact value %s" % (t, bt, wb)
                if prevq is not None and (q < prevq - 1e-12 or bt < prevb - 1e-12) and bad_mono is None:
                    bad_mono = "map decreases at t=%d" % t
                prevq, prevb = q, bt
                try:
                    if (abs(float(iqm(q)) - t) > 1e-6 or abs(float(ibm(bt)) - t) > 1e-6) and bad_inv is None:
                        bad_inv = "inverse maps at t=%d give %r / %r" % (t, float(iqm(q)), float(ibm(bt)))
                except Exception as e:
                    if bad_inv is None:
                        bad_inv = "inverse map raised %s at t=%d" % (type(e).__name__, t)
                if int(qdm(t)) != O.q_in_force(part, t) and bad_qd is None:
                    bad_qd = "quarter_duration_map(%d) = %r, in force %d" % (t, qdm(t), O.q_in_force(part, t))
            # the same positions asked as a list, an integer array and numpy integer scalars: "at any time" does not depend on how the time is passed
            bad_vec = None
            import numpy as _np
            for mname, mp, ref in (("quarter_duration_map", qdm, lambda t: O.q_in_force(part, t)), ("quarter_map", qm, lambda t: float(O.quarter_pos(part, t))),
                                   ("beat_map", bm, lambda t: float(O.beat_pos(part, t, musical)))):
                want_v = [ref(t) for t in pos]
                for form, arg in (("list", list(pos)), ("int64 array", _np.array(pos, dtype=_np.int64)), ("int32 array", _np.array(pos, dtype=_np.int32))):
                    try:
                        got_v = [float(x) for x in _np.asarray(mp(arg)).ravel()]
                    except Exception as e:
                        bad_vec = bad_vec or "%s(%s) raised %s" % (mname, form, type(e).__name__)
                        continue
                    if len(got_v) != len(want_v) or any(abs(g - w) > 1e-9 * (1 + abs(w)) for g, w in zip(got_v, want_v)):
                        k = next((i for i, (g, w) in enumerate(zip(got_v, want_v)) if abs(g - w) > 1e-9 * (1 + abs(w))), None)
                        bad_vec = bad_vec or "%s(%s): %d values for %d positions%s" % (mname, form, len(got_v), len(want_v), "" if k is None else "; at t=%d it gives %r, exact value %r" % (pos[k], got_v[k], want_v[k]))
                for t in part._quarter_times:
                    if lo <= t <= hi:
                        g = float(mp(_np.int64(t)))
                        if abs(g - ref(t)) > 1e-9 * (1 + abs(ref(t))):
                            bad_vec = bad_vec or "%s(np.int64(%d)) = %r, exact value %r" % (mname, t, g, ref(t))
            nontriv = len(part._quarter_times) > 1 or len(list(part.iter_all(__import__("partitura").score.TimeSignature))) > 1
            b.case("maps/vector_and_numpy_scalar_queries_give_the_same_values", bad_vec is None, case, bad_vec or "", nontrivial=nontriv)
            b.case("maps/quarter_map_exact_with_pickup_origin", bad_q is None, case, bad_q or "", nontrivial=nontriv)
            b.case("maps/beat_map_exact_with_pickup_origin", bad_b is None, case, bad_b or "", nontrivial=nontriv)
            b.case("maps/non_decreasing_across_change_points", bad_mono is None, case, bad_mono or "", nontrivial=nontriv)
            b.case("maps/inverse_undoes_forward", bad_inv is None, case, bad_inv or "", nontrivial=nontriv)
            b.case("maps/quarter_duration_map_returns_divisions_in_force", bad_qd is None, case, bad_qd or "", nontrivial=nontriv)
    # quarter-duration edit histories: the maps follow the LATEST setting at every change point (a later call at the same time replaces the
    # earlier one, also when it restores the value of the preceding stretch) - compared with a part built directly from the final settings
    import partitura.score as sc
    for hist, final in ([[(0, 4), (8, 2), (8, 4)], [(0, 4)]], [[(0, 4), (8, 2), (16, 4), (16, 2)], [(0, 4), (8, 2)]], [[(0, 1), (6, 3), (6, 1)], [(0, 1)]],
                        [[(0, 2), (12, 3), (4, 6), (12, 2)], [(0, 2), (4, 6), (12, 2)]], [[(0, 4), (8, 2), (8, 3), (8, 2)], [(0, 4), (8, 2)]]):
        def mk(settings):
            p = sc.Part("P", quarter_duration=settings[0][1])
            for t, q in settings[1:]:
                p.set_quarter_duration(t, q)
            p.add(sc.TimeSignature(4, 4), 0)
            p.add(sc.Note("C", 4, id="n0", voice=1), 0, 24)
            return p
        case = {"history": [list(x) for x in hist]}
        ok, pair = b.guard("maps/no_exception", case, lambda: (mk(hist), mk(final)))
        if not ok:
            continue
        ph, pf = pair
        bad = None
        for t in range(0, 25):
            got = (int(ph.quarter_duration_map(t)), float(ph.quarter_map(t)), float(ph.beat_map(t)))
            want = (int(O.q_in_force(pf, t)), float(O.quarter_pos(pf, t)), float(O.beat_pos(pf, t)))
            if got[0] != want[0] or abs(got[1] - want[1]) > 1e-9 or abs(got[2] - want[2]) > 1e-9:
                bad = "after the history, (divisions, quarter, beat) at t=%d are %r; the latest settings %r mean %r" % (t, got, final, want)
                break
        b.case("maps/latest_setting_in_force_after_an_edit_history", bad is None, case, bad or "")
    # the order in which a part is put together is not part of the part: later bars first, the opening prepended, divisions declared last
    def order_a():
        p = sc.Part("P", quarter_duration=4)
        p.add(sc.Note("E", 4, id="late", voice=1), 8, 16)      # the first object ever added does not stand at the start
        p.add(sc.TimeSignature(4, 4), 0)
        p.add(sc.Note("C", 4, id="early", voice=1), 0, 8)
        p.add(sc.Measure(number=1), 0, 16)
        p.add(sc.Note("G", 4, id="more", voice=2), 16, 32)
        p.add(sc.Measure(number=2), 16, 32)
        return p, [(0, 4)]

    def order_b():
        p = sc.Part("P")                                          # divisions declared after the notes are in
        p.add(sc.Note("E", 4, id="late", voice=1), 18, 30)
        p.add(sc.Note("C", 4, id="early", voice=1), 6, 18)
        p.add(sc.Note("A", 3, id="upbeat", voice=1), 0, 6)
        p.set_quarter_duration(0, 6)
        p.add(sc.TimeSignature(2, 4), 0)
        p.add(sc.Measure(number=1), 0, 6)
        p.add(sc.Measure(number=2), 6, 18)
        p.add(sc.Measure(number=3), 18, 30)
        return p, [(0, 6)]

    def order_c():
        p = sc.Part("P", quarter_duration=2)
        p.add(sc.Note("E", 4, id="late", voice=1), 12, 20)
        p.set_quarter_duration(8, 4)
        p.add(sc.Note("C", 4, id="early", voice=1), 0, 12)
        p.add(sc.TimeSignature(4, 4), 0)
        return p, [(0, 2), (8, 4)]
    for oname, mk_ in (("later_note_first_then_the_opening", order_a), ("notes_back_to_front_then_the_divisions", order_b), ("late_note_then_a_divisions_change_then_the_opening", order_c)):
        case = {"order_of_construction": oname}
        ok, res = b.guard("maps/no_exception", case, mk_)
        if not ok:
            continue
        p, intended = res
        p._verif_intended_quarter_changes = intended
        bad = None
        for t in range(p.first_point.t, p.last_point.t + 1):
            got = (int(p.quarter_duration_map(t)), float(p.quarter_map(t)), float(p.beat_map(t)))
            want = (int(O.q_in_force(p, t)), float(O.quarter_pos(p, t)), float(O.beat_pos(p, t)))
            if got[0] != want[0] or abs(got[1] - want[1]) > 1e-9 or abs(got[2] - want[2]) > 1e-9:
                bad = bad or "(divisions, quarter, beat) at t=%d are %r; the divisions declared %r and the signatures mean %r" % (t, got, intended, want)
        b.case("maps/follow_the_part_as_it_is_now", bad is None, case, bad or "")
    # a map asked for, the part edited in place, the map asked for again: the second answer follows the edited part
    for edit_name, edit in (("replace_a_quarter_duration_at_an_existing_change", lambda p: p.set_quarter_duration(8, 3)),
                            ("replace_a_time_signature", lambda p: (p.remove([t for t in p.iter_all(sc.TimeSignature) if t.start.t == 8][0]), p.add(sc.TimeSignature(6, 8), 8))),
                            ("new_musical_beats_for_a_signature", lambda p: p.set_musical_beat_per_ts({"3/4": 1, "4/4": 2}))):
        p = sc.Part("P", quarter_duration=4)
        p.set_quarter_duration(8, 2)
        p.add(sc.TimeSignature(4, 4), 0)
        p.add(sc.TimeSignature(3, 4), 8)
        p.add(sc.Note("C", 4, id="n0", voice=1), 0, 26)
        if edit_name.startswith("new_musical"):
            p.use_musical_beat()
        case = {"edit_between_two_reads": edit_name}
        first = [float(p.beat_map(t)) for t in range(0, 27)] + [float(p.quarter_map(t)) for t in range(0, 27)] + [float(p.inv_beat_map(p.beat_map(t))) for t in range(0, 27)]
        ok, _ = b.guard("maps/no_exception", case, lambda: edit(p))
        if not ok:
            continue
        mus = bool(p._use_musical_beat)
        bad = None
        for t in range(0, 27):
            got = (float(p.beat_map(t)), float(p.quarter_map(t)), float(p.inv_beat_map(p.beat_map(t))))
            want = (float(O.beat_pos(p, t, mus)), float(O.quarter_pos(p, t)), float(t))
            if any(abs(g - w) > 1e-9 for g, w in zip(got, want)):
                bad = bad or "after the edit (beat, quarter, inverse of beat) at t=%d are %r, the edited part means %r" % (t, got, want)
        b.case("maps/follow_the_part_as_it_is_now", bad is None, case, bad or "")
    # an edit made on a part, compared with a part that was BUILT in the edited state (the expected values never see the edited part)
    def rebar_base(measures, sigs=((0, 6, 8),), end=38):
        p = sc.Part("P", quarter_duration=4)
        for t, bts, bt in sigs:
            p.add(sc.TimeSignature(bts, bt), t)
        p.add(sc.Note("C", 4, id="n0", voice=1), 0, end)
        for k, (s, e) in enumerate(measures):
            p.add(sc.Measure(number=k + 1), s, e)
        return p

    def rebar_through_the_points(p):
        # the bars taken out through the time points they stand on (as the slur / tuplet setters and the MusicXML reader do), an upbeat bar put in
        for m in list(p.iter_all(sc.Measure)):
            m.start.remove_starting_object(m)
            m.end.remove_ending_object(m)
        for k, (s, e) in enumerate(((0, 2), (2, 14), (14, 26), (26, 38))):
            p.add(sc.Measure(number=k), s, e)

    def signature_taken_out_through_its_point(p):
        ts = [t for t in p.iter_all(sc.TimeSignature) if t.start.t == 14][0]
        ts.start.remove_starting_object(ts)

    def same_signature_entered_twice(p):
        # (as a reader does that meets the signature once per staff) - whichever of the two counts, 6/8 is in force from t=24
        p.add(sc.TimeSignature(6, 8), 24)
        p.add(sc.TimeSignature(6, 8), 24)
    def entered_removed_entered(p):
        # a signature entered inside a bar, taken out again at once and replaced (three consecutive operations at one position)
        wrong = sc.TimeSignature(3, 4)
        p.add(wrong, 20)
        p.remove(wrong)
        p.add(sc.TimeSignature(6, 8), 20)
    def start_of_the_upbeat_bar_taken_out_and_put_back(p):
        m1 = sorted(p.iter_all(sc.Measure), key=lambda m: m.start.t)[0]
        p.remove(m1, which="start")
        p.add(m1, start=0)
    for ename, base, edit, direct in (
            ("bars_removed_through_their_time_points_and_an_upbeat_bar_added", lambda: rebar_base(((0, 12), (12, 24), (24, 36))), rebar_through_the_points,
             lambda: rebar_base(((0, 2), (2, 14), (14, 26), (26, 38)))),
            ("a_signature_removed_through_its_time_point", lambda: rebar_base(((0, 2), (2, 14), (14, 26), (26, 38)), sigs=((0, 6, 8), (14, 3, 4))), signature_taken_out_through_its_point,
             lambda: rebar_base(((0, 2), (2, 14), (14, 26), (26, 38)))),
            ("a_signature_entered_removed_and_entered_again_inside_a_bar", lambda: rebar_base(((0, 16), (16, 32), (32, 48)), sigs=((0, 4, 4),), end=48), entered_removed_entered,
             lambda: rebar_base(((0, 16), (16, 32), (32, 48)), sigs=((0, 4, 4), (20, 6, 8)), end=48)),
            ("start_of_the_upbeat_bar_taken_out_and_put_back", lambda: rebar_base(((0, 2), (2, 14), (14, 26), (26, 38))), start_of_the_upbeat_bar_taken_out_and_put_back,
             lambda: rebar_base(((0, 2), (2, 14), (14, 26), (26, 38)))),
            ("the_same_signature_entered_twice_inside_a_bar", lambda: rebar_base(((0, 16), (16, 32), (32, 48)), sigs=((0, 4, 4),), end=48), same_signature_entered_twice,
             lambda: rebar_base(((0, 16), (16, 32), (32, 48)), sigs=((0, 4, 4), (24, 6, 8)), end=48))):
        for mus in (False, True):
            case = {"edit_compared_with_a_part_built_in_that_state": ename, "musical_beats": mus}
            def run():
                p, d = base(), direct()
                if mus:
                    p.use_musical_beat()
                    d.use_musical_beat()
                _ = [float(p.beat_map(t)) for t in (0, 5)]
                edit(p)
                return p, d
            ok, res = b.guard("maps/no_exception", case, run)
            if not ok:
                continue
            p, d = res
            bad = None
            okq, vals = b.guard("maps/no_exception", case, lambda: [(float(p.beat_map(t)), float(p.quarter_map(t)), float(p.inv_beat_map(p.beat_map(t))), float(p.inv_quarter_map(p.quarter_map(t)))) for t in range(0, p.last_point.t + 1)])
            if not okq:
                continue
            for t, got in enumerate(vals):
                want = (float(O.beat_pos(d, t, mus)), float(O.quarter_pos(d, t)), float(t), float(t))
                if any(abs(g - w) > 1e-9 for g, w in zip(got, want)):
                    bad = bad or "after the edit (beat, quarter, inverse of beat, inverse of quarter) at t=%d are %r, a part built in that state means %r" % (t, got, want)
            b.case("maps/follow_the_part_as_it_is_now", bad is None, case, bad or "")
    # multi-step beat-mode sequences (user beats -> notated -> default)
    for seq in ([("m", {"5/8": 2}), ("n", None), ("m", {})], [("m", {"3/4": 1}), ("n", None), ("m", {}), ("n", None)], [("s", {"6/8": 3}), ("s", {})]):
        p = sc.Part("P", quarter_duration=2)
        for t, (bts, bt) in zip((0, 10, 22), ((5, 8), (6, 8), (3, 4))):
            p.add(sc.TimeSignature(bts, bt), t)
        p.add(sc.Note("C", 4, voice=1), 0, 34)
        case = {"sequence": [[k, v] for k, v in seq]}
        for k, v in seq:
            if k == "m":
                p.use_musical_beat(v)
            elif k == "n":
                p.use_notated_beat()
            else:
                p.set_musical_beat_per_ts(v)
        last = seq[-1][1] or {}
        want = [_expected(ts, last if seq[-1][0] != "n" else {}) for ts in p.iter_all(sc.TimeSignature)]
        got = [ts.musical_beats for ts in p.iter_all(sc.TimeSignature)]
        b.case("beats/stale_user_values_do_not_survive_a_reset", got == want, case, "musical beats %r, expected %r" % (got, want))
