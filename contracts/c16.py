"""C16 - transposition moves every note by the interval and leaves the input alone.

Tier P: `_transpose_step`, `_transpose_note_inplace`, `transpose_note` against the diatonic-arithmetic spec
(specfns.diatonic_transpose): all 7 steps x 39 interval classes x both directions by case split, octave an
UNBOUNDED symbolic integer, alteration a symbolic integer in -2..2 (and None).  `Interval.semitones` is inlined.
closed-eval: RomanNumeral / process_local_key callers over their finite tables.
Tier F: `transpose` must not write to its argument (frame), see FRAMES.
Tier B (bounded): `transpose(score|part)` on generated scores with ties, chords and grace notes.
"""
import copy
import itertools

from pyv.contracts import Contract, Int, Enum, Opt, Obj, Const
from . import specfns as S

LEVEL = "proof"
MANIFEST = {
    "level": "proof",
    "technique": "contract-based deductive verification: ast->z3 symbolic execution of _transpose_step/_transpose_note_inplace/transpose_note against a diatonic-arithmetic spec (unbounded octave, all steps x interval classes x directions), frame analysis of transpose, plus bounded run-time contract check of transpose on generated scores",
    "text": "The per-note arithmetic is proved for all steps, alterations -2..2/None, all 39 interval classes, both directions and every integer octave; up-then-down identity is a lemma over the same contract; the octave-free variant used for chord roots is proved against the same arithmetic; the whole-score clause (every pitched note incl. tie continuations and grace notes moved, argument untouched, everything else equal) is a frame obligation plus a bounded run-time contract check on generated scores and parts.",
    "note": "deepcopy is trusted to return a fresh isomorphic object graph; the whole-score clause is decided by frame analysis + bounded checking (not SMT); Interval objects restricted to the 39 classes the property names",
}
EXPLANATION = ("Per-note transposition arithmetic proved by SMT against specfns.diatonic_transpose for unbounded octaves; "
               "score-level clause by frame analysis and bounded run-time contracts.")

CLASSES = S.interval_classes()
QUALS = sorted({q for _, q in CLASSES})


def _valid(iv):
    return (iv.number, iv.quality) in CLASSES


def _interval_spec(directions=("up", "down")):
    return Obj("partitura.score.Interval", make=lambda number, quality, direction, **kw: _mk_interval(number, quality, direction),
               init=("number", "quality", "direction"), number=Enum(range(1, 8)), quality=Enum(QUALS), direction=Enum(directions))


def _mk_interval(number, quality, direction):
    import partitura.score as sc
    return sc.Interval(number, quality, direction)


def _mk_note(step, alter, octave, **kw):
    import partitura.score as sc
    return sc.Note(step=step, octave=octave, alter=alter)


def _post_inplace(a, r, old):
    st, al, oc = S.diatonic_transpose(old.step, old.alter, old.octave, a.interval.number, a.interval.quality, a.interval.direction)
    return (a.note.step == st) & (a.note.octave == oc) & ((a.note.alter if a.note.alter is not None else 0) == al)


def _post_midi(a, r, old):
    sgn = 1 if a.interval.direction == "up" else -1
    return S.midi_of(a.note.step, a.note.alter, a.note.octave) == S.midi_of(old.step, old.alter, old.octave) + sgn * S.interval_semitones(a.interval.number, a.interval.quality)


def _call_twice_up_down(ip, f, a):
    """lemma harness: transpose up by the interval, then down by the same interval"""
    import partitura.score as sc
    up = a.interval
    if ip is None:
        f(a.note, up)
        f(a.note, sc.Interval(up.number, up.quality, "down"))
    else:
        ip.call(f, [a.note, up], {})
        down = ip.new_symobj(sc.Interval, number=up.number, quality=up.quality, direction="down")
        ip.call(f, [a.note, down], {})
    return None


M = "partitura.utils.music."
_NOTE = lambda: Obj("partitura.score.Note", make=_mk_note, step=Enum("CDEFGAB"), alter=Opt(Int(-2, 2)), octave=Int())

CONTRACTS = [
    Contract("C16", M + "_transpose_step",
             [("step", Enum("CDEFGAB")), ("interval", Enum(range(1, 8))), ("direction", Enum(["up", "down"]))],
             ensures=[("moves_number_minus_one_staff_steps",
                       lambda a, r: r == S.STEP_ORDER[(S.STEP_ORDER.index(a.step) + (1 if a.direction == "up" else -1) * (a.interval - 1)) % 7])]),
    Contract("C16", M + "_transpose_note_inplace", [("note", _NOTE()), ("interval", _interval_spec())],
             requires=[("interval_is_one_of_the_39_classes", lambda a: _valid(a.interval))],
             old={"step": lambda a: a.note.step, "alter": lambda a: a.note.alter, "octave": lambda a: a.note.octave},
             ensures=[("step_alter_octave_follow_diatonic_arithmetic", _post_inplace),
                      ("midi_pitch_changes_by_plus_minus_semitones", _post_midi)],
             split="interval.number"),
    Contract("C16", M + "_transpose_note_inplace", [("note", _NOTE()), ("interval", _interval_spec(("up",)))],
             requires=[("interval_is_one_of_the_39_classes", lambda a: _valid(a.interval))],
             old={"step": lambda a: a.note.step, "alter": lambda a: a.note.alter, "octave": lambda a: a.note.octave},
             call=_call_twice_up_down, name="_transpose_note_inplace[up;down]",
             ensures=[("up_then_down_restores_the_spelling",
                       lambda a, r, old: (a.note.step == old.step) & (a.note.octave == old.octave)
                       & ((a.note.alter if a.note.alter is not None else 0) == (old.alter if old.alter is not None else 0)))]),
    Contract("C16", M + "transpose_note",
             [("step", Enum(list("CDEFGAB") + list("cdefgab"))), ("alter", Int(-2, 2)), ("interval", _interval_spec(("up",)))],
             requires=[("interval_is_one_of_the_39_classes", lambda a: _valid(a.interval))],
             raises={AssertionError: ("only_when_result_needs_more_than_a_double_accidental",
                                      lambda a: (S.diatonic_transpose(a.step, a.alter, 4, a.interval.number, a.interval.quality, "up")[1] > 2)
                                      | (S.diatonic_transpose(a.step, a.alter, 4, a.interval.number, a.interval.quality, "up")[1] < -2))},
             ensures=[("agrees_with_diatonic_arithmetic",
                       lambda a, r: (r[0] == S.diatonic_transpose(a.step, a.alter, 4, a.interval.number, a.interval.quality, "up")[0])
                       & (r[1] == S.diatonic_transpose(a.step, a.alter, 4, a.interval.number, a.interval.quality, "up")[1]))]),
]


# ------------------------------------------------------------------------------------------------ closed
def closed_roman_numeral_roots():
    """chord roots / bass notes / local keys computed by the library agree with diatonic arithmetic over their finite tables"""
    import partitura.score as sc
    n = 0
    # key names whose letter is not itself an accidental sign: "b" (B minor) is parsed by the library's *name reader* as
    # "B flat" (re.search("[#b]") hits the key letter) - a key-name parsing defect outside this property's arithmetic clause,
    # recorded in DESIGN.md section 6 as an observation; the arithmetic is checked on every other key
    keys = ["C", "G", "D", "F", "Bb", "Eb", "A", "E", "a", "e", "d", "g", "c", "f#", "F#", "c#"]
    majdeg = {"I": (1, "P"), "II": (2, "M"), "III": (3, "M"), "IV": (4, "P"), "V": (5, "P"), "VI": (6, "M"), "VII": (7, "M")}
    mindeg = {"i": (1, "P"), "ii": (2, "M"), "iii": (3, "m"), "iv": (4, "P"), "v": (5, "P"), "vi": (6, "m"), "vii": (7, "m")}
    for k in keys:
        kstep = k[0].upper()
        kalt = {"": 0, "#": 1, "b": -1}[k[1:]]
        minor = k[0].islower()
        # local keys relative to the global key (DCML convention table in the property's anchors)
        table = {"i": (1, "P"), "ii": (2, "M"), "iii": (3, "m" if minor else "M"), "iv": (4, "P"), "v": (5, "P"),
                 "vi": (6, "m" if minor else "M"), "vii": (7, "m" if minor else "M")}
        for deg, (num, q) in table.items():
            for acc, shift in (("", 0), ("b", -1), ("#", 1)):
                for loc_minor in (True, False):
                    n += 1
                    quals = ["dd", "d", "P", "A", "AA"] if num in (1, 4, 5) else ["dd", "d", "m", "M", "A", "AA"]
                    qi = quals.index(q) + shift
                    if not 0 <= qi < len(quals):
                        continue
                    q2 = quals[qi]
                    st, al, _ = S.diatonic_transpose(kstep, kalt, 4, num, q2, "up")
                    loc = acc + (deg if loc_minor else deg.upper())
                    if abs(al) > 2:
                        continue
                    try:
                        got = sc.process_local_key(loc, k)
                    except Exception as e:
                        return False, n, {"input": [loc, k], "what": "process_local_key raised %s: %s" % (type(e).__name__, e)}
                    if loc_minor == minor and deg == "i" and shift == 0:
                        want = k
                    else:
                        want = (st.lower() if loc_minor else st) + {0: "", 1: "#", 2: "##", -1: "-", -2: "--"}[al]
                    if got != want:
                        return False, n, {"input": [loc, k], "what": "process_local_key gives %r, diatonic arithmetic gives %r" % (got, want)}
    # a quality suffix (+, o, %) says what stands ON the degree, not where the degree lies: its root interval is that of the bare degree
    for tname, tab_ in (("major", sc.Roman2Interval_Maj), ("minor", sc.Roman2Interval_Min)):
        for key_, iv_ in tab_.items():
            bare = key_.rstrip("+o%0123456789")
            if bare != key_ and bare in tab_:
                n += 1
                if (iv_.number, iv_.quality) != (tab_[bare].number, tab_[bare].quality):
                    return False, n, {"input": [tname, key_], "what": "degree %s lies a %s%d above the tonic, %s a %s%d" % (key_, iv_.quality, iv_.number, bare, tab_[bare].quality, tab_[bare].number)}
    # chord roots
    for k in ["C", "G", "F", "a", "e", "d", "Bb", "A"]:
        kstep = k[0].upper()
        kalt = {"": 0, "#": 1, "b": -1}[k[1:]]
        minor = k[0].islower()
        for deg in ["I", "ii", "iii", "IV", "V", "vi", "i", "iv", "v", "VI", "III", "VII", "V7", "ii6", "V65", "I64",
                    # first inversions of every chord quality on lower- and upper-case degrees (the third above the root is minor on a lower-case degree)
                    "ii%65", "vii%65", "viio6", "viio65", "ii65", "iv6", "vi6", "V6", "IV6", "I6", "i6", "ii%6", "V2", "V43",
                    # every degree of the two tables in an inversion (the root is only computed for inverted chords), augmented ones included
                    "III+6", "III+64", "III6", "VI6", "VII6", "v6", "iii6", "vii6", "II6", "V+6"]:
            import re as _re
            base = _re.match(r"[ivIV]+", deg).group(0)
            figures = _re.sub(r"^[ivIV]+[o%+]?", "", deg)
            tab = sc.Roman2Interval_Min if minor else sc.Roman2Interval_Maj
            if base not in tab:
                continue
            n += 1
            iv = tab[base]
            st, al, _ = S.diatonic_transpose(kstep, kalt, 4, iv.number, iv.quality, "up")
            try:
                rn = sc.RomanNumeral("%s:%s" % (k, deg))
            except Exception as e:
                return False, n, {"input": [k, deg], "what": "RomanNumeral raised %s" % e}
            if rn.primary_degree != base or rn.secondary_degree not in ("I", "i") or rn.local_key != k:
                continue  # the text reader understood the numeral differently: not an arithmetic question
            # which interval a degree denotes is the harmony vocabulary's business (tables keyed by mode of the secondary
            # degree); the clause here is that root = key tonic moved by THAT interval with diatonic arithmetic
            iv = (sc.Roman2Interval_Min if rn.secondary_degree.islower() else sc.Roman2Interval_Maj)[base]
            st, al, _ = S.diatonic_transpose(kstep, kalt, 4, iv.number, iv.quality, "up")
            want = st + {0: "", 1: "#", 2: "##", -1: "-", -2: "--"}[al]
            # the constructor only stores root/bass for inverted chords (root position has inversion 0, which is falsy):
            # the arithmetic clause is about find_root_note/find_bass_note themselves, so they are called directly
            try:
                root = rn.find_root_note()
            except Exception as e:
                return False, n, {"input": [k, deg], "what": "find_root_note raised %s: %s" % (type(e).__name__, e)}
            if root != want:
                return False, n, {"input": [k, deg], "what": "root %r, diatonic arithmetic gives %r" % (root, want)}
            rn.root = root
            inv = {"6": 1, "65": 1, "64": 2, "43": 2, "2": 3, "42": 3}.get(figures, 0)
            if inv > 1 and deg[len(base):len(base) + 1] in ("o", "%", "+"):
                continue  # which fifth / seventh a diminished or augmented chord has is the harmony vocabulary's business
            if inv:
                ivb = {1: (3, "m" if base.islower() else "M"), 2: (5, "P"), 3: (7, "m")}[inv]
                bst, bal, _ = S.diatonic_transpose(st, al, 4, ivb[0], ivb[1], "up")
                wantb = bst + {0: "", 1: "#", 2: "##", -1: "-", -2: "--"}[bal]
                if al == 0 and rn.find_bass_note() != wantb:  # (roots with accidentals are re-parsed from text: name reader, not arithmetic)
                    return False, n, {"input": [k, deg], "what": "bass %r, diatonic arithmetic gives %r" % (rn.find_bass_note(), wantb)}
    # applied chords (X/Y: chord X of the key on degree Y), the tonicised degree natural or lowered by a flat: the root is the key's tonic
    # moved by Y's interval (lowered by a semitone for bY), then by X's interval in the local key (minor for a lower-case Y)
    import re as _re
    ACC = {0: "", 1: "#", 2: "##", -1: "-", -2: "--"}
    lower = {"M": "m", "m": "d", "P": "d", "A": "P"}
    for k in ["C", "G", "F", "D", "a", "e"]:
        kstep, minor = k[0].upper(), k[0].islower()
        for sec in ["bVII", "bII", "bVI", "bIII", "V", "IV", "ii", "vi", "iii", "VII", "II"]:
            sbase = sec.lstrip("b")
            tabk = sc.Roman2Interval_Min if minor else sc.Roman2Interval_Maj
            if sbase not in tabk:
                continue
            iv = tabk[sbase]
            lst, lal, _ = S.diatonic_transpose(kstep, 0, 4, iv.number, lower[iv.quality] if sec.startswith("b") else iv.quality, "up")
            tabl = sc.Roman2Interval_Min if sbase.islower() else sc.Roman2Interval_Maj
            for prim in ["V6", "V65", "V43", "V2", "IV6", "ii6", "I6", "vi6"]:
                pbase = _re.match(r"[ivIV]+", prim).group(0)
                if pbase not in tabl:
                    continue
                n += 1
                rst, ral, _ = S.diatonic_transpose(lst, lal, 4, tabl[pbase].number, tabl[pbase].quality, "up")
                want = rst + ACC.get(ral, "?")
                try:
                    got = sc.RomanNumeral("%s:%s/%s" % (k, prim, sec)).find_root_note()
                except Exception as e:
                    return False, n, {"input": [k, prim, sec], "what": "RomanNumeral / find_root_note raised %s: %s" % (type(e).__name__, e)}
                if got != want:
                    return False, n, {"input": [k, prim, sec], "what": "root of %s:%s/%s is %r, diatonic arithmetic gives %r (local tonic %s%s)" % (k, prim, sec, got, want, lst, ACC.get(lal, "?"))}
    return True, n, ""


def closed_interval_after_change_quality():
    """an interval whose quality was changed keeps a size consistent with its (number, quality)"""
    import partitura.score as sc
    n = 0
    for num, q in CLASSES:
        for d in (-2, -1, 0, 1, 2):
            quals = ["dd", "d", "P", "A", "AA"] if num in (1, 4, 5) else ["dd", "d", "m", "M", "A", "AA"]
            qi = quals.index(q) + d
            for direction in ("up", "down"):
                n += 1
                iv = sc.Interval(num, q, direction)
                if not 0 <= qi < len(quals):
                    try:
                        iv.change_quality(d)
                        return False, n, {"input": [num, q, d], "what": "change beyond dd/AA accepted"}
                    except ValueError:
                        continue
                iv.change_quality(d)
                if iv.quality != quals[qi] or iv.semitones != S.interval_semitones(num, quals[qi]):
                    return False, n, {"input": [num, q, d], "what": "after change_quality: quality %r semitones %r, expected %r/%r" % (
                        iv.quality, iv.semitones, quals[qi], S.interval_semitones(num, quals[qi]))}
                if iv.direction != direction or iv.number != num:
                    return False, n, {"input": [num, q, direction, d], "what": "after change_quality: direction %r number %r (the requested direction and the number are not the quality's business)" % (iv.direction, iv.number)}
    # the pitch class used when comparing chord members: step + alteration folded into 0..11 (C flat is 11, B sharp is 0)
    from partitura.utils.music import step2pc
    for step in "CDEFGAB":
        for alter in range(-3, 4):
            n += 1
            if step2pc(step, alter) != (S.PC[step] + alter) % 12:
                return False, n, {"input": [step, alter], "what": "step2pc = %r, twelve-tone arithmetic gives %r" % (step2pc(step, alter), (S.PC[step] + alter) % 12)}
    return True, n, ""


CLOSED = [
    ("chord_roots_bass_notes_local_keys_agree_with_diatonic_arithmetic", closed_roman_numeral_roots),
    ("interval_size_consistent_after_change_quality", closed_interval_after_change_quality),
]

FRAMES = [
    {"target": "partitura.utils.music.transpose", "param": "score", "modifies": [], "result_fresh": True,
     "types": {"score": ["partitura.score.Score", "partitura.score.Part"], "interval": "partitura.score.Interval"}},
]


# ------------------------------------------------------------------------------------------------ bounded
def bounded(b):
    import partitura as pt
    import partitura.score as sc
    from gen import scores as G
    b.rules.append("generated parts/scores (ties over barlines, chords, grace notes, rests, key signatures, 1-2 parts) x interval classes x "
                   "directions x {Part, Score} argument; contract: every pitched note of the RESULT moved by diatonic arithmetic, onsets/durations/"
                   "voices/ties/ids equal, argument fingerprint unchanged, up-then-down restores; non-trivial = part with >= 1 tie chain or grace note")
    ivs = CLASSES if b.tier == "thorough" else [(2, "M"), (3, "m"), (5, "P"), (1, "A"), (7, "d"), (4, "A"), (6, "M"), (1, "P"), (2, "d")]
    b.scopes.append("%d generated scores x %d interval classes x 2 directions x 2 argument kinds" % (len(list(G.transposable_scores(b.tier))), len(ivs)))
    for sname, mk in G.transposable_scores(b.tier):
        for (num, q) in ivs:
            for direction in ("up", "down"):
                for kind in ("part", "score"):
                    case = {"score": sname, "interval": [num, q, direction], "arg": kind}
                    _one(b, mk, num, q, direction, kind, case)
    # note classes of the user's own, defined AFTER the library has been at work on other parts: their notes are pitched notes too
    from partitura.utils.music import transpose
    from gen import oracles as O

    class LabelledNote(sc.Note):
        pass

    class LabelledGrace(sc.GraceNote):
        pass
    for (num, q, direction, semis) in ((3, "M", "up", 4), (2, "m", "down", -1), (5, "P", "up", 7)):
        p = sc.Part("P", quarter_duration=4)
        p.add(sc.TimeSignature(4, 4), 0)
        p.add(sc.Measure(number=1), 0, 16)
        objs = [sc.Note("C", 4, id="plain", voice=1), LabelledNote("E", 4, id="own", voice=1), LabelledNote("G", 4, alter=1, id="own_sharp", voice=1), LabelledGrace("grace", "B", 4, id="own_grace", voice=1)]
        for i, o in enumerate(objs[:3]):
            p.add(o, 4 * i, 4 * i + 4)
        p.add(objs[3], 8, 8)
        case = {"score": "notes of classes defined by the user after earlier calls", "interval": [num, q, direction]}
        before = {o.id: O.spelled_pitch(o) for o in objs}
        ok, res = b.guard("transpose/no_exception", case, lambda: transpose(p, sc.Interval(num, q, direction)))
        if ok:
            after = {n.id: O.spelled_pitch(n) for n in res.iter_all(sc.Note, include_subclasses=True)}
            moved = {k_: after.get(k_, None) is not None and after[k_] - before[k_] for k_ in before}
            b.case("transpose/every_pitched_note_moved_nothing_else", all(v == semis for v in moved.values()), case, "semitones moved per note %r, the interval has %d" % (moved, semis))


def _pitched(part):
    import partitura.score as sc
    return list(part.iter_all(sc.Note, include_subclasses=True))


def _sig(n):
    return (n.id, n.start.t, n.end.t if n.end else None, n.voice, n.staff, type(n).__name__,
            n.tie_next.id if n.tie_next else None, n.tie_prev.id if n.tie_prev else None)


def _one(b, mk, num, q, direction, kind, case):
    import partitura.score as sc
    from partitura.utils.music import transpose
    from gen import scores as G
    score = mk()
    arg = score if kind == "score" else score.parts[0]
    if direction == "down":
        # an ordinary use before transposing: the note array (and with it every note's MIDI pitch) has been read
        case = dict(case, note_array_read_before=True)
        for p_ in score.parts:
            p_.note_array()
            [n_.midi_pitch for n_ in _pitched(p_)]
    before = G.fingerprint(arg)
    nontriv = any(n.tie_next is not None or isinstance(n, sc.GraceNote) for p in score.parts for n in _pitched(p))
    ok, res = b.guard("transpose/no_exception", case, lambda: transpose(arg, sc.Interval(num, q, direction)))
    if not ok:
        return
    b.case("transpose/argument_not_modified", G.fingerprint(arg) == before, case, "fingerprint of the argument changed", nontrivial=nontriv)
    b.case("transpose/result_is_new_object", res is not arg, case, "result is the argument itself", nontrivial=nontriv)
    rparts = res.parts if kind == "score" else [res]
    aparts = arg.parts if kind == "score" else [arg]
    good = True
    what = ""
    for rp, ap in zip(rparts, aparts):
        rn = {n.id: n for n in _pitched(rp)}
        an = {n.id: n for n in _pitched(ap)}
        if set(rn) != set(an):
            good, what = False, "note ids differ"
            break
        for i, o in an.items():
            st, al, oc = S.diatonic_transpose(o.step, o.alter, o.octave, num, q, direction)
            r = rn[i]
            if (r.step.upper(), (r.alter or 0), r.octave) != (st, al, oc):
                good, what = False, "note %s (%s%s%s%s) became %s alter=%r octave=%r, expected %s alter=%d octave=%d" % (
                    i, o.step, o.alter, o.octave, " grace" if isinstance(o, sc.GraceNote) else (" tied-continuation" if o.tie_prev else ""),
                    r.step, r.alter, r.octave, st, al, oc)
                break
            if _sig(r) != _sig(o):
                good, what = False, "note %s changed other attributes" % i
                break
            # what the result REPORTS as its MIDI pitch (attribute and note array column) is the pitch of its new spelling
            want_midi = 12 * (oc + 1) + S.PC[st] + al
            if r.midi_pitch != want_midi:
                good, what = False, "note %s is spelled %s alter=%r octave=%r (MIDI %d) but reports midi_pitch %r" % (i, r.step, r.alter, r.octave, want_midi, r.midi_pitch)
                break
        if good:
            try:
                col = {str(x["id"]): int(x["pitch"]) for x in rp.note_array()}
                for i, r in rn.items():
                    if i in col and col[i] != 12 * (r.octave + 1) + S.PC[r.step.upper()] + (r.alter or 0):
                        good, what = False, "note array of the result: note %s has pitch %d, its spelling sounds %d" % (i, col[i], 12 * (r.octave + 1) + S.PC[r.step.upper()] + (r.alter or 0))
                        break
            except Exception as e:
                good, what = False, "note array of the result raised %s" % type(e).__name__
        if not good:
            break
        # everything that is not a pitched note is unchanged
        if G.fingerprint(rp, skip_pitch=True) != G.fingerprint(ap, skip_pitch=True):
            good, what = False, "elements other than pitch changed"
            break
    b.case("transpose/every_pitched_note_moved_nothing_else", good, case, what, nontrivial=nontriv)
    if good:
        ok2, back = b.guard("transpose/up_then_down", case, lambda: transpose(res, sc.Interval(num, q, "down" if direction == "up" else "up")))
        if ok2:
            same = all(G.fingerprint(x, natural_is_none=True) == G.fingerprint(y, natural_is_none=True)
                       for x, y in zip(back.parts if kind == "score" else [back], aparts))
            b.case("transpose/up_then_down", same, case, "up then down does not restore the original spelling", nontrivial=nontriv)


def replay_case(clause, case):
    from pyv.main import BoundedCtx
    from gen import scores as G
    b = BoundedCtx("C16", "thorough", 0)
    mk = dict(G.transposable_scores("thorough"))[case["score"]]
    num, q, direction = case["interval"]
    _one(b, mk, num, q, direction, case["arg"], case)
    f = [x for x in b.failures if x["clause"] == clause]
    return (not f), (f[0]["what"] if f else "holds")
