"""C14 - performed notes sound until release or later, exactly as the pedal dictates.

Tier P: PerformedNote.__init__ / __setitem__ validation (symbolic pitch, velocity, times) ; the per-note tick/second
        arithmetic used by PerformedPart.note_array is C12's seconds_to_midi_ticks contract.
Tier B: adjust_offsets_w_sustain against an independent reference pedal model on an exhaustive small scope of note
        lists x control streams x thresholds; threshold monotonicity, setter recomputation, note-array round trip,
        track renumbering (bounded: the pedal table is a vstack/diff/where/searchsorted chain outside the SMT subset).
"""
import itertools

import numpy as np

from pyv.contracts import Contract, Int, Real, Enum, Opt, Spec, NS
from pyv.sym import sor, sand

LEVEL = "other"
MANIFEST = {
    "level": "other",
    "technique": "contract-based: SMT contracts on PerformedNote validation (real source, symbolic values); bounded exhaustive run-time contract check of adjust_offsets_w_sustain / PerformedPart against a reference pedal model",
    "text": "Field validation of performed notes (construction and item assignment) is proved for all integer pitches/velocities and real times: rejected exactly when a value is out of range or an end precedes its start. The sounding-end clause is a run-time contract evaluated against an independent 20-line pedal model on every note list of <= 3 notes over a time/pitch grid (repeated, overlapping, zero-length, unsorted, across channels) x every control stream of <= 3 events (pedal values 0,63,64,65,127; other controllers interleaved; before/after the notes) x thresholds {0,63,64,126,127} (exhaustive in that scope, bounded), plus threshold monotonicity, recomputation on assignment, note-array agreement and round trip, and track renumbering.",
    "note": "floats as exact reals in the validation proofs; exact coincidences (pedal event exactly at the release; re-strike exactly at the release) accepted either way and counted as ties; when the pedal never comes up again the library's end-of-data convention (one second after the last event/release) is accepted",
}
EXPLANATION = "Validation proved by SMT; pedal semantics bounded-exhaustively checked against a reference model on the real functions."


class NoteDict(Spec):
    def __init__(self, with_sound_off=True):
        self.with_sound_off = with_sound_off

    def sym(self, name, ip):
        d = {"id": "n0", "midi_pitch": Int().sym(name + ".pitch", ip), "note_on": Real().sym(name + ".on", ip),
             "note_off": Real().sym(name + ".off", ip), "velocity": Int().sym(name + ".vel", ip), "track": 0, "channel": 1}
        if self.with_sound_off:
            k = ip.eng.choose([None, None], name + ".has_sound_off", labels=[True, False])
            if k == 0:
                d["sound_off"] = Real().sym(name + ".sound", ip)
        return d

    def describe(self):
        return "performed-note dict with symbolic pitch, velocity (int) and times (real)"


def _invalid(d):
    so = d.get("sound_off", d["note_off"])
    return sor(d["midi_pitch"] < 0, d["midi_pitch"] > 127, d["velocity"] < 0, d["velocity"] > 127, d["note_on"] < 0,
               d["note_off"] < d["note_on"], so < d["note_off"])


def _call_init(ip, f, a):
    import partitura.performance as pf
    if ip is None:
        return pf.PerformedNote(dict(a.d))
    return ip.instantiate(pf.PerformedNote, [dict(a.d)], {})


def _valid_note(ip):
    import partitura.performance as pf
    return pf.PerformedNote(dict(id="n", midi_pitch=60, note_on=1.0, note_off=2.0, sound_off=3.0, velocity=64))


def _call_setitem(ip, f, a):
    n = _valid_note(ip)
    if ip is None:
        n[a.key] = a.value
        return n
    ip.symobjs[id(n)] = n
    ip.call(f, [n, a.key, a.value], {})
    return n


def _set_invalid(a):
    k, v = a.key, a.value
    if k == "pitch" or k == "velocity":
        return sor(v < 0, v > 127)
    if k == "note_on":
        return v < 0
    if k == "note_off":
        return sor(v < 0, v < 1.0)
    if k == "sound_off":
        return sor(v < 0, v < 2.0)
    if k in ("note_on_tick",):
        return v < 0
    return False


CONTRACTS = [
    Contract("C14", "partitura.performance.PerformedNote.__init__", [("d", NoteDict())], call=_call_init, float_mode="real",
             raises={ValueError: ("rejected_exactly_when_a_field_is_out_of_range_or_an_end_precedes_its_start", lambda a: _invalid(a.d))},
             ensures=[("fields_stored_and_sound_off_defaults_to_release",
                       lambda a, r: sand(r["pitch"] == a.d["midi_pitch"], r["note_on"] == a.d["note_on"], r["note_off"] == a.d["note_off"],
                                         r["velocity"] == a.d["velocity"], r["sound_off"] == a.d.get("sound_off", a.d["note_off"])))]),
    Contract("C14", "partitura.performance.PerformedNote.__setitem__",
             [("key", Enum(["pitch", "velocity", "note_on", "note_off", "sound_off", "note_on_tick", "id", "track", "channel", "bogus", "midi_pitch"])),
              ("value", Real())], call=_call_setitem, float_mode="real",
             raises={ValueError: ("invalid_values_rejected", _set_invalid),
                     KeyError: ("unknown_keys_rejected", lambda a: a.key in ("bogus", "midi_pitch"))},
             ensures=[("value_stored", lambda a, r: r[a.key] == a.value)]),
]


# ------------------------------------------------------------------------------------------------ reference pedal model
def ref_sound_off(notes, controls, threshold):
    """-> list of (set of acceptable sounding ends) per note.  notes: (pitch, on, off); controls: (number, time, value)"""
    ped = sorted([(t, v) for (num, t, v) in controls if num == 64], key=lambda x: x[0])
    out = []
    last_off = max(o for (_, _, o) in notes)
    for i, (p, on, off) in enumerate(notes):
        acc = set()
        if not ped or threshold >= 127:
            out.append({off})
            continue
        # pedal state at the release: last event strictly before / at or before (coincidence = tie)
        def state(at, inclusive):
            v = 0
            for (t, val) in ped:
                if t < at or (inclusive and t == at):
                    v = val
            return v
        for inclusive in (False, True):
            if state(off, inclusive) <= threshold:
                acc.add(off)
            else:
                # first later moment the pedal is at or below the threshold
                ups = [t for (t, val) in ped if t > off and val <= threshold]
                if inclusive is False:
                    ups = [t for (t, val) in ped if t >= off and val <= threshold] or ups
                end_conv = max(ped[-1][0] + 1, last_off + 1)
                cand = min(ups) if ups else end_conv
                # ... or the same pitch is struck again (after the release; exactly at the release = tie)
                for strict in (False, True):
                    re = [o2 for j, (p2, o2, _) in enumerate(notes) if j != i and p2 == p and (o2 > off or (not strict and o2 == off and o2 >= on))]
                    re = [x for x in re if x >= on]
                    acc.add(min([cand] + re))
        out.append(acc)
    return out


def _mk_part(notes, controls, threshold=64, channels=None):
    import partitura.performance as pf
    nl = [dict(id="n%d" % i, midi_pitch=p, note_on=float(on), note_off=float(off), velocity=60 + i, track=0, channel=(channels[i] if channels else 1))
          for i, (p, on, off) in enumerate(notes)]
    cl = [dict(number=num, time=float(t), value=v, track=0, channel=0) for (num, t, v) in controls]
    return pf.PerformedPart(nl, id="P", controls=cl, sustain_pedal_threshold=threshold)


def _note_universe():
    times = [(0, 1), (0, 2), (1, 1), (1, 3), (2, 4), (3, 3), (0.5, 2.5)]
    return [(p, on, off) for p in (60, 64) for (on, off) in times]


def _control_universe():
    evs = []
    for t in (-1, 0.5, 1, 2, 2.5, 5):
        for v in (0, 64, 65, 127):
            evs.append((64, t, v))
    evs += [(67, 1.5, 127), (64, 3, 63)]
    return evs


def bounded(b):
    import random
    import partitura.performance as pf
    rng = random.Random(b.seed)
    NU, CU = _note_universe(), _control_universe()
    thresholds = (0, 63, 64, 126, 127)
    note_lists = [list(x) for k in (1, 2) for x in itertools.product(NU, repeat=k)]
    if b.tier == "thorough":
        note_lists += [list(x) for x in rng.sample(list(itertools.product(NU, repeat=3)), 600)]
    else:
        note_lists = rng.sample(note_lists, 70) + [[(60, 0, 2), (60, 1, 3)], [(60, 0, 3), (60, 1, 2), (60, 4, 5)], [(60, 1, 1), (60, 1, 2)], [(64, 2, 4), (60, 0, 1)]]
    ctl_lists = [[]] + [[c] for c in CU] + [list(x) for x in itertools.combinations(CU, 2)]
    if b.tier != "thorough":
        ctl_lists = [[]] + rng.sample(ctl_lists[1:], 22) + [[(64, 0.5, 127)], [(64, 0.5, 127), (64, 2.5, 0)], [(64, -1, 65), (67, 1.5, 127), (64, 5, 64)]]
    else:
        ctl_lists += [list(x) for x in rng.sample(list(itertools.combinations(CU, 3)), 300)]
    b.rules.append("note lists of 1..3 notes over pitches {60,64} x 7 (on,off) spans (repeated/overlapping equal pitches, zero-length, unsorted) "
                   "x control streams of 0..3 events (CC64 values 0/64/65/127 at 6 times incl. before the first and after the last note, a soft-pedal "
                   "event interleaved) x thresholds {0,63,64,126,127}; %d note lists x %d streams; contract: never raises, sound_off >= note_off, "
                   "sound_off in the reference model's set, raising the threshold never lengthens, setter recomputes; non-trivial = stream with a "
                   "CC64 event and a note released while the pedal is down" % (len(note_lists), len(ctl_lists)))
    b.scopes.append("<=3 notes, <=3 control events, 5 thresholds")
    for notes in note_lists:
        for ctl in ctl_lists:
            prev = None
            for th in thresholds:
                case = {"notes": notes, "controls": ctl, "threshold": th}
                ok, part = b.guard("pedal/never_fails_on_valid_notes", case, lambda: _mk_part(notes, ctl, th))
                if not ok:
                    prev = None
                    continue
                got = [n["sound_off"] for n in part.notes]
                want = ref_sound_off(notes, ctl, th)
                nontriv = any(len(w) > 1 or (w and min(w) > off) for w, (_, _, off) in zip(want, notes))
                b.case("pedal/sound_off_not_before_release", all(g >= off for g, (_, _, off) in zip(got, notes)), case, "sound_off %r" % got, nontrivial=nontriv)
                good = all(any(abs(g - w) < 1e-9 for w in ws) for g, ws in zip(got, want))
                b.case("pedal/sound_off_as_the_pedal_dictates", good, case, "sound_off %r, reference model allows %r" % (got, [sorted(w) for w in want]), nontrivial=nontriv)
                if prev is not None:
                    b.case("pedal/raising_threshold_never_lengthens", all(g <= p + 1e-9 for g, p in zip(got, prev)), case, "sound_off %r after %r" % (got, prev), nontrivial=nontriv)
                prev = got
            # setter recomputes every note
            case = {"notes": notes, "controls": ctl, "setter": [64, 0, 127]}
            ok, part = b.guard("pedal/never_fails_on_valid_notes", case, lambda: _mk_part(notes, ctl, 64))
            if ok:
                def reassign():
                    part.sustain_pedal_threshold = 0
                    a = [n["sound_off"] for n in part.notes]
                    part.sustain_pedal_threshold = 127
                    return a, [n["sound_off"] for n in part.notes]
                ok2, r = b.guard("pedal/setter_recomputes", case, reassign)
                if ok2:
                    fresh0 = [n["sound_off"] for n in _mk_part(notes, ctl, 0).notes]
                    b.case("pedal/setter_recomputes", r[0] == fresh0 and r[1] == [float(o) for (_, _, o) in notes], case,
                           "after assignment %r / %r, fresh part %r" % (r[0], r[1], fresh0))
    _no_pedal_events(b)
    _note_array_and_tracks(b, rng)


def _no_pedal_events(b):
    """'equal to the release ... when there are no pedal events' and 'setting it recomputes every note', also for notes that
    arrive with a sounding end of their own and for parts whose controls were removed"""
    import partitura.performance as pf
    for notes in ([(60, 0, 1), (64, 0.5, 2)], [(60, 1, 1)], [(60, 0, 2), (60, 1, 3)]):
        for extra in (0.0, 3.0):
            for ctl in ([], None, [dict(number=67, time=0.1, value=127, track=0, channel=0)]):
                case = {"notes": notes, "carried_sound_off_extra": extra, "controls": "None" if ctl is None else [c["number"] for c in ctl]}
                nl = [dict(id="n%d" % i, midi_pitch=p, note_on=float(on), note_off=float(off), sound_off=float(off) + extra, velocity=64)
                      for i, (p, on, off) in enumerate(notes)]
                ok, part = b.guard("pedal/never_fails_on_valid_notes", case, lambda: pf.PerformedPart(nl, controls=ctl))
                if ok:
                    got = [n["sound_off"] for n in part.notes]
                    b.case("pedal/no_pedal_events_means_release", got == [float(o) for (_, _, o) in notes], case, "sound_off %r without any pedal event" % got)
        # pedalled part whose controls are removed, then the threshold is assigned
        case = {"notes": notes, "then": "controls removed; threshold assigned"}
        ok, part = b.guard("pedal/never_fails_on_valid_notes", case, lambda: _mk_part(notes, [(64, 0.2, 127), (64, 9, 0)], 64))
        if ok:
            part.controls = []
            ok2, _ = b.guard("pedal/setter_recomputes", case, lambda: setattr(part, "sustain_pedal_threshold", 64))
            if ok2:
                got = [n["sound_off"] for n in part.notes]
                b.case("pedal/setter_recomputes", got == [float(o) for (_, _, o) in notes], case, "after removing all controls and assigning the threshold sound_off is %r" % got)


def _note_array_and_tracks(b, rng):
    import partitura.performance as pf
    from fractions import Fraction
    def ticks(t, ppq, mpq):
        """the exact nearest tick (both neighbours when the time lies half-way up to float rounding)"""
        x = Fraction(10**6 * int(ppq)) * Fraction(float(t)) / int(mpq)
        lo = x.numerator // x.denominator
        if abs(x - lo - Fraction(1, 2)) < Fraction(1, 10**5):
            return {lo, lo + 1}
        return {lo + 1} if x - lo > Fraction(1, 2) else {lo}
    for (ppq, mpq) in ((480, 500000), (96, 600000), (960, 250000), (480, 461538), (480, 700000), (384, 333333)):
        for notes, ctl in (([(60, 0, 1), (64, 0.5, 2.5), (60, 2, 4)], []), ([(60, 0, 1), (64, 0.5, 2.5), (60, 2, 4)], [(64, 0.5, 127), (64, 5, 0)]),
                           ([(72, 0.013, 0.5), (30, 1.0004, 1.0004)], [(64, 0.2, 100)]), ([(60, 0.0, 0.0), (61, 1.25, 1.25), (62, 2.0, 2.0001)], []), ([(60, 1.3, 2.9), (62, 601.125, 602.5), (64, 3599.77, 3600.01)], [])):
            case = {"notes": notes, "controls": ctl, "ppq": ppq, "mpq": mpq}
            ok, part = b.guard("pedal/never_fails_on_valid_notes", case, lambda: _mk_part(notes, ctl))
            if not ok:
                continue
            part.ppq, part.mpq = ppq, mpq
            ok, na = b.guard("note_array/no_exception", case, lambda: part.note_array())
            if not ok:
                continue
            good, what = True, ""
            for row, n in zip(na, part.notes):
                on_t = round(Fraction(10**6 * ppq) * Fraction(n["note_on"]) / mpq)
                if abs(row["onset_sec"] - n["note_on"]) > 1e-5 * (1 + abs(n["note_on"])) or int(row["onset_tick"]) not in ticks(n["note_on"], ppq, mpq):
                    good, what = False, "onset %r s is tick %r, the nearest tick under ppq/mpq is %r" % (n["note_on"], int(row["onset_tick"]), sorted(ticks(n["note_on"], ppq, mpq)))
                if abs(row["duration_sec"] - (n["sound_off"] - n["note_on"])) > 1e-5 * (1 + abs(n["sound_off"])):
                    good, what = False, "duration_sec is not up to the sounding end"
                if n["sound_off"] == n["note_off"]:
                    allowed = {y - x for y in ticks(n["note_off"], ppq, mpq) for x in ticks(n["note_on"], ppq, mpq)}
                    if int(row["duration_tick"]) not in allowed:
                        good, what = False, "note %r..%r s: duration_tick %r, release tick minus onset tick is %r (no pedal extends the note)" % (n["note_on"], n["note_off"], int(row["duration_tick"]), sorted(allowed))
                if (row["pitch"], row["velocity"]) != (n["midi_pitch"], n["velocity"]):
                    good, what = False, "pitch/velocity"
            b.case("note_array/seconds_ticks_agree_and_durations_to_sounding_end", good, case, what)
            ok, back = b.guard("note_array/from_note_array", case, lambda: pf.PerformedPart.from_note_array(na))
            if ok:
                # the rebuilt part has its own clock (ppq/mpq): ITS note array agrees with itself under that clock
                ok3, na2 = b.guard("note_array/no_exception", dict(case, of="the rebuilt part"), lambda: back.note_array())
                if ok3:
                    bad = None
                    for row, n in zip(na2, back.notes):
                        if int(row["onset_tick"]) not in ticks(n["note_on"], back.ppq, back.mpq):
                            bad = bad or "rebuilt part (ppq %r, mpq %r): onset %r s is reported as tick %r, the nearest tick under its clock is %r" % (
                                back.ppq, back.mpq, n["note_on"], int(row["onset_tick"]), sorted(ticks(n["note_on"], back.ppq, back.mpq)))
                        if n["sound_off"] == n["note_off"]:
                            allowed = {y - x for y in ticks(n["note_off"], back.ppq, back.mpq) for x in ticks(n["note_on"], back.ppq, back.mpq)}
                            if int(row["duration_tick"]) not in allowed:
                                bad = bad or "rebuilt part: duration_tick %r of %r..%r s, under its clock %r" % (int(row["duration_tick"]), n["note_on"], n["note_off"], sorted(allowed))
                    b.case("note_array/seconds_ticks_agree_and_durations_to_sounding_end", bad is None, dict(case, of="the part rebuilt from the note array"), bad or "")
                same = all(m["midi_pitch"] == n["midi_pitch"] and m["velocity"] == n["velocity"] and abs(m["note_on"] - n["note_on"]) < 1e-5 * (1 + abs(n["note_on"]))
                           and abs(m["sound_off"] - n["sound_off"]) < 1e-5 * (1 + abs(n["sound_off"])) for m, n in zip(back.notes, part.notes)) and len(back.notes) == len(part.notes)
                b.case("note_array/rebuilt_part_same_pitches_velocities_onsets_sounding_ends", same, case, "round trip through the note array differs")
    # a part whose leading silence is cut away (first_note_at_zero): afterwards its notes still sound as ITS pedal stream dictates, and
    # setting the threshold again changes nothing
    from partitura.utils.music import remove_silence_from_performed_part
    for pname, notes, ctl in (("pedal_pressed_in_the_silence_and_moved_later", [(60, 1.0, 1.5), (64, 1.5, 2.25), (67, 3.0, 3.5)], [(64, 0.2, 127), (64, 2.0, 0), (64, 2.75, 100), (64, 4.0, 0)]),
                              ("pedal_pressed_and_lifted_in_the_silence", [(60, 1.0, 1.5), (64, 1.5, 2.25)], [(64, 0.2, 127), (64, 0.6, 0), (64, 2.0, 90), (64, 3.0, 0)]),
                              ("soft_pedal_in_the_silence_sustain_later", [(60, 0.5, 1.0), (62, 1.0, 2.5)], [(67, 0.1, 80), (64, 0.75, 127), (64, 2.0, 0)])):
        for thr in (64, 20, 110):
            case = {"leading_silence_removed": pname, "threshold": thr}
            def run():
                pp_ = _mk_part(notes, ctl, thr)
                remove_silence_from_performed_part(pp_)
                return pp_
            ok, pp_ = b.guard("pedal/never_fails_on_valid_notes", case, run)
            if not ok:
                continue
            n2 = [(n["midi_pitch"], float(n["note_on"]), float(n["note_off"])) for n in pp_.notes]
            c2 = [(c["number"], float(c["time"]), c["value"]) for c in pp_.controls]
            got = [float(n["sound_off"]) for n in pp_.notes]
            want = ref_sound_off(n2, c2, thr)
            good = abs(min(x[1] for x in n2)) < 1e-9 and all(any(abs(g - w) < 1e-6 for w in ws) for g, ws in zip(got, want))
            b.case("pedal/sounding_end_follows_the_parts_own_pedal_stream", good, case, "after the silence was removed: notes %r, pedal stream %r, sounding ends %r, the stream dictates %r" % (n2, c2, got, [sorted(w) for w in want]))
            pp_.sustain_pedal_threshold = thr
            again = [float(n["sound_off"]) for n in pp_.notes]
            b.case("pedal/setter_recomputes", all(abs(a_ - g_) < 1e-6 for a_, g_ in zip(again, got)), case, "setting the same threshold again changed the sounding ends from %r to %r" % (got, again))
    # notes handed in as other mapping types that ARE dicts (ordered, with defaults, a user's subclass) build the same part as plain dicts
    import collections

    class _Row(dict):
        pass
    plain = [dict(id="n%d" % i, midi_pitch=60 + i, note_on=0.5 * i, note_off=0.5 * i + 0.4, velocity=50 + i, track=0, channel=1) for i in range(3)]
    for tname, conv in (("OrderedDict", lambda d: collections.OrderedDict(d)), ("defaultdict", lambda d: collections.defaultdict(int, d)), ("dict_subclass", lambda d: _Row(d))):
        case = {"notes_given_as": tname}
        ok, part = b.guard("pedal/never_fails_on_valid_notes", case, lambda: pf.PerformedPart([conv(d) for d in plain], id="P", controls=[dict(number=64, time=0.6, value=100, track=0, channel=0), dict(number=64, time=3.0, value=0, track=0, channel=0)]))
        if ok:
            ref = pf.PerformedPart([dict(d) for d in plain], id="P", controls=[dict(number=64, time=0.6, value=100, track=0, channel=0), dict(number=64, time=3.0, value=0, track=0, channel=0)])
            same = [(n["midi_pitch"], n["note_on"], n["note_off"], n["sound_off"], n["velocity"]) for n in part.notes] == [(n["midi_pitch"], n["note_on"], n["note_off"], n["sound_off"], n["velocity"]) for n in ref.notes]
            b.case("note_array/rebuilt_part_same_pitches_velocities_onsets_sounding_ends", same, case, "a part built from %s notes differs from the part built from plain dicts" % tname)
    # a MIDI file without a tempo event, read with a tempo of the caller's choice: seconds and ticks of the note array agree under the
    # clock (ppq, mpq) the part reports
    import io as _io
    import mido
    from partitura.io.importmidi import load_performance_midi
    for bpm in (120, 100, 60, 90.5):
        for fppq in (480, 96):
            mf = mido.MidiFile(type=1, ticks_per_beat=fppq)
            tr = mido.MidiTrack()
            mf.tracks.append(tr)
            for msg in (mido.Message("note_on", note=60, velocity=70, time=0), mido.Message("note_off", note=60, velocity=0, time=fppq), mido.Message("note_on", note=64, velocity=71, time=fppq // 2),
                        mido.Message("note_off", note=64, velocity=0, time=3 * fppq), mido.Message("note_on", note=67, velocity=72, time=7), mido.Message("note_off", note=67, velocity=0, time=fppq + 1)):
                tr.append(msg)
            buf = _io.BytesIO()
            mf.save(file=buf)
            buf.seek(0)
            case = {"midi_file_without_tempo_event": True, "default_bpm": bpm, "ppq": fppq}
            ok, perf = b.guard("note_array/no_exception", case, lambda: load_performance_midi(mido.MidiFile(file=buf), default_bpm=bpm))
            if not ok:
                continue
            bad = None
            file_ticks = [(0, fppq), (fppq + fppq // 2, 3 * fppq), (4 * fppq + fppq // 2 + 7, fppq + 1)]
            for pp in perf.performedparts:
                okn, na = b.guard("note_array/no_exception", case, lambda: pp.note_array())
                if not okn:
                    continue
                for row, n, (ft, fd) in zip(na, pp.notes, file_ticks):
                    if int(row["onset_tick"]) not in ticks(n["note_on"], pp.ppq, pp.mpq):
                        bad = bad or "part clock (ppq %r, mpq %r): onset %r s reported as tick %r, under that clock it is %r" % (pp.ppq, pp.mpq, n["note_on"], int(row["onset_tick"]), sorted(ticks(n["note_on"], pp.ppq, pp.mpq)))
                    # the seconds are the file's ticks at the tempo asked for
                    want_s = float(Fraction(ft * 60) / (Fraction(bpm) * fppq))
                    if abs(float(row["onset_sec"]) - want_s) > 1e-4 * (1 + want_s):
                        bad = bad or "tick %d at %s bpm and %d ticks per quarter is %.5f s, the note array says %.5f s" % (ft, bpm, fppq, want_s, float(row["onset_sec"]))
                    if int(row["onset_tick"]) != ft or int(row["duration_tick"]) != fd:
                        bad = bad or "the note written at tick %d for %d ticks is reported at tick %d for %d ticks" % (ft, fd, int(row["onset_tick"]), int(row["duration_tick"]))
            b.case("note_array/seconds_ticks_agree_and_durations_to_sounding_end", bad is None, case, bad or "")
    # a MIDI file WITH a tempo map (slow, then four times faster) and a pedal: every loaded note sounds until its release or later, as the
    # loaded part's own pedal stream dictates, and its duration in seconds reaches its sounding end
    for tempi in (((0, 1000000), (960, 250000)), ((0, 300000),), ((0, 500000), (480, 750000), (1440, 400000))):
        mf = mido.MidiFile(type=1, ticks_per_beat=480)
        t0, t1 = mido.MidiTrack(), mido.MidiTrack()
        cur = 0
        for tk, mpq_ in tempi:
            t0.append(mido.MetaMessage("set_tempo", tempo=mpq_, time=tk - cur))
            cur = tk
        for msg in (mido.Message("note_on", note=60, velocity=70, time=0), mido.Message("control_change", control=64, value=100, time=240), mido.Message("note_off", note=60, velocity=0, time=240),
                    mido.Message("note_on", note=64, velocity=71, time=0), mido.Message("control_change", control=64, value=0, time=480), mido.Message("note_off", note=64, velocity=0, time=480),
                    mido.Message("note_on", note=67, velocity=72, time=240), mido.Message("note_off", note=67, velocity=0, time=480)):
            t1.append(msg)
        mf.tracks.extend([t0, t1])
        buf = _io.BytesIO()
        mf.save(file=buf)
        buf.seek(0)
        case = {"midi_file_with_tempo_events": [list(x) for x in tempi], "pedal": "down at tick 240, up at tick 960"}
        ok, perf = b.guard("note_array/no_exception", case, lambda: load_performance_midi(mido.MidiFile(file=buf)))
        if not ok:
            continue
        bad = None
        for pp in perf.performedparts:
            if not len(pp.notes):
                continue
            n2 = [(n["midi_pitch"], float(n["note_on"]), float(n["note_off"])) for n in pp.notes]
            c2 = [(c["number"], float(c["time"]), c["value"]) for c in pp.controls]
            got = [float(n["sound_off"]) for n in pp.notes]
            want = ref_sound_off(n2, c2, pp.sustain_pedal_threshold)
            if not all(g >= off - 1e-9 for g, (_, _, off) in zip(got, n2)) or not all(any(abs(g - w) < 1e-6 for w in ws) for g, ws in zip(got, want)):
                bad = bad or "loaded notes (pitch, on, off) %r with pedal stream %r have the sounding ends %r; the stream dictates %r" % (n2, c2, got, [sorted(w) for w in want])
            okn, na = b.guard("note_array/no_exception", case, lambda: pp.note_array())
            if okn and not all(abs(float(r["duration_sec"]) - (g - on)) < 1e-5 for r, g, (_, on, _) in zip(na, got, n2)):
                bad = bad or "duration_sec %r, sounding end minus onset %r" % ([float(r["duration_sec"]) for r in na], [g - on for g, (_, on, _) in zip(got, n2)])
        b.case("pedal/sounding_end_follows_the_parts_own_pedal_stream", bad is None, case, bad or "")
    # parts whose items carry no track number (the default), built with and without the `track` keyword of the part; controls with and without one
    for with_kw in (False, True):
        for ctl_key in (False, True):
            def mkp(pi):
                nl = [dict(id="p%dn%d" % (pi, i), midi_pitch=60 + i, note_on=0.0, note_off=1.0, velocity=64, channel=1) for i in range(2)]
                cl = [dict(number=64, time=0.0, value=0, channel=0, **({"track": 0} if ctl_key else {}))]
                return pf.PerformedPart(nl, id="p%d" % pi, controls=cl, **({"track": pi + 3} if with_kw else {}))
            case = {"items_without_track_numbers": True, "track_keyword_of_the_parts": with_kw, "controls_carry_a_track": ctl_key}
            ok, pps2 = b.guard("tracks/no_exception", case, lambda: [mkp(0), mkp(1)])
            if not ok:
                continue
            before = [p_.num_tracks for p_ in pps2]
            ok, perf = b.guard("tracks/no_exception", case, lambda: pf.Performance(pps2))
            if not ok:
                continue
            sets = [set(n["track"] for n in p_.notes) | set(c.get("track") for c in p_.controls) for p_ in perf.performedparts]
            after = [p_.num_tracks for p_ in perf.performedparts]
            b.case("tracks/unique_across_parts_without_mixing", not (sets[0] & sets[1]) and after == [len(x) for x in sets] and before == after and perf.num_tracks == sum(after), case,
                   "track sets %r; tracks counted per part before %r and after %r making them unique; performance counts %r" % ([sorted(x, key=repr) for x in sets], before, after, perf.num_tracks))
    # notes that carry tick fields as the readers produce them, of zero length and shorter than a tick (equal on and off ticks)
    for notes_t in ([(60, 0.5, 0.5, 480, 480), (64, 1.0, 1.0004, 960, 960), (67, 2.0, 2.5, 1920, 2400)], [(60, 0.0, 0.0, 0, 0)]):
        nl = [dict(id="n%d" % i, midi_pitch=p, note_on=on, note_off=off, note_on_tick=t0, note_off_tick=t1, velocity=64, track=0, channel=0) for i, (p, on, off, t0, t1) in enumerate(notes_t)]
        case = {"notes_with_tick_fields": notes_t}
        ok, part = b.guard("pedal/never_fails_on_valid_notes", case, lambda: pf.PerformedPart(nl, id="P", controls=[dict(number=64, time=0.1, value=0, track=0, channel=0)]))
        if ok:
            b.case("pedal/no_pedal_events_means_release", [float(n["sound_off"]) for n in part.notes] == [float(x[2]) for x in notes_t], case, "sounding ends %r" % [n["sound_off"] for n in part.notes])
    # a performance one of whose parts holds control changes and no note (the pedal on a track of its own)
    for order in ((0, 1, 2), (2, 0, 1)):
        mk3 = [lambda: pf.PerformedPart([dict(id="a%d" % i, midi_pitch=60 + i, note_on=0.0, note_off=1.0, velocity=64, track=i, channel=0) for i in range(2)], id="A"),
               lambda: pf.PerformedPart([dict(id="b%d" % i, midi_pitch=70 + i, note_on=0.0, note_off=1.0, velocity=64, track=i, channel=0) for i in range(2)], id="B"),
               lambda: pf.PerformedPart([], id="C", controls=[dict(number=64, time=0.2, value=100, track=0, channel=0), dict(number=67, time=0.3, value=50, track=0, channel=0)])]
        case = {"parts": ["two tracks of notes", "two tracks of notes", "controls only"], "order": list(order)}
        ok, perf = b.guard("tracks/no_exception", case, lambda: pf.Performance([mk3[k]() for k in order]))
        if not ok:
            continue
        sets = [set(n["track"] for n in p_.notes) | set(c["track"] for c in p_.controls) for p_ in perf.performedparts]
        disjoint = all(not (sets[i] & sets[j]) for i in range(3) for j in range(i + 1, 3))
        b.case("tracks/unique_across_parts_without_mixing", disjoint and len(perf.performedparts) == 3 and perf.num_tracks == sum(len(x) for x in sets) == 5, case,
               "track sets per part %r, performance counts %r tracks" % ([sorted(x) for x in sets], perf.num_tracks))
    # the numeric type of the note times is the caller's: whole seconds given as Python or numpy integers, float32 values
    import numpy as _np
    for tname, conv in (("int", int), ("numpy.int64", _np.int64), ("numpy.int32", _np.int32), ("numpy.float32", _np.float32), ("numpy.float64", _np.float64)):
        for notes, ctl, want in (([(60, 0, 1), (64, 1, 3), (60, 2, 4)], [(64, 0.5, 127), (64, 2.5, 0)], [2.0, 3.0, 4.0]),
                                 ([(60, 0, 1), (67, 0, 2)], [(64, 0.25, 100), (64, 1.75, 10), (64, 1.9, 90), (64, 3.5, 0)], [1.75, 3.5]),
                                 ([(60, 0, 1), (60, 3, 4)], [(64, 0.5, 127), (64, 4.5, 0)], [3.0, 4.5])):
            nl = [dict(id="n%d" % i, midi_pitch=p, note_on=conv(on), note_off=conv(off), velocity=60 + i, track=0, channel=1) for i, (p, on, off) in enumerate(notes)]
            cl = [dict(number=num, time=float(t), value=v, track=0, channel=0) for (num, t, v) in ctl]
            case = {"notes": notes, "controls": ctl, "type_of_the_note_times": tname}
            ok, part = b.guard("pedal/never_fails_on_valid_notes", case, lambda: pf.PerformedPart(nl, id="P", controls=cl))
            if ok:
                got = [float(n["sound_off"]) for n in part.notes]
                b.case("pedal/sound_off_as_the_pedal_dictates", all(abs(g - w) < 1e-6 for g, w in zip(got, want)), case, "sounding ends %r, the pedal dictates %r" % (got, want))
                ok2, _ = b.guard("pedal/setter_recomputes", case, lambda: setattr(part, "sustain_pedal_threshold", 64))
                if ok2:
                    got = [float(n["sound_off"]) for n in part.notes]
                    b.case("pedal/setter_recomputes", all(abs(g - w) < 1e-6 for g, w in zip(got, want)), case, "after assigning the threshold again the sounding ends are %r, the pedal dictates %r" % (got, want))
    # track renumbering: unique across parts, parts not mixed
    for tracks in itertools.product([[0], [1], [0, 1], [3, 3], [2, 0]], repeat=2):
        pps = []
        for pi, trs in enumerate(tracks):
            nl = [dict(id="p%dn%d" % (pi, i), midi_pitch=60 + i, note_on=0.0, note_off=1.0, velocity=64, track=t, channel=1) for i, t in enumerate(trs)]
            cl = [dict(number=64, time=0.0, value=0, track=trs[0], channel=0)]
            pps.append(pf.PerformedPart(nl, id="p%d" % pi, controls=cl))
        case = {"tracks_per_part": [list(t) for t in tracks]}
        ok, perf = b.guard("tracks/no_exception", case, lambda: pf.Performance(pps))
        if not ok:
            continue
        sets = [set(n["track"] for n in pp.notes) | set(c["track"] for c in pp.controls) for pp in perf.performedparts]
        disjoint = not (sets[0] & sets[1])
        kept = all(len(set(n["track"] for n in pp.notes)) == len(set(trs)) for pp, trs in zip(perf.performedparts, tracks))
        same_track_controls = all(pp.controls[0]["track"] == pp.notes[0]["track"] for pp in perf.performedparts)
        b.case("tracks/unique_across_parts_without_mixing", disjoint and kept and same_track_controls and perf.num_tracks == sum(len(set(t)) for t in tracks), case,
               "track sets %r, num_tracks %r" % ([sorted(s) for s in sets], perf.num_tracks))


def replay_case(clause, case):
    from pyv.main import BoundedCtx
    b = BoundedCtx("C14", "thorough", 0)
    if "threshold" in case:
        notes = [tuple(n) for n in case["notes"]]
        ctl = [tuple(c) for c in case["controls"]]
        try:
            part = _mk_part(notes, ctl, case["threshold"])
        except Exception as e:
            return False, "raised %s: %s" % (type(e).__name__, e)
        got = [n["sound_off"] for n in part.notes]
        want = ref_sound_off(notes, ctl, case["threshold"])
        ok = all(any(abs(g - w) < 1e-9 for w in ws) for g, ws in zip(got, want)) and all(g >= off for g, (_, _, off) in zip(got, notes))
        return ok, "sound_off %r, model %r" % (got, [sorted(w) for w in want])
    return True, "not replayable individually"
