"""C15 - merging parts keeps every note at the same musical time in disjoint voices.

closed-eval: the renumbering lemma (offsets by the running sum of the previous parts' maxima give disjoint, order-preserving ranges)
             over all small voice/staff configurations; `iter_parts` flattening of nested groups.
Tier B:      merge_parts on generated scores / part groups / lists (2-3 parts, divisions (1,1), (2,3), (4,6), (6,10), (4,6,3); 1-5 voices
             with gaps, 1-2 staves, missing staff) x the three reassign modes: merged note array vs the score-level note array taken
             before merging, voices/staves disjoint across inputs and kept within an input, structural elements from the first part
             only, single part returned as is (bounded).
"""
import itertools
from fractions import Fraction

import numpy as np

LEVEL = "exploration"
MANIFEST = {
    "level": "exploration",
    "technique": "contract-based run-time checking (bounded) of merge_parts against the score-level note array and voice/staff disjointness contracts; exhaustive closed evaluation of the renumbering lemma and of iter_parts",
    "text": "Every note of every input appears at the same musical time (positions/durations rescaled to the lcm of the divisions); voices (staves in staff mode) of different inputs are disjoint while notes that shared one still do; measures/signatures come from the first part only; a single part is returned as is; the merged part's sounding notes equal the score-level note array taken before merging; the merged part carries the lcm divisions at every time point. Generated scores in a stated scope (bounded).",
    "note": "bounded; merge_parts modifies its inputs by documentation, so reference values are taken before merging; nothing counted as proved beyond the closed lemma",
}
EXPLANATION = "Bounded run-time contracts on generated scores; closed lemma for the renumbering arithmetic."


def _sc():
    import partitura.score as sc
    return sc


def closed_renumbering_lemma():
    """offsets by running sums of maxima: ranges of different parts are disjoint and order inside a part is kept"""
    n = 0
    for maxima in itertools.product(range(1, 6), repeat=3):
        offs = [sum(maxima[:p]) for p in range(3)]
        seen = {}
        for p, m in enumerate(maxima):
            for v in range(1, m + 1):
                n += 1
                nv = v + offs[p]
                if nv in seen and seen[nv] != p:
                    return False, n, {"input": list(maxima), "what": "collision at voice %d" % nv}
                seen[nv] = p
    return True, n, ""


def closed_iter_parts_flattening():
    sc = _sc()
    n = 0
    P = [sc.Part("P%d" % i) for i in range(4)]
    g_inner = sc.PartGroup(group_name="inner")
    g_inner.children = [P[1], P[2]]
    g_outer = sc.PartGroup(group_name="outer")
    g_outer.children = [P[0], g_inner]
    # document order is depth first: a nested group placed BEFORE a sibling part, in the middle, two levels deep
    Q = [sc.Part("Q%d" % i) for i in range(6)]
    h_in = sc.PartGroup(group_name="violins")
    h_in.children = [Q[0], Q[1]]
    h_out = sc.PartGroup(group_name="strings")
    h_out.children = [h_in, Q[2]]
    k_in2 = sc.PartGroup(group_name="deep")
    k_in2.children = [Q[3]]
    k_in = sc.PartGroup(group_name="mid")
    k_in.children = [k_in2, Q[4]]
    k_out = sc.PartGroup(group_name="top")
    k_out.children = [Q[5], k_in, Q[2]]
    for arg, want in (([P[0], P[1]], [P[0], P[1]]), (g_inner, [P[1], P[2]]), (g_outer, [P[0], P[1], P[2]]), ([g_outer, P[3]], [P[0], P[1], P[2], P[3]]), (P[3], [P[3]]),
                      (h_out, [Q[0], Q[1], Q[2]]), ([h_out, Q[3]], [Q[0], Q[1], Q[2], Q[3]]), (k_out, [Q[5], Q[3], Q[4], Q[2]])):
        n += 1
        got = list(sc.iter_parts(arg))
        if [id(x) for x in got] != [id(x) for x in want]:
            return False, n, {"input": n, "what": "iter_parts gives %r" % [x.id for x in got]}
    return True, n, ""


CLOSED = [("voice_staff_renumbering_lemma", closed_renumbering_lemma), ("iter_parts_flattens_nested_groups", closed_iter_parts_flattening)]


def _mk_part(pid, divs, voices, staves, octave, missing_staff=False, with_rest=True, ts=(4, 4), pickup=False):
    """one bar of notes per voice; voices: list of voice numbers (may have gaps); staves: number of staves (voices spread round-robin)"""
    from gen import scores as G
    sc = _sc()
    notes = []
    tie_pairs = []
    bar = divs * 4
    for k, v in enumerate(voices):
        st = None if missing_staff else 1 + (k % staves)
        for j in range(2):
            notes.append(("%sv%dn%d" % (pid, v, j), j * bar // 2, bar // 2, "CDEFGAB"[(k + j) % 7], None, octave, v, st))
        if k == 0:
            # the long note of the first voice is written as two tied notes (a tie chain is one sounding note, in every unit)
            notes.append(("%sv%dlong" % (pid, v), bar, bar // 2, "CDEFGAB"[(k + 3) % 7], None, octave, v, st))
            notes.append(("%sv%dlongt" % (pid, v), bar + bar // 2, bar - bar // 2, "CDEFGAB"[(k + 3) % 7], None, octave, v, st))
            tie_pairs.append(("%sv%dlong" % (pid, v), "%sv%dlongt" % (pid, v)))
        else:
            notes.append(("%sv%dlong" % (pid, v), bar, bar, "CDEFGAB"[(k + 3) % 7], None, octave, v, st))
    rests = [("%sr" % pid, 2 * bar, bar, voices[0] if voices else 1, None if missing_staff else 1)] if with_rest else []

    def extra(p, byid):
        p.add(sc.Words("espr. " + pid, staff=None if missing_staff else 1), bar // 2)
        p.add(sc.Words("dolce", staff=None if missing_staff else 1), bar)  # the same text at the same time on the same staff in EVERY part
        # a written-out road map (segno, to coda, dal segno, coda): every part carries its own marks, and they are not on the documented
        # list of elements that come from the first part only
        p.add(sc.Segno(), bar // 2)
        p.add(sc.ToCoda(), bar)
        p.add(sc.DalSegno(), 2 * bar)
        p.add(sc.Coda(), 2 * bar)
        p.add(sc.ConstantLoudnessDirection("p", staff=None if missing_staff else 1), 0)
        p.add(sc.ConstantLoudnessDirection("f", staff=None if missing_staff else 1), bar)
        p.add(sc.ImpulsiveLoudnessDirection("sfz", staff=None if missing_staff else 1), bar + bar // 2)
        p.add(sc.DynamicTempoDirection("rit.", staff=None if missing_staff else 1), 2 * bar, 3 * bar)
    return G.build_part(pid, divs, ts=((0, ts[0], ts[1]),), notes=notes, ties=tie_pairs, rests=rests, key=(1 if pid == "P0" else -2, "major"), clefs=[] if missing_staff else [(0, 1, "G", 2)],
                        measures=[(0, bar), (bar, 2 * bar), (2 * bar, 3 * bar)] if not pickup else [(0, bar // 2), (bar // 2, bar // 2 + bar), (bar // 2 + bar, 3 * bar)], extra=extra)


def _late_part():
    """a part with nothing at time 0 (no signature, no measure, no rest): its first object is a note one quarter in"""
    sc = _sc()
    p = sc.Part("P1", quarter_duration=3)
    for i, step in enumerate("GAB"):
        p.add(sc.Note(step=step, octave=3, voice=1, staff=1, id="b%d" % i), 3 * (i + 1), 3 * (i + 2))
    return p


def _configs(tier):
    c = [
        ("equal_divs", [(1, [1], 1), (1, [1, 2], 1)]),
        ("divs_2_3", [(2, [1, 2], 1), (3, [1], 1)]),
        ("divs_4_6_two_staves", [(4, [1, 2, 3], 2), (6, [1, 2], 2)]),
        ("divs_6_10", [(6, [1], 1), (10, [1, 2], 1)]),
        ("three_parts_4_6_3", [(4, [1], 1), (6, [1, 2], 1), (3, [1], 1)]),
        ("voice_gap", [(2, [1, 3], 1), (2, [1, 2], 1)]),
        ("five_voices_one_staff", [(2, [1, 2, 3, 4, 5], 1), (2, [1, 2], 1)]),
        ("missing_staff", [(2, [1], 1, True), (4, [1, 2], 1, True)]),
        ("both_parts_open_with_a_pickup", [(2, [1], 1, False, True), (3, [1, 2], 1, False, True)]),
        ("middle_part_holds_only_a_rest", [(2, [1], 1), (1, [], 1), (3, [1], 1)]),
        ("common_divisions_above_32767", [(10080, [1], 1), (768, [1], 1), (480, [1], 1)]),
    ]
    if tier == "thorough":
        c += [("lcm_exceeds_all", [(4, [1], 1), (6, [1], 1), (10, [1], 1)]), ("two_staves_three_voices_each", [(2, [1, 2, 3], 2), (2, [1, 2, 3], 2), (2, [1], 1)])]
    return c


def bounded(b):
    sc = _sc()
    from gen import scores as G
    from gen import oracles as O
    cfgs = _configs(b.tier)
    b.rules.append("scores / part groups / lists of 2-3 generated parts (%d configurations: equal and different divisions incl. an lcm above all of them, "
                   "1-5 voices with a numbering gap, 1-2 staves, missing staff, rests, words, dynamics) x reassign {voice, staff, auto} x container kind; "
                   "non-trivial = every case" % len(cfgs))
    b.scopes.append("%d configurations x 3 modes x 3 container kinds" % len(cfgs))
    for name, spec in cfgs:
        for mode in ("voice", "staff", "auto"):
            for kind in ("score", "list", "group"):
                case = {"config": name, "reassign": mode, "container": kind}
                parts = [_mk_part("P%d" % i, s[0], s[1], s[2], 3 + i, missing_staff=(len(s) > 3 and s[3]), pickup=(len(s) > 4 and s[4])) for i, s in enumerate(spec)]
                score = G.simple_score(parts)
                ref = score.note_array(include_staff=True)
                L = O.lcm([s[0] for s in spec])
                # reference: which input each note comes from, its old voice/staff
                origin = {}
                for i, p in enumerate(parts):
                    used = {(n.voice, n.staff if n.staff is not None else 1) for n in p.iter_all(sc.Note, include_subclasses=True)}
                    for n in p.iter_all(sc.GenericNote, include_subclasses=True):
                        # the property speaks of NOTES: a rest is followed only where it lies in a voice and on a staff that notes of its input use
                        # (then it moves with them); the number given to a voice or staff that holds nothing but rests is not constrained
                        if isinstance(n, sc.Note) or ({v for v, _ in used} >= {n.voice} and {s for _, s in used} >= {n.staff if n.staff is not None else 1}):
                            origin[n.id] = (i, n.voice, n.staff if n.staff is not None else 1)
                first_struct = {"measures": [(m.start.t * (L // spec[0][0]), m.end.t * (L // spec[0][0])) for m in parts[0].iter_all(sc.Measure)],
                                "ts": [(t.start.t * (L // spec[0][0]), t.beats, t.beat_type) for t in parts[0].iter_all(sc.TimeSignature)],
                                "ks": [(k.start.t * (L // spec[0][0]), k.fifths) for k in parts[0].iter_all(sc.KeySignature)]}
                words = sorted((Fraction(w.start.t, s[0]), w.text) for p, s in zip(parts, spec) for w in p.iter_all(sc.Words))
                rests = sorted((Fraction(r.start.t, s[0]), Fraction(r.end.t - r.start.t, s[0])) for p, s in zip(parts, spec) for r in p.iter_all(sc.Rest))
                roadmap = sorted(((cls.__name__, Fraction(o.start.t, s[0])) for cls in (sc.Segno, sc.ToCoda, sc.DalSegno, sc.Coda) for p, s in zip(parts, spec) for o in p.iter_all(cls)), key=repr)
                dirs = sorted((type(d).__name__, d.text, Fraction(d.start.t, s[0]), Fraction(d.end.t, s[0]) if d.end is not None else None) for p, s in zip(parts, spec)
                              for d in p.iter_all(sc.Direction, include_subclasses=True))
                if kind == "score":
                    arg = score
                elif kind == "list":
                    arg = parts
                else:
                    arg = sc.PartGroup(group_name="g")
                    arg.children = parts
                ok, merged = b.guard("merge/no_exception", case, lambda: sc.merge_parts(arg, reassign=mode))
                if not ok:
                    continue
                ok2, na = b.guard("merge/note_array_no_exception", case, lambda: merged.note_array(include_staff=True))
                if not ok2:
                    continue
                want = sorted((round(float(r["onset_quarter"]), 6), round(float(r["duration_quarter"]), 6), int(r["pitch"])) for r in ref)
                got = sorted((round(float(r["onset_quarter"]), 6), round(float(r["duration_quarter"]), 6), int(r["pitch"])) for r in na)
                wd = sorted((int(r["onset_div"]), int(r["duration_div"]), int(r["pitch"])) for r in ref)
                gd = sorted((int(r["onset_div"]), int(r["duration_div"]), int(r["pitch"])) for r in na)
                b.case("merge/sounding_notes_equal_the_score_level_note_array", got == want and gd == wd, case,
                       "merged %r... (divs %r...), score-level %r... (divs %r...)" % (got[:4], gd[:4], want[:4], wd[:4]))
                q0, d0 = (min(float(r["onset_quarter"]) for r in na), min(int(r["onset_div"]) for r in na)) if len(na) else (0.0, 0)  # (quarter zero lies after a pickup)
                divs_ok = all(int(r["onset_div"]) - d0 == round((float(r["onset_quarter"]) - q0) * L) for r in na) and int(merged.quarter_duration_map(0)) == L \
                    and all(p.quarter == L for p in merged._points)
                b.case("merge/positions_rescaled_to_the_lcm_of_the_divisions", divs_ok, case, "divisions in force %r / point quarters %r, lcm %d" % (
                    int(merged.quarter_duration_map(0)), sorted({p.quarter for p in merged._points}), L))
                # voices / staves
                groups = {}
                for n in merged.iter_all(sc.GenericNote, include_subclasses=True):
                    if n.id in origin:
                        groups.setdefault(n.voice if mode != "staff" else n.staff, set()).add(origin[n.id][0])
                shared = {k: v for k, v in groups.items() if len(v) > 1}
                b.case("merge/notes_from_different_inputs_never_share_a_%s" % ("staff" if mode == "staff" else "voice"), not shared, case,
                       "%s numbers shared by several inputs: %r" % ("staff" if mode == "staff" else "voice", {k: sorted(v) for k, v in shared.items()}))
                if mode == "auto":
                    sg = {}
                    for n in merged.iter_all(sc.GenericNote, include_subclasses=True):
                        if n.id in origin:
                            sg.setdefault(n.staff, set()).add(origin[n.id][0])
                    b.case("merge/notes_from_different_inputs_never_share_a_staff", all(len(v) == 1 for v in sg.values()), case, "staves shared: %r" % sg)
                kept = True
                newnum = {}
                for n in merged.iter_all(sc.GenericNote, include_subclasses=True):
                    if n.id in origin:
                        key = (origin[n.id][0], origin[n.id][1] if mode != "staff" else origin[n.id][2])
                        val = n.voice if mode != "staff" else n.staff
                        if newnum.setdefault(key, val) != val:
                            kept = False
                b.case("merge/notes_that_shared_a_voice_or_staff_still_do", kept, case, "an input's voice/staff was split")
                ms = sorted((m.start.t, m.end.t) for m in merged.iter_all(sc.Measure))
                tsg = sorted((t.start.t, t.beats, t.beat_type) for t in merged.iter_all(sc.TimeSignature))
                ksg = sorted((k.start.t, k.fifths) for k in merged.iter_all(sc.KeySignature))
                b.case("merge/structural_elements_from_the_first_part_only", ms == sorted(first_struct["measures"]) and tsg == sorted(first_struct["ts"]) and ksg == sorted(first_struct["ks"]), case,
                       "measures %r signatures %r %r" % (ms, tsg, ksg))
                gw = sorted((Fraction(w.start.t, L), w.text) for w in merged.iter_all(sc.Words))
                gr = sorted((Fraction(r.start.t, L), Fraction(r.end.t - r.start.t, L)) for r in merged.iter_all(sc.Rest))
                b.case("merge/rests_and_non_structural_elements_at_the_same_musical_time", gw == words and gr == rests, case, "words %r rests %r" % (gw, gr))
                grm = sorted(((cls.__name__, Fraction(o.start.t, L)) for cls in (sc.Segno, sc.ToCoda, sc.DalSegno, sc.Coda) for o in merged.iter_all(cls)), key=repr)
                b.case("merge/rests_and_non_structural_elements_at_the_same_musical_time", grm == roadmap, dict(case, elements="segno, to coda, dal segno, coda"),
                       "road-map marks in the merged part %r, in the parts %r" % (grm, roadmap))
                gd = sorted(((type(d).__name__, d.text, Fraction(d.start.t, L), Fraction(d.end.t, L) if d.end is not None else None) for d in merged.iter_all(sc.Direction, include_subclasses=True)),
                            key=repr)
                b.case("merge/directions_once_each_at_the_same_musical_time", gd == sorted(dirs, key=repr), case,
                       "directions %r, the inputs hold %r" % ([(a, t, str(x)) for a, t, x, _ in gd][:8], [(a, t, str(x)) for a, t, x, _ in sorted(dirs, key=repr)][:8]))
    # a second part whose timeline begins later than the first one's (its first note enters in the second bar, nothing is written before it),
    # and parts in 6/8 with a long upbeat that count musical beats
    for cname, mkparts in (("second_part_enters_later_without_rests", lambda: [G.build_part("P0", 2, notes=[("a0", 0, 4, "C", None, 4, 1, 1), ("a1", 4, 4, "D", None, 4, 1, 1)], measures=[(0, 8)]),
                                                                                _late_part()]),
                           ("six_eight_with_an_upbeat_of_five_eighths_counted_in_musical_beats", lambda: [
                               G.build_part("P0", 2, ts=((0, 6, 8),), notes=[("a0", 0, 5, "C", None, 4, 1, 1), ("a1", 5, 6, "D", None, 4, 1, 1)], measures=[(0, 5), (5, 11)]),
                               G.build_part("P1", 4, ts=((0, 6, 8),), notes=[("b0", 0, 10, "G", None, 3, 1, 1), ("b1", 10, 12, "A", None, 3, 1, 1)], measures=[(0, 10), (10, 22)])])):
        pl = mkparts()
        if "musical" in cname:
            for p_ in pl:
                p_.use_musical_beat()
        case = {"config": cname}
        sco = G.simple_score(pl)
        ok, res = b.guard("merge/no_exception", case, lambda: (sco.note_array(), sc.merge_parts(sco)))
        if ok:
            ref, mg = res
            na = mg.note_array()
            want = sorted((round(float(r["onset_quarter"]), 6), round(float(r["duration_quarter"]), 6), int(r["pitch"])) for r in ref)
            got = sorted((round(float(r["onset_quarter"]), 6), round(float(r["duration_quarter"]), 6), int(r["pitch"])) for r in na)
            b.case("merge/sounding_notes_equal_the_score_level_note_array", got == want, case,
                   "merged part (onset, duration in quarters, pitch) %r, score-level array %r" % (got, want))
    # far into a piece on a fine common grid: positions a few divisions apart stay apart (768 and 10080 divisions, lcm 80640; bar 3 ends at 967 680)
    pa = G.build_part("P0", 10080, notes=[("a0", 0, 120958, "C", None, 4, 1, 1), ("a1", 120958, 1, "D", None, 4, 1, 1), ("a2", 120959, 1, "E", None, 4, 1, 1), ("a3", 120961, 3, "F", None, 4, 1, 1)],
                      measures=[(0, 40320), (40320, 80640), (80640, 120960), (120960, 161280)])
    pb = G.build_part("P1", 768, notes=[("b0", 0, 9216, "C", None, 3, 1, 1), ("b1", 9216, 3072, "G", None, 2, 1, 1)], measures=[(0, 3072), (3072, 6144), (6144, 9216), (9216, 12288)])
    case = {"config": "positions_a_few_divisions_apart_far_into_the_piece", "divisions": [10080, 768]}
    want = sorted([(n.start.t * 8, (n.end.t - n.start.t) * 8, n.midi_pitch) for n in pa.notes] + [(n.start.t * 105, (n.end.t - n.start.t) * 105, n.midi_pitch) for n in pb.notes])
    ok, mg = b.guard("merge/no_exception", case, lambda: sc.merge_parts([pa, pb]))
    if ok:
        got = sorted((n.start.t, n.end.t - n.start.t, n.midi_pitch) for n in mg.notes)
        b.case("merge/positions_rescaled_to_the_lcm_of_the_divisions", got == want, case, "merged notes (onset, duration, pitch) %r, rescaled inputs %r" % (got, want))
    # element classes defined by the user AFTER merges have already run in this process (a lyric line, a bowing mark, a harmonic)
    class Lyric(sc.Words):
        pass

    class Bowing(sc.TimedObject):
        pass

    class Flageolet(sc.Note):
        pass
    pa, pb = _mk_part("P0", 2, [1], 1, 4), _mk_part("P1", 3, [1], 1, 3)
    pa.add(Lyric("la", staff=1), 0)
    pb.add(Lyric("li", staff=1), 3)
    pa.add(Bowing(), 2, 4)
    pb.add(Flageolet("E", 6, id="flag", voice=1, staff=1), 0, 3)
    case = {"config": "element_classes_defined_after_earlier_merges"}
    n_notes = len(pa.notes) + len(pb.notes)
    ok, mg = b.guard("merge/no_exception", case, lambda: sc.merge_parts([pa, pb]))
    if ok:
        have = (len(list(mg.iter_all(Lyric))), len(list(mg.iter_all(Bowing))), len(list(mg.iter_all(Flageolet))), len(mg.notes))
        b.case("merge/rests_and_non_structural_elements_at_the_same_musical_time", have == (2, 1, 1, n_notes), case,
               "the merged part holds %r lyric / bowing / harmonic objects and notes, the inputs %r" % (have, (2, 1, 1, n_notes)))
    # parts that share an id (two separately loaded single-part files) are still two parts
    pa, pb = _mk_part("P1", 2, [1], 1, 4), _mk_part("P1", 3, [1, 2], 1, 3)
    for n in pb.iter_all(sc.GenericNote, include_subclasses=True):
        n.id = "x" + n.id
    case = {"same_part_id": True}
    ok, sco = b.guard("merge/no_exception", case, lambda: G.simple_score([pa, pb]))
    if ok:
        na = sco.note_array()
        ok2, mg = b.guard("merge/no_exception", case, lambda: sc.merge_parts(sco))
        b.case("merge/score_keeps_distinct_parts_with_equal_ids", len(sco.parts) == 2 and len(na) == len(pa.notes_tied) + len(pb.notes_tied) and (not ok2 or len(mg.notes_tied) == len(na)), case,
               "%d parts in the score, %d rows, %d + %d notes given" % (len(sco.parts), len(na), len(pa.notes_tied), len(pb.notes_tied)))
    # a score whose part list was edited after construction (score[i] = part): merging and the score-level note array follow the edit
    pa, pb, pc = _mk_part("P0", 2, [1], 1, 3), _mk_part("P1", 3, [1], 1, 4), _mk_part("P2", 4, [1, 2], 1, 5)
    sco = G.simple_score([pa, pb])
    case = {"score_edited_after_construction": "score[1] = another part"}
    ok, _ = b.guard("merge/no_exception", case, lambda: sco.__setitem__(1, pc))
    if ok:
        want = sorted((Fraction(n.start.t, p._quarter_durations[0]), n.midi_pitch) for p in (pa, pc) for n in p.notes_tied)  # before merging (merge_parts is documented to rescale its inputs)
        ok, res = b.guard("merge/no_exception", case, lambda: (sco.note_array(), sc.merge_parts(sco)))
        if ok:
            na, mg = res
            got_na = sorted((Fraction(float(r["onset_quarter"])).limit_denominator(64), int(r["pitch"])) for r in na)
            got_mg = sorted((Fraction(n.start.t, mg._quarter_durations[0]), n.midi_pitch) for n in mg.notes_tied)
            b.case("merge/sounding_notes_equal_the_score_level_note_array", got_na == want and got_mg == want, case,
                   "score-level array has %d notes, merged part %d, the score's parts %d" % (len(got_na), len(got_mg), len(want)))
    # single part returned as is
    for wrap in ("list", "group", "score"):
        p = _mk_part("P0", 2, [1], 1, 4)
        if wrap == "list":
            arg = [p]
        elif wrap == "group":
            arg = sc.PartGroup(group_name="g")
            arg.children = [p]
        else:
            arg = G.simple_score([p])
        ok, r = b.guard("merge/no_exception", {"single": wrap}, lambda: sc.merge_parts(arg))
        if ok:
            b.case("merge/single_part_returned_as_is", r is p, {"single": wrap}, "a different object was returned")
    # ONE Fine / Da Capo object put on every part (as the MEI reader does for a mark that applies to all staves): the merged part holds
    # the first part's, once
    for mode in ("voice", "staff", "auto"):
        pa = G.build_part("PA", 4, notes=[("a0", 0, 8, "C", None, 5, 1, 1), ("a1", 8, 8, "D", None, 5, 1, 1), ("a2", 16, 16, "E", None, 5, 1, 1)], measures=[(0, 16), (16, 32)])
        pb = G.build_part("PB", 4, notes=[("b0", 0, 16, "C", None, 3, 1, 1), ("b1", 16, 16, "G", None, 2, 1, 1)], measures=[(0, 16), (16, 32)])
        fine, dc = sc.Fine(), sc.DaCapo()
        for p_ in (pa, pb):
            p_.add(fine, 16)
            p_.add(dc, 32)
        case = {"shared_marks": "one Fine at the barline and one Da Capo at the end, on both parts", "reassign": mode}
        ok, merged = b.guard("merge/no_exception", case, lambda: sc.merge_parts([pa, pb], reassign=mode))
        if ok:
            got = sorted([("Fine", o.start.t) for o in merged.iter_all(sc.Fine)] + [("DaCapo", o.start.t) for o in merged.iter_all(sc.DaCapo)])
            b.case("merge/structural_elements_from_the_first_part_only", got == [("DaCapo", 32), ("Fine", 16)], case, "Fine / Da Capo marks in the merged part %r, the first part has a Fine at 16 and a Da Capo at 32" % got)
    # the convenience loader returns one part holding every note of every part of the file
    import os
    import partitura as pt
    base = os.path.join(os.path.dirname(pt.__file__), "..", "tests", "data")
    for rel in ("mei/Bach_Prelude.mei", "musicxml/test_clefs_tss.xml", "musicxml/test_merge_voices1.xml", "musicxml/test_part_group.xml", "musicxml/test_multi_part.xml",
                "musicxml/test_multi_part_change_divs.xml", "musicxml/test_note_ties.xml"):
        path = os.path.join(base, rel)
        if not os.path.exists(path):
            continue
        case = {"file": rel}
        # (the score's array is taken BEFORE the convenience loader runs; the file is then loaded as one part twice)
        def load_all():
            score_ = pt.load_score(path)
            want_ = sorted((round(float(r["onset_quarter"]), 4), round(float(r["duration_quarter"]), 4), int(r["pitch"])) for r in score_.note_array())
            divs_ = sorted({int(p_._quarter_durations[0]) for p_ in score_.parts})
            return score_, want_, divs_, pt.load_score_as_part(path), pt.load_score_as_part(path)
        ok, res = b.guard("loader/no_exception", case, load_all)
        if not ok:
            continue
        score, want, divs_, part, part_again = res
        row = lambda p_: sorted((int(r["onset_div"]), int(r["duration_div"]), int(r["pitch"]), int(r["voice"])) for r in p_.note_array())
        L_ = int(np.lcm.reduce(divs_)) if divs_ else 1
        b.case("loader/load_score_as_part_holds_every_note_of_every_part", row(part) == row(part_again) and int(part._quarter_durations[0]) == int(part_again._quarter_durations[0]) == L_, dict(case, loaded="twice"),
               "the file loaded as one part a second time gives other rows or divisions: first %r (divisions %r), second %r (divisions %r); the parts' divisions are %r" % (
                   row(part)[:3], part._quarter_durations[0], row(part_again)[:3], part_again._quarter_durations[0], divs_), nontrivial=len(score.parts) > 1)
        got = sorted((round(float(r["onset_quarter"]), 4), round(float(r["duration_quarter"]), 4), int(r["pitch"])) for r in part.note_array())
        b.case("loader/load_score_as_part_holds_every_note_of_every_part", isinstance(part, sc.Part) and got == want, case,
               "%d notes in the returned part, %d in the score (parts: %r)" % (len(got), len(want), [len(p.notes_tied) for p in score.parts]), nontrivial=len(score.parts) > 1)
