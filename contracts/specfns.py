"""Spec functions: the mathematical side of the postconditions.  Written from the property statements
(twelve-tone arithmetic, circle of fifths, diatonic interval arithmetic, dotted note values), NOT from the
tables in /repo - a table that disagrees with these fails an obligation."""
from fractions import Fraction

STEP_ORDER = "CDEFGAB"
PC = {"C": 0, "D": 2, "E": 4, "F": 5, "G": 7, "A": 9, "B": 11}
LINE_OF_FIFTHS = "FCGDAEB"


def pc_of(step):
    return PC[step.upper()]


def midi_of(step, alter, octave):
    """C4 = 60, each accidental one semitone (works on Sym ints)"""
    return 12 * (octave + 1) + PC[step.upper()] + (alter if alter is not None else 0)


def key_name(fifths, minor):
    """tonic of the key with `fifths` sharps(+)/flats(-): walk the line of fifths from C (major) / A (minor)"""
    pos = fifths + 1 + (3 if minor else 0)
    step = LINE_OF_FIFTHS[pos % 7]
    alt = pos // 7
    return step + ("#" * alt if alt > 0 else "b" * (-alt)) + ("m" if minor else "")


ACCEPTED_MINOR = ("minor", -1)
ACCEPTED_MAJOR = ("major", None, "none", 1)

NATURAL_SIZE = [0, 2, 4, 5, 7, 9, 11]  # semitones of the major/perfect interval of generic size 1..7
PERFECT = (1, 4, 5)
QUAL_PERFECT = {"dd": -2, "d": -1, "P": 0, "A": 1, "AA": 2}
QUAL_IMPERFECT = {"dd": -3, "d": -2, "m": -1, "M": 0, "A": 1, "AA": 2}


def interval_classes():
    out = []
    for n in range(1, 8):
        for q in (QUAL_PERFECT if n in PERFECT else QUAL_IMPERFECT):
            out.append((n, q))
    return out  # 3*5 + 4*6 = 39


def interval_semitones(number, quality):
    q = (QUAL_PERFECT if number in PERFECT else QUAL_IMPERFECT)[quality]
    return NATURAL_SIZE[number - 1] + q


def diatonic_transpose(step, alter, octave, number, quality, direction):
    """move by (number-1) staff steps and interval_semitones semitones; returns (step, alter, octave)"""
    idx = STEP_ORDER.index(step.upper())
    sgn = 1 if direction == "up" else -1
    j = idx + sgn * (number - 1)
    nstep = STEP_ORDER[j % 7]
    noct = octave + j // 7
    target = midi_of(step, alter, octave) + sgn * interval_semitones(number, quality)
    nalter = target - midi_of(nstep, 0, noct)
    return nstep, nalter, noct


# note values in quarters
NOTE_VALUE = {"long": 16, "breve": 8, "whole": 4, "half": 2, "quarter": 1, "eighth": Fraction(1, 2),
              "16th": Fraction(1, 4), "32nd": Fraction(1, 8), "64th": Fraction(1, 16), "128th": Fraction(1, 32),
              "256th": Fraction(1, 64)}
NOTE_VALUE_ABBREV = {"h": "half", "q": "quarter", "e": "eighth", "w": "whole", "b": "breve", "l": "long"}


def dot_multiplier(dots):
    return 2 - Fraction(1, 2 ** dots)


def note_value(label):
    if label in NOTE_VALUE:
        return Fraction(NOTE_VALUE[label])
    return Fraction(NOTE_VALUE[NOTE_VALUE_ABBREV[label]])
