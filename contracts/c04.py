"""C04 - score to MIDI to score preserves every note's timing and pitch exactly.

Tier P:      note_hash injective (SMT, all channel/pitch pairs).
closed-eval: map_to_track_channel for all six modes over every set of (group, part, voice) keys drawn from a small universe
             (which components track and channel are functions of; injectivity; tracks numbered 0.. without gaps).
Tier B:      generated scores (divisions 1,2,3,4,6,7,12,24,480 mixed across and inside parts, triplets, pickup, grace notes,
             ties over barlines) x 6 modes x 3 pickup policies x minimum_ppq {0,96,480}: exact-rational tick oracle on the written
             file, requested velocity, signatures/tempo positions, re-import note arrays, grouping of notes (bounded).
"""
import io
import itertools
from contracts import specfns as S
from fractions import Fraction

import numpy as np

from pyv.contracts import Contract, Int
from pyv.sym import sand, implies

LEVEL = "other"
MANIFEST = {
    "level": "other",
    "technique": "contract-based: SMT contract on the note-pairing key, exhaustive closed contract on map_to_track_channel, bounded run-time contract check of save_score_midi/load_score_midi against an exact-rational tick oracle",
    "text": "The pairing key is proved injective; the (group, part, voice) -> (track, channel) mapping is checked for all six modes on every key set over 2 groups x 3 parts x 3 voices of size <= 4 (exhaustive); every other clause (ppq = lcm of divisions doubled up to the minimum, every tick an exact integer image of the musical time, tied notes merged, velocity, signature/tempo positions, re-import, grouping under the same mode) is a run-time contract on generated scores with an exact-rational oracle (bounded).",
    "note": "mido trusted; the division->tick conversion goes through the library's float quarter map, exactness is decided by the oracle on the generated scores only (bounded); importer pitch spelling/voice estimation not part of this property",
}
EXPLANATION = "SMT for the pairing key, exhaustive closed check for the track/channel maps, exact tick oracle for generated scores (bounded)."


def _two_hashes(ip, f, a):
    if ip is None:
        return f(a.c1, a.p1), f(a.c2, a.p2)
    return ip.call(f, [a.c1, a.p1], {}), ip.call(f, [a.c2, a.p2], {})


CONTRACTS = [
    Contract("C04", "partitura.io.importmidi.note_hash",
             [("c1", Int(0, 15)), ("p1", Int(0, 127)), ("c2", Int(0, 15)), ("p2", Int(0, 127))], call=_two_hashes,
             ensures=[("distinct_channel_pitch_pairs_get_distinct_keys", lambda a, r: implies(r[0] == r[1], sand(a.c1 == a.c2, a.p1 == a.p2)))]),
]


def closed_track_channel_maps():
    from partitura.io.exportmidi import map_to_track_channel
    n = 0
    universe = [(g, p, v) for (g, p) in (("G1", "P1"), ("G1", "P2"), ("G2", "P3")) for v in (1, 2, 3)]
    for k in (1, 2, 3, 4):
        for keys in itertools.combinations(universe, k):
            for perm in ([keys, tuple(reversed(keys))] if k > 1 else [keys]):
                for mode in range(6):
                    n += 1
                    res = map_to_track_channel(list(perm), mode)
                    tr = {key: res[key][0] for key in perm}
                    ch = {key: res[key][1] for key in perm}
                    tracks = sorted(set(tr.values()))
                    if tracks != list(range(len(tracks))):
                        return False, n, {"input": [list(perm), mode], "what": "tracks %r are not numbered 0.. without gaps" % tracks}
                    comp_tr = {0: lambda x: x[1], 1: lambda x: x[0], 2: lambda x: 0, 3: lambda x: x[1], 4: lambda x: 0, 5: lambda x: (x[1], x[2])}[mode]
                    comp_ch = {0: lambda x: (x[1], x[2]), 1: lambda x: (x[0], x[1]), 2: lambda x: x[1], 3: lambda x: 0, 4: lambda x: 0, 5: lambda x: 0}[mode]
                    for a, b2 in itertools.combinations(perm, 2):
                        if (comp_tr(a) == comp_tr(b2)) != (tr[a] == tr[b2]):
                            return False, n, {"input": [list(perm), mode], "what": "track is not an injective function of the mode's track component for %r, %r" % (a, b2)}
                        if mode in (0, 1) and comp_tr(a) == comp_tr(b2) and (comp_ch(a) == comp_ch(b2)) != (ch[a] == ch[b2]):
                            return False, n, {"input": [list(perm), mode], "what": "channel is not an injective function of its component within a track"}
                        if mode == 2 and (comp_ch(a) == comp_ch(b2)) != (ch[a] == ch[b2]):
                            return False, n, {"input": [list(perm), mode], "what": "mode 2: channel must identify the part"}
                    if mode in (3, 4, 5) and set(ch.values()) != {1}:
                        return False, n, {"input": [list(perm), mode], "what": "modes 3-5 use channel 1 only"}
                    if any(not (1 <= c <= 16) for c in ch.values()):
                        return False, n, {"input": [list(perm), mode], "what": "channel outside 1..16"}
    n += 1
    try:
        map_to_track_channel(list(universe[:2]), 6)
        return False, n, {"input": 6, "what": "unsupported mode accepted"}
    except Exception:
        pass
    return True, n, ""


def closed_import_grouping():
    """assign_group_part_voice (import side) for every ordered list of <= 4 distinct (track, channel) pairs over 3 x 3 and every mode: the
    documented meaning of the six modes, numbering by first appearance; make_track_to_part_mapping = the parts each track contributes to"""
    from partitura.io.importmidi import assign_group_part_voice, make_track_to_part_mapping
    n = 0
    pairs = [(t, c) for t in (0, 1, 2) for c in (0, 1, 5)]

    def rank(seq):
        out = {}
        for x in seq:
            out.setdefault(x, len(out))
        return out
    for k in (1, 2, 3, 4):
        for combo in itertools.permutations(pairs, k):
            if k == 4 and combo[0] > combo[-1]:
                continue  # half of the orders is enough to see order dependence
            for mode in range(6):
                n += 1
                gpv, part_names, group_names = assign_group_part_voice(mode, {key: [] for key in combo}, {0: "Piano"})
                tr_rank = rank(t for t, _ in combo)
                pair_rank = rank(combo)
                want = []
                for (t, c) in combo:
                    if mode == 0:
                        want.append((None, tr_rank[t], 1 + rank(cc for tt, cc in combo if tt == t)[c]))
                    elif mode == 1:
                        want.append((tr_rank[t], pair_rank[(t, c)], None))
                    elif mode == 2:
                        want.append((None, 0, 1 + tr_rank[t]))
                    elif mode == 3:
                        want.append((None, tr_rank[t], None))
                    elif mode == 4:
                        want.append((None, 0, None))
                    else:
                        want.append((None, pair_rank[(t, c)], None))
                if list(gpv) != want:
                    return False, n, {"input": [list(combo), mode], "what": "(group, part, voice) keys %r, the mode means %r" % (list(gpv), want)}
                t2p = make_track_to_part_mapping(list(combo), gpv)
                want_t2p = {}
                for (t, c), (g, p_, v) in zip(combo, want):
                    want_t2p.setdefault(t, set()).add(p_)
                if {a: set(b) for a, b in t2p.items()} != want_t2p:
                    return False, n, {"input": [list(combo), mode], "what": "track -> parts %r, expected %r" % (dict(t2p), want_t2p)}
    return True, n, ""


CLOSED = [("track_channel_maps_six_modes", closed_track_channel_maps), ("import_grouping_six_modes", closed_import_grouping)]


# ------------------------------------------------------------------------------------------------ bounded
def _scores(tier):
    from gen import scores as G
    import partitura.score as sc
    out = []

    def one(divs, pickup=0, ts=(4, 4), pid="P1", triplet=False, grace=False, tie=True, voice2=False, qchange=None):
        sh = {"P1": 0, "P2": 1, "P3": 2}.get(pid, 0)  # distinct pitches per part: no equal pitches overlap when parts share a track/channel
        bar = divs * 4 * ts[0] // ts[1]
        notes, ties, graces = [], [], []
        t = 0
        meas = []
        if pickup:
            notes.append(("%su" % pid, 0, pickup, "G", None, 4 + sh, 1, 1))
            meas.append((0, pickup))
            t = pickup
        start = t
        for i in range(3):
            meas.append((start + i * bar, start + (i + 1) * bar))
        notes.append(("%sa" % pid, start, bar // 2, "C", None, 4 + sh, 1, 1))
        if triplet and (divs * 2) % 3 == 0:
            u = divs * 2 // 3
            for k in range(3):
                notes.append(("%st%d" % (pid, k), start + bar // 2 + k * u, u, "DEF"[k], None, 4 + sh, 1, 1))
        else:
            notes.append(("%sb" % pid, start + bar // 2, bar // 4, "D", 1, 4 + sh, 1, 1))
        if tie:
            notes.append(("%sc" % pid, start + bar - bar // 4, bar // 4, "A", None, 3 + sh, 1, 1))
            notes.append(("%sct" % pid, start + bar, bar // 2, "A", None, 3 + sh, 1, 1))
            ties.append(("%sc" % pid, "%sct" % pid))
        notes.append(("%sd" % pid, start + bar + bar // 2, bar // 2 + bar, "E", -1, 5 + sh, 1, 1))  # spans a barline without tie objects
        if voice2:
            notes.append(("%sv" % pid, start, bar, "C", None, 1 + sh, 2, 1))
            notes.append(("%sw" % pid, start + bar, bar * 2, "G", None, 1 + sh, 2, 1))
        if grace:
            graces.append(("%sg" % pid, start + bar // 2, "B", None, 4 + sh, 1, 1, "%sb" % pid))
        # (a mark that is not a whole number, one whose quarter tempo does not divide a minute evenly, one on a doubly dotted unit)
        tempi = [(0, 63.5, "q"), (start + bar, 60, "q."), (start + 2 * bar, 44, "e..")]
        part = G.build_part(pid, divs, ts=((0, ts[0], ts[1]),), notes=notes, ties=ties, graces=graces, measures=meas, key=(1, "major"),
                            extra=(lambda p, b: [p.add(sc.Tempo(bpm, unit), t) for t, bpm, unit in tempi]))
        part._verif_tempi = tempi   # what was asked for, kept apart from the objects the library holds
        return part

    out.append(("divs1", lambda: G.simple_score([one(1, tie=False)])))
    out.append(("divs6_pickup_triplet", lambda: G.simple_score([one(6, pickup=6, triplet=True, voice2=True)])))
    out.append(("divs7", lambda: G.simple_score([one(7, grace=True)])))
    out.append(("two_parts_2_3", lambda: G.simple_score([one(2, pid="P1", voice2=True), one(3, pid="P2", triplet=True)])))
    out.append(("three_parts_4_6_480_pickup", lambda: G.simple_score([one(4, pickup=4, pid="P1"), one(6, pickup=6, pid="P2", triplet=True), one(480, pickup=480, pid="P3", grace=True)])))
    out.append(("six_eight_divs12", lambda: G.simple_score([one(12, ts=(6, 8), pickup=6, triplet=True)])))

    # divisions that do not divide the running lcm, in descending / mixed order (the ticks per quarter must be the lcm of ALL of them)
    out.append(("two_parts_8_6", lambda: G.simple_score([one(8, pid="P1"), one(6, pid="P2", triplet=True)])))
    out.append(("three_parts_12_8_3", lambda: G.simple_score([one(12, pid="P1", triplet=True), one(8, pid="P2"), one(3, pid="P3", tie=False)])))
    # meters whose bar is not a whole number of quarters, with a pickup longer than the bar rounded down to quarters
    out.append(("three_eight_pickup_two_eighths", lambda: G.simple_score([one(4, ts=(3, 8), pickup=4)])))
    out.append(("five_eight_pickup_four_eighths", lambda: G.simple_score([one(2, ts=(5, 8), pickup=4, tie=False)])))

    def polymetric():
        # the metre changes in ONE part only (4/4 -> 3/4 -> 6/8 in P2, 4/4 throughout in P1): every part keeps its own signatures
        p1, p2 = one(4, pid="P1"), one(4, pid="P2", tie=False)
        p2.add(sc.TimeSignature(3, 4), 16)
        p2.add(sc.TimeSignature(6, 8), 28)
        return G.simple_score([p1, p2])
    out.append(("metre_changes_in_one_part_only", polymetric))

    # a note of one voice begins on the pitch and at the moment at which a note of another voice ends (touching, not overlapping)
    out.append(("a_voice_takes_over_the_pitch_another_voice_releases", lambda: G.simple_score([G.build_part("P1", 4, notes=[
        ("e", 0, 4, "E", None, 4, 1, 1), ("c2", 0, 4, "C", None, 4, 2, 1), ("c1", 4, 4, "C", None, 4, 1, 1), ("x", 8, 8, "D", None, 4, 1, 1), ("y", 8, 8, "C", None, 4, 2, 1)],
        measures=[(0, 16)], key=(0, "major"))])))

    # spellings across the octave boundary (B sharp sounds the C above, C flat the B below), and the bottom of the MIDI range (below A0)
    out.append(("b_sharp_c_flat_and_sub_contra_notes", lambda: G.simple_score([G.build_part("P1", 4, notes=[
        ("s0", 0, 4, "B", 1, 3, 1, 1), ("s1", 4, 4, "C", -1, 5, 1, 1), ("s2", 8, 4, "B", 2, 4, 1, 1), ("s3", 12, 4, "C", -2, 4, 1, 1),
        ("l0", 16, 4, "C", None, 0, 1, 1), ("l1", 20, 4, "G", 1, 0, 1, 1), ("l2", 24, 4, "E", None, -1, 1, 1), ("l3", 28, 4, "A", None, 0, 1, 1)],
        measures=[(0, 16), (16, 32)], key=(0, "major"))])))

    def lead_in():
        # the first time signature stands two quarters into the piece (an unmetered lead-in), not at its start
        p = sc.Part("P1", quarter_duration=4)
        p.add(sc.TimeSignature(3, 4), 8)
        p.add(sc.KeySignature(-1, "major"), 8)
        p.add(sc.Measure(number=1), 8, 20)
        p.add(sc.Measure(number=2), 20, 32)
        for (nid, s_, e_, st) in (("u0", 0, 4, "G"), ("u1", 4, 8, "A"), ("a", 8, 14, "C"), ("b", 14, 20, "E"), ("c", 20, 32, "G")):
            p.add(sc.Note(step=st, octave=4, id=nid, voice=1, staff=1), s_, e_)
        return G.simple_score([p])
    out.append(("first_time_signature_after_an_unmetered_lead_in", lead_in))

    def with_change_12_8():
        p = sc.Part("P1", quarter_duration=12)
        p.set_quarter_duration(48, 8)
        p.add(sc.TimeSignature(4, 4), 0)
        p.add(sc.Measure(number=1), 0, 48)
        p.add(sc.Measure(number=2), 48, 80)
        for (nid, s, e, st, v) in (("a", 0, 16, "C", 1), ("b", 16, 44, "E", 1), ("c", 44, 51, "G", 1), ("d", 51, 80, "A", 1)):
            p.add(sc.Note(step=st, octave=4, id=nid, voice=v, staff=1), s, e)
        return G.simple_score([p])
    out.append(("divisions_change_12_to_8_inside_part", with_change_12_8))

    def with_history():
        # divisions set to 6 at the second barline and then set back to 4 at the same time: the part has 4 divisions per quarter throughout
        p = sc.Part("P1", quarter_duration=4)
        p.set_quarter_duration(16, 6)
        p.set_quarter_duration(16, 4)
        p._verif_intended_quarter_changes = [(0, 4)]
        p.add(sc.TimeSignature(4, 4), 0)
        p.add(sc.Measure(number=1), 0, 16)
        p.add(sc.Measure(number=2), 16, 32)
        for (nid, s_, e_, st) in (("a", 0, 6, "C"), ("b", 6, 16, "E"), ("c", 16, 23, "G"), ("d", 23, 32, "A")):
            p.add(sc.Note(step=st, octave=4, id=nid, voice=1, staff=1), s_, e_)
        return G.simple_score([p])
    out.append(("divisions_changed_and_changed_back_at_one_time", with_history))

    def with_change():
        # divisions change inside the part: 2 -> 3 at the second barline; a note held over the change
        p = sc.Part("P1", quarter_duration=2)
        p.set_quarter_duration(8, 3)
        p.add(sc.TimeSignature(4, 4), 0)
        p.add(sc.Measure(number=1), 0, 8)
        p.add(sc.Measure(number=2), 8, 20)
        for (nid, s, e, st, v) in (("a", 0, 4, "C", 1), ("b", 4, 11, "E", 1), ("c", 11, 20, "G", 1), ("d", 0, 14, "C", 2), ("e", 14, 20, "F", 2)):
            p.add(sc.Note(step=st, octave=4 - (v - 1), id=nid, voice=v, staff=1), s, e)
        return G.simple_score([p])
    out.append(("divisions_change_inside_part", with_change))
    if tier == "thorough":
        out.append(("divs24_divs12", lambda: G.simple_score([one(24, pid="P1", triplet=True, grace=True), one(12, pid="P2", pickup=12)])))
        out.append(("divs3_no_tie", lambda: G.simple_score([one(3, tie=False, triplet=True)])))
    return out


def _stale_state(b):
    """a part whose maps were read, then whose opening bar is edited, is exported like a part built in its final state"""
    import io
    import partitura as pt
    import partitura.score as sc
    from gen import scores as G

    def base(ts0, bars):
        p = sc.Part("P1", quarter_duration=4)
        p.add(sc.TimeSignature(*ts0), 0)
        for i, (s_, e_) in enumerate(bars):
            p.add(sc.Measure(number=i + 1), s_, e_)
        for (nid, s_, e_, st) in (("a", 0, 4, "C"), ("b", 4, 12, "E"), ("c", 12, 20, "G"), ("d", 20, 36, "A")):
            p.add(sc.Note(step=st, octave=4, id=nid, voice=1, staff=1), s_, e_)
        return p
    edits = {
        "bar_lines_added_so_that_the_first_bar_is_a_pickup": (lambda: base((4, 4), []), lambda p: [p.add(sc.Measure(number=i + 1), s_, e_) for i, (s_, e_) in enumerate([(0, 4), (4, 20), (20, 36)])],
                                                              lambda: base((4, 4), [(0, 4), (4, 20), (20, 36)])),
        "first_time_signature_replaced": (lambda: base((3, 4), [(0, 4), (4, 20), (20, 36)]),
                                          lambda p: [p.remove(next(iter(p.iter_all(sc.TimeSignature)))), p.add(sc.TimeSignature(4, 4), 0)],
                                          lambda: base((4, 4), [(0, 4), (4, 20), (20, 36)])),
    }
    # a tie chain read (its total length), then edited behind its first note: the end of the continuation moved, a third note tied on
    def tied(second_end=48, third=None):
        p = base((4, 4), [(0, 4), (4, 20), (20, 36), (36, 52), (52, 68)])
        e_, f_ = sc.Note(step="B", octave=4, id="e", voice=1, staff=1), sc.Note(step="B", octave=4, id="f", voice=1, staff=1)
        p.add(e_, 36, 44)
        p.add(f_, 44, second_end)
        e_.tie_next, f_.tie_prev = f_, e_
        if third:
            g_ = sc.Note(step="B", octave=4, id="g", voice=1, staff=1)
            p.add(g_, second_end, third)
            f_.tie_next, g_.tie_prev = g_, f_
        return p

    def move_end(p):
        f_ = [n for n in p.iter_all(sc.Note) if n.id == "f"][0]
        p.remove(f_, "end")
        p.add(f_, None, 52)

    def tie_on(p):
        f_ = [n for n in p.iter_all(sc.Note) if n.id == "f"][0]
        g_ = sc.Note(step="B", octave=4, id="g", voice=1, staff=1)
        p.add(g_, 48, 60)
        f_.tie_next, g_.tie_prev = g_, f_
    edits["end_of_a_tied_continuation_moved"] = (lambda: tied(), move_end, lambda: tied(52))
    edits["a_third_note_tied_onto_a_chain"] = (lambda: tied(), tie_on, lambda: tied(48, 60))
    for name, (mk0, edit, mk1) in edits.items():
        for read in ("note_array", "save_score_midi", "quarter_map"):
            for ana in ("shift", "pad_bar", "time_sig_change"):
                case = {"history": name, "read_before_the_edit": read, "anacrusis": ana}
                p = mk0()
                sco = G.simple_score([p])
                try:
                    if read == "note_array":
                        p.note_array()
                    elif read == "quarter_map":
                        p.quarter_map(0), p.beat_map(0)
                    else:
                        pt.save_score_midi(sco, io.BytesIO(), anacrusis_behavior=ana)
                    edit(p)
                    b1, b2 = io.BytesIO(), io.BytesIO()
                    pt.save_score_midi(sco, b1, anacrusis_behavior=ana)
                    pt.save_score_midi(G.simple_score([mk1()]), b2, anacrusis_behavior=ana)
                except Exception as e:
                    b.case("export/no_exception", False, case, "%s: %s" % (type(e).__name__, e))
                    continue
                b.case("export/a_part_edited_after_a_read_is_exported_like_a_part_built_in_that_state", b1.getvalue() == b2.getvalue(), case,
                       "the file written after reading and editing differs from the file of a part built directly in the final state")


def _read_file(mf):
    """absolute-tick view of a MIDI file: notes (track, channel, on, off, pitch, velocity), metas (track, tick, msg)"""
    notes, metas = [], []
    for tr, track in enumerate(mf.tracks):
        t = 0
        sounding = {}
        for msg in track:
            t += msg.time
            if msg.type == "note_on" and msg.velocity > 0:
                sounding.setdefault((msg.channel, msg.note), []).append((t, msg.velocity))
            elif msg.type == "note_off" or (msg.type == "note_on" and msg.velocity == 0):
                st = sounding.get((msg.channel, msg.note))
                if st:
                    on, vel = st.pop(0)
                    notes.append((tr, msg.channel, on, t, msg.note, vel))
            elif msg.is_meta:
                metas.append((tr, t, msg))
    return notes, metas


def _qpm_of(tp):
    unit = (tp.unit or "q").strip()
    return Fraction(tp.bpm) * S.note_value(unit.rstrip(".")) * S.dot_multiplier(unit.count("."))


def bounded(b):
    import mido
    import partitura as pt
    import partitura.score as sc
    from gen import oracles as O
    scores = _scores(b.tier)
    combos = list(itertools.product(range(6), ("shift", "pad_bar", "time_sig_change"), (0, 96, 480)))
    if b.tier == "quick":
        import random
        rng = random.Random(b.seed)
        combos = [(m, "shift", 0) for m in range(6)] + [(0, "time_sig_change", 0), (3, "pad_bar", 96)] + rng.sample(combos, 8)
        combos = list(dict.fromkeys(combos))
    b.rules.append("generated scores (%d: divisions 1,2,3,4,6,7,12,480 across parts, a divisions change inside a part with notes held over it, "
                   "triplets, 6/8, pickups, grace notes, ties and untied notes over barlines, two voices) x (mode, pickup policy, minimum_ppq) "
                   "combinations (%d); contract: ppq = lcm doubled to the minimum, every note tick = ppq * (exact quarter position - origin), "
                   "tied notes merged, requested velocity, signatures/tempo at their positions, re-import gives the same (onset, duration, "
                   "pitch) in quarters, same mode recovers the grouping; non-trivial = every case" % (len(scores), len(combos)))
    b.scopes.append("%d scores x %d configurations" % (len(scores), len(combos)))
    for sname, mk in scores:
        for (mode, ana, minppq) in combos:
            case = {"score": sname, "mode": mode, "anacrusis": ana, "minimum_ppq": minppq, "velocity": 77}
            if sname == "first_time_signature_after_an_unmetered_lead_in" and ana != "shift":
                continue  # the two other policies are defined for a pickup under the first signature; what they do to a lead-in before it is not stated
            score = mk()
            buf = io.BytesIO()
            ok, _ = b.guard("export/no_exception", case, lambda: pt.save_score_midi(score, buf, part_voice_assign_mode=mode, velocity=77, anacrusis_behavior=ana, minimum_ppq=minppq))
            if not ok:
                continue
            buf.seek(0)
            mf = mido.MidiFile(file=buf)
            base = O.lcm([q for p in score.parts for (_, q) in O.quarter_changes(p)])
            ppq = base
            while ppq < minppq:
                ppq *= 2
            b.case("export/ppq_is_lcm_of_divisions_doubled_to_minimum", mf.ticks_per_beat == ppq, case, "ticks_per_beat %r, expected %r" % (mf.ticks_per_beat, ppq))
            first = min(O.quarter_pos(p, 0) if p.first_point.t <= 0 else O.quarter_pos(p, p.first_point.t) for p in score.parts)
            ftp = Fraction(0)
            if first < 0:
                if ana in ("shift", "time_sig_change"):
                    ftp = first
                else:
                    cands = []
                    for p in score.parts:
                        ts = O.ts_in_force(p, 0)
                        cands.append((O.quarter_pos(p, 0), Fraction(ts.beats * 4, ts.beat_type)))
                    cands.sort(key=lambda x: x[0])
                    ftp = -cands[0][1]
            want = []
            exact = True
            for p in score.parts:
                for (on, dur, pitch, n) in O.sounding_notes(p):
                    t_on = mf.ticks_per_beat * (O.quarter_pos(p, on) - ftp)
                    t_off = mf.ticks_per_beat * (O.quarter_pos(p, on + dur) - ftp)
                    if t_on.denominator != 1 or t_off.denominator != 1:
                        exact = False
                    want.append((t_on, t_off, pitch))
            notes, metas = _read_file(mf)
            got = sorted((Fraction(on), Fraction(off), pitch) for (_, _, on, off, pitch, _) in notes)
            b.case("export/every_tick_is_the_exact_image_of_the_musical_time", exact and got == sorted(want), case,
                   "file has (on, off, pitch) %r, exact images are %r" % ([(int(a), int(c), p) for a, c, p in got][:12], [(str(a), str(c), p) for a, c, p in sorted(want)][:12]))
            b.case("export/requested_velocity_used", all(v == 77 for (_, _, _, _, _, v) in notes), case, "velocities %r" % sorted({v for (_, _, _, _, _, v) in notes}))
            # signatures and tempo at their musical positions
            okm, whatm = True, ""
            for p in score.parts:
                for ks in p.iter_all(sc.KeySignature):
                    t = mf.ticks_per_beat * (O.quarter_pos(p, ks.start.t) - ftp)
                    if not any(m.type == "key_signature" and tk == t for (_, tk, m) in metas):
                        okm, whatm = False, "key signature not at tick %s" % t
                for tsg in p.iter_all(sc.TimeSignature):
                    t = mf.ticks_per_beat * (O.quarter_pos(p, tsg.start.t) - ftp)
                    if ana == "pad_bar" and tsg.start.t == 0:
                        t = 0
                    if ana != "time_sig_change" and not any(m.type == "time_signature" and tk == t and (m.numerator, m.denominator) == (tsg.beats, tsg.beat_type) for (_, tk, m) in metas):
                        okm, whatm = False, "time signature %d/%d not at tick %s" % (tsg.beats, tsg.beat_type, t)
                    if ana == "time_sig_change":
                        # documented policy: a measure whose length is not that of its signature gets a signature of its own length, the
                        # notated one follows at its end; a signature at the start of a measure of the notated length is written as it is
                        ms = [m_ for m_ in p.iter_all(sc.Measure) if m_.start.t == tsg.start.t]
                        if ms:
                            mbeats = O._integral(p, ms[0].start.t, ms[0].end.t, "beat")
                            has = lambda tick, num, den: any(m.type == "time_signature" and tk == tick and (m.numerator, m.denominator) == (num, den) for (_, tk, m) in metas)
                            if mbeats == tsg.beats:
                                if not has(t, tsg.beats, tsg.beat_type):
                                    okm, whatm = False, "time signature %d/%d of a measure of the notated length not at tick %s" % (tsg.beats, tsg.beat_type, t)
                            elif mbeats.denominator == 1 and ms[0].start.t == p.first_point.t:
                                t_end = mf.ticks_per_beat * (O.quarter_pos(p, ms[0].end.t) - ftp)
                                later = [x for x in p.iter_all(sc.TimeSignature) if x.start.t > tsg.start.t]
                                if not has(t, int(mbeats), tsg.beat_type) or (not later and not has(t_end, tsg.beats, tsg.beat_type)):
                                    okm, whatm = False, "pickup of %s beats under %d/%d: expected %s/%d at tick %s and %d/%d at tick %s" % (mbeats, tsg.beats, tsg.beat_type, mbeats, tsg.beat_type, t, tsg.beats, tsg.beat_type, t_end)
                class _T:
                    def __init__(self, t, bpm, unit):
                        self.t, self.bpm, self.unit = t, bpm, unit
                asked = [_T(*x) for x in getattr(p, "_verif_tempi", [(tp.start.t, tp.bpm, tp.unit) for tp in p.iter_all(sc.Tempo)])]
                for tp in asked:
                    t = mf.ticks_per_beat * (O.quarter_pos(p, tp.t) - ftp)
                    if not any(m.type == "set_tempo" and tk == t and tr == 0 for (tr, tk, m) in metas):
                        okm, whatm = False, "tempo mark not in the first track at tick %s" % t
                    # the mark's beat unit counts: q. = 60 is 90 quarters per minute
                    unit = (tp.unit or "q").strip()
                    qpm = Fraction(tp.bpm) * S.note_value(unit.rstrip(".")) * S.dot_multiplier(unit.count("."))
                    want_mpq = Fraction(60 * 10**6) / qpm
                    if not any(m.type == "set_tempo" and tk == t and abs(m.tempo - want_mpq) <= Fraction(1, 2) + Fraction(1, 10**6) for (tr, tk, m) in metas):
                        okm, whatm = False, "tempo %r %r at tick %s written as %r microseconds per quarter, the mark means %s (to the nearest whole microsecond)" % (
                            tp.bpm, tp.unit, t, [m.tempo for (tr, tk, m) in metas if m.type == "set_tempo" and tk == t], float(want_mpq))
            b.case("export/signatures_and_tempo_at_their_positions", okm, case, whatm)
            # re-import
            buf.seek(0)
            ok, back = b.guard("import/no_exception", case, lambda: pt.load_score_midi(mido.MidiFile(file=buf), part_voice_assign_mode=mode))
            if not ok:
                continue
            got_q = sorted((round(float(r["onset_quarter"]) - float(min(x["onset_quarter"] for pp in back.parts for x in pp.note_array())), 6), round(float(r["duration_quarter"]), 6), int(r["pitch"]))
                           for pp in back.parts for r in pp.note_array())
            shift = min(w[0] for w in want)
            want_q = sorted((round(float((w[0] - shift) / mf.ticks_per_beat), 6), round(float((w[1] - w[0]) / mf.ticks_per_beat), 6), w[2]) for w in want)
            b.case("import/same_onset_duration_pitch_in_quarters", got_q == want_q, case, "re-imported %r, expected %r" % (got_q[:10], want_q[:10]))
            # the tempo marks come back at their positions with their values (a file holds whole microseconds per quarter: 0.01 qpm)
            if ana == "shift" and all(hasattr(p, "_verif_tempi") for p in score.parts) and len(set(repr(p._verif_tempi) for p in score.parts)) == 1:
                p0 = score.parts[0]
                w_tm = sorted((round(float(O.quarter_pos(p0, t) - O.quarter_pos(p0, p0.first_point.t)), 6), float(Fraction(bpm) * S.note_value(u.rstrip(".")) * S.dot_multiplier(u.count("."))))
                              for t, bpm, u in p0._verif_tempi)
                bad_tm, seen_tm = None, 0
                for pp in back.parts:
                    # (the marks of a file stand in its first track: they come back on the part read from it, at least on one part)
                    if not list(pp.iter_all(sc.Tempo)):
                        continue
                    seen_tm += 1
                    g_tm = sorted((round(float(O.quarter_pos(pp, t.start.t) - O.quarter_pos(pp, pp.first_point.t)), 6), float(_qpm_of(t))) for t in pp.iter_all(sc.Tempo))
                    if len(g_tm) != len(w_tm) or any(a_[0] != b_[0] or abs(a_[1] - b_[1]) > 0.01 for a_, b_ in zip(g_tm, w_tm)):
                        bad_tm = "re-imported part %s has the tempo marks (quarters from the start, quarters per minute) %r, written %r" % (pp.id, g_tm, w_tm)
                if not seen_tm:
                    bad_tm = "no re-imported part has a tempo mark, written %r" % (w_tm,)
                b.case("import/tempo_marks_at_their_positions_with_their_values", bad_tm is None, case, bad_tm or "")
            # each part keeps its own time signatures where the mode keeps the parts apart (0, 1, 3: one part per part)
            # (the parts of a score share their barlines: a score in which one part opens with an upbeat bar and another does not is not
            # something a MIDI file - one meter track for all - can hold apart, and is left out of this clause)
            def _first_bar(p_):
                ms_ = sorted((m_.start.t, m_.end.t) for m_ in p_.iter_all(sc.Measure))
                return (O.quarter_pos(p_, ms_[0][1]) - O.quarter_pos(p_, ms_[0][0])) if ms_ else None
            if mode in (0, 1, 3) and len(back.parts) == len(score.parts) and ana == "shift" and len({_first_bar(p_) for p_ in score.parts}) == 1:
                def tsl(p):
                    o = p.first_point.t
                    return sorted((round(float(O.quarter_pos(p, t.start.t) - O.quarter_pos(p, o)), 6), int(t.beats), int(t.beat_type)) for t in p.iter_all(sc.TimeSignature))
                w_ts, g_ts = [tsl(p) for p in score.parts], [tsl(p) for p in back.parts]
                b.case("import/each_part_has_the_time_signatures_of_its_source", sorted(map(repr, w_ts)) == sorted(map(repr, g_ts)), case,
                       "time signatures per part (quarters from the part's start, beats, beat type) %r, written %r" % (g_ts, w_ts))
            # grouping under the same mode.  What a mode keeps: 0 part+voice; 1 part; 3 part; 5 (part, voice) as parts; 4 nothing.
            # Mode 2 writes parts into channels of one track while the importer's mode 2 is documented to ignore channels
            # (one part, voices by track): only "notes that shared a part and voice still do" can be asked of it.
            orig_groups = {}
            for pi, p in enumerate(score.parts):
                for (on, dur, pitch, n) in O.sounding_notes(p):
                    key = {0: (pi, n.voice), 1: (pi,), 2: (pi,), 3: (pi,), 4: (), 5: (pi, n.voice)}[mode]
                    orig_groups.setdefault(key, []).append(pitch)
            back_groups = {}
            for pi, pp in enumerate(back.parts):
                for n in pp.iter_all(sc.Note, include_subclasses=True):
                    if n.tie_prev is not None:
                        continue
                    key = {0: (pi, n.voice), 1: (pi,), 2: (), 3: (pi,), 4: (), 5: (pi,)}[mode]
                    back_groups.setdefault(key, []).append(n.midi_pitch)
            sig = lambda groups: sorted(sorted(int(x) for x in g) for g in groups.values())
            if mode == 2:
                good = len(back_groups) == 1
            else:
                good = sig(orig_groups) == sig(back_groups)
            b.case("import/same_mode_recovers_grouping_into_parts_and_voices", good, case,
                   "groups by pitch content: original %r, re-imported %r" % (sig(orig_groups), sig(back_groups)))
    _stale_state(b)
