"""C09 - unfolding repeats concatenates segments along a valid path and nothing else.

Tier P/closed: path policy arithmetic (`Path.list_of_destinations_from_last_segment` against a spec over all small
               destination/used lists), `ScoreVariant.add_segment` offset arithmetic (SMT, all integer times).
Tier F:       the unfold entry points do not write their argument (frame obligations, effect analysis).
Tier B:       generated parts in a small repeat grammar (simple and nested repeats, 1st/2nd/3rd endings incl. "1,2", da capo,
               fine) x update_ids x policies against an independent play-order oracle (bounded).
"""
from fractions import Fraction
import itertools

from pyv.contracts import Contract, Int, Obj, Enum, Spec
from pyv.sym import sand

LEVEL = "other"
MANIFEST = {
    "level": "other",
    "technique": "contract-based: SMT contract on ScoreVariant.add_segment, closed exhaustive contract on the path policy, frame contracts (effect analysis) on the unfold entry points, bounded run-time contract check against an independent play-order oracle",
    "text": "Offsets/length bookkeeping of ScoreVariant.add_segment is proved for all integer segment times; the three destination policies of Path are checked exhaustively against a spec function for every destination list of length <= 4 and every history of used jumps of length <= 3; 'the original part is not modified' is a frame obligation on each unfold entry point; the whole-unfolding clauses (play order, per-visit copies, no repeat marks left, references stay inside the copy, 2^r variants, equal part without repeats) are run-time contracts on generated parts in a stated repeat grammar (bounded).",
    "note": "deepcopy trusted; the play-order oracle covers simple/nested repeats, voltas and da capo/fine - dal segno/coda forms are outside the generated grammar; segment discovery (add_segments) is only exercised, not under SMT contract",
}
EXPLANATION = "SMT on the offset arithmetic, exhaustive policy contract, frames by effect analysis, bounded oracle comparison for whole unfoldings."


def _sc():
    import partitura.score as sc
    return sc


# ------------------------------------------------------------------------------------------------ P
def _mk_tp(t, **kw):
    return _sc().TimePoint(t)


def _call_add_segment(ip, f, a):
    sc = _sc()
    if ip is None:
        sv = sc.ScoreVariant(None, a.t0)
        sv.segments = list(a.prev)
        f(sv, a.start, a.end)
        return sv
    sv = ip.new_symobj(sc.ScoreVariant, t_unfold=a.t0, segments=list(a.prev), part=None)
    ip.call(f, [sv, a.start, a.end], {})
    return sv


CONTRACTS = [
    Contract("C09", "partitura.score.ScoreVariant.add_segment",
             [("t0", Int(0, None)), ("prev", Enum([[], [("x", "y", 0)]])),
              ("start", Obj("partitura.score.TimePoint", make=_mk_tp, t=Int(0, None))),
              ("end", Obj("partitura.score.TimePoint", make=_mk_tp, t=Int(0, None)))],
             requires=[("segment_is_forward", lambda a: a.start.t <= a.end.t)],
             call=_call_add_segment,
             ensures=[("length_grows_by_segment_length", lambda a, r: r.t_unfold == a.t0 + (a.end.t - a.start.t)),
                      ("segment_recorded_with_its_offset", lambda a, r: len(r.segments) == len(a.prev) + 1 and r.segments[-1][0] is a.start
                       and r.segments[-1][1] is a.end and r.segments[-1][2] == a.t0 and r.segments[:-1] == a.prev)]),
]


# ------------------------------------------------------------------------------------------------ closed: path policy
def _spec_destinations(dests, used, no_repeats, all_repeats, force):
    """property wording: minimal -> the last destination; maximal/forced -> the destination after the last used one (cyclically),
    the first one when nothing was used; default -> all destinations after the last used one (all of them when exhausted or unused)"""
    if no_repeats:
        return [dests[-1]]
    if used:
        last = used[-1]
        cnt = used.count(last)
        occ = [i for i, d in enumerate(dests * 100) if d == last][cnt - 1] % len(dests)
    if all_repeats or force:
        if not used:
            return [dests[0]]
        return [dests[occ + 1]] if occ < len(dests) - 1 else [dests[0]]
    if not used:
        return list(dests)
    return list(dests[occ + 1:]) if occ < len(dests) - 1 else list(dests)


def closed_path_policy():
    sc = _sc()
    n = 0
    ids = ["A", "B", "C", "END"]
    for k in range(1, 4):
        for dests in itertools.product(ids, repeat=k):
            for ul in range(0, 3):
                for used in itertools.product(dests, repeat=ul):
                    for no_rep, all_rep, force in ((True, False, False), (False, True, False), (False, False, False), (False, False, True), (True, True, False)):
                        n += 1
                        seg = sc.Segment("S", list(dests), [], force_seq=force)
                        p = sc.Path(["S"], {"S": seg}, no_repeats=no_rep, all_repeats=all_rep)
                        p.used_segment_jumps["S"] = list(used)
                        want = _spec_destinations(list(dests), list(used), no_rep, all_rep, force)
                        try:
                            got = list(p.list_of_destinations_from_last_segment)
                        except Exception as e:
                            return False, n, {"input": [dests, used, no_rep, all_rep, force], "what": "raised %s: %s" % (type(e).__name__, e)}
                        if got != want:
                            return False, n, {"input": [list(dests), list(used), no_rep, all_rep, force], "what": "destinations %r, policy says %r" % (got, want)}
                        if list(seg.to) != list(dests):
                            return False, n, {"input": [list(dests), list(used)], "what": "query modified the segment's destinations"}
    return True, n, ""


def closed_path_copy_is_independent():
    """Path.copy / make_copy_with_jump_to write only the fresh path: the shared segments and the source path are untouched"""
    sc = _sc()
    n = 0
    for typ_a, typ_b in itertools.product(["default", "leap_start", "leap_end"], repeat=2):
        for await_to in ([], ["C"]):
            for ignore in (True, False):
                n += 1
                segs = {"A": sc.Segment("A", ["B", "A"], list(await_to), type=typ_a), "B": sc.Segment("B", ["END"], [], type=typ_b),
                        "C": sc.Segment("C", ["END"], [])}
                snap = {k: (list(s.to), list(s.await_to), s.type) for k, s in segs.items()}
                p = sc.Path(["A"], segs)
                q = p.make_copy_with_jump_to("B", ignore_leap_info=ignore)
                if {k: (list(s.to), list(s.await_to), s.type) for k, s in segs.items()} != snap:
                    return False, n, {"input": [typ_a, typ_b, await_to, ignore], "what": "make_copy_with_jump_to changed a segment shared with the source path"}
                if p.path != ["A"] or dict(p.used_segment_jumps) not in ({}, {"A": []}):
                    return False, n, {"input": [typ_a, typ_b], "what": "source path modified"}
                if q.path != ["A", "B"] or (not q.jumped and q.used_segment_jumps["A"] != ["B"]):
                    return False, n, {"input": [typ_a, typ_b], "what": "copy does not record the jump"}
    return True, n, ""


CLOSED = [("path_destination_policy", closed_path_policy), ("path_copy_writes_only_the_fresh_path", closed_path_copy_is_independent)]


def FRAMES():
    from . import c20
    want = ("unfold_part_maximal", "unfold_part_minimal", "iter_unfolded_parts")
    out = [f for f in c20._frames() if f.get("label") in want]
    out.append({"target": "partitura.score.make_score_variants", "param": "part", "modifies": [], "confirm": None})
    out.append({"target": "partitura.score.get_paths", "param": "part", "modifies": [], "confirm": None})
    out.append({"target": "partitura.score.new_part_from_path", "param": "part", "modifies": [], "confirm": None})
    return out


# ------------------------------------------------------------------------------------------------ bounded: play-order oracle
D = 4  # divisions per measure (4/4, divs 1)


def build_repeat_part(n, repeats=(), endings=(), dacapo=None, fine=None, tie=None, slur=None, divs_change=None, ts_change=None,
                      segno=None, dalsegno=None, tocoda=None, coda=None, grace_chain=None, slur_built="complete", unpitched_tie=None):
    """n measures, each with one whole note of pitch 60+i (id n<i>); marks at measure boundaries"""
    sc = _sc()
    part = sc.Part("P", quarter_duration=1)
    part.add(sc.TimeSignature(4, 4), 0)
    if divs_change is not None:
        part.set_quarter_duration(D * divs_change, 1)  # redundant on purpose; a real change would change measure lengths
    notes = []
    for i in range(n):
        part.add(sc.Measure(number=i + 1, name=str(i + 1)), D * i, D * (i + 1))
        nt = sc.Note(step="CDEFGAB"[i % 7], octave=4 + i // 7, voice=1, staff=1, id="n%d" % i)
        part.add(nt, D * i, D * (i + 1))
        notes.append(nt)
    if ts_change is not None:
        part.add(sc.TimeSignature(2, 2), D * ts_change)
    for (s, e) in repeats:
        part.add(sc.Repeat(), D * s, D * (e + 1))
    for (num, s, e) in endings:
        part.add(sc.Ending(num), D * s, D * (e + 1))
    if dacapo is not None:
        part.add(sc.DaCapo(), D * (dacapo + 1))
    if fine is not None:
        part.add(sc.Fine(), D * (fine + 1))
    if segno is not None:
        part.add(sc.Segno(), D * segno)
    if dalsegno is not None:
        part.add(sc.DalSegno(), D * (dalsegno + 1))
    if tocoda is not None:
        part.add(sc.ToCoda(), D * (tocoda + 1))
    if coda is not None:
        part.add(sc.Coda(), D * coda)
    if tie is not None:
        a, b = notes[tie], notes[tie + 1]
        a.tie_next, b.tie_prev = b, a
    if slur is not None:
        a, b = notes[slur[0]], notes[slur[1]]
        if slur_built == "complete":
            sl = sc.Slur(a, b)
        elif slur_built == "end_later":          # the way the MusicXML reader builds every slur: the start, then the end when it is met
            sl = sc.Slur(a)
            sl.end_note = b
        else:                                     # the stop met first
            sl = sc.Slur(None, b)
            sl.start_note = a
        part.add(sl, a.start.t, b.end.t)
    if unpitched_tie is not None:
        # a percussion voice: two unpitched notes tied over the barline between measure i and i+1 (voice 2)
        u0 = sc.UnpitchedNote(step="F", octave=3, voice=2, staff=1, id="u%d" % unpitched_tie)
        u1 = sc.UnpitchedNote(step="F", octave=3, voice=2, staff=1, id="u%d" % (unpitched_tie + 1))
        part.add(u0, D * unpitched_tie, D * (unpitched_tie + 1))
        part.add(u1, D * (unpitched_tie + 1), D * (unpitched_tie + 2))
        u0.tie_next, u1.tie_prev = u1, u0
    if grace_chain is not None:
        # a run of three grace notes before the note of that measure
        main = notes[grace_chain]
        gs = [sc.GraceNote("grace", step="ABC"[k], octave=5, voice=1, staff=1, id="g%d_%d" % (grace_chain, k)) for k in range(3)]
        for g in gs:
            part.add(g, main.start.t, main.start.t)
        for x, y in zip(gs, gs[1:] + [main]):
            x.grace_next = y
            if isinstance(y, sc.GraceNote):
                y.grace_prev = x
    return part


def oracle(n, repeats, endings, dacapo, fine, mode, segno=None, dalsegno=None, tocoda=None, coda=None, repeats_after_leap=True):
    """measure play order, from the notation.  mode 'max': each repeated section the notated number of times (2, or the highest
    ending number) with the matching ending; da capo honoured once, repeats taken again after the leap, stop at Fine after it.
    mode 'min': every section once, of a group of endings only the last one, no leap."""
    vol = {}
    for (num, s, e) in endings:
        for m in range(s, e + 1):
            vol[m] = {int(x) for x in num.split(",")}
    allnums = set().union(*[{int(x) for x in num.split(",")} for (num, _, _) in endings]) if endings else set()
    if mode == "min":
        return [m for m in range(n) if m not in vol or max(allnums) in vol[m]]
    total = {}
    for rep in repeats:
        s, e = rep
        has_volta = any(s <= vs <= e for (_, vs, _) in endings)
        total[rep] = max(allnums) if has_volta else 2
    rep_of_end = {e: (s, e) for (s, e) in repeats}
    count = {rep: 1 for rep in repeats}
    seq, after_dc, i, guard = [], False, 0, 0
    while i < n and guard < 500:
        guard += 1
        if i in vol:
            encl = [rep for rep in repeats if rep[0] <= i and any(rep[0] <= vs <= rep[1] for (_, vs, _) in endings)]
            rep = max(encl, key=lambda r: r[0]) if encl else None
            cur = count.get(rep, 1) if rep else 1
            if after_dc and not repeats_after_leap:
                cur = max(allnums)  # after the leap every section once, with its last ending
            if cur not in vol[i]:
                i += 1
                continue
        seq.append(i)
        if fine is not None and i == fine and after_dc:
            break
        if i in rep_of_end and not (after_dc and not repeats_after_leap):
            rep = rep_of_end[i]
            if count[rep] < total[rep]:
                count[rep] += 1
                for r2 in repeats:  # inner repeats start over on every pass of the outer one
                    if r2 != rep and rep[0] <= r2[0] and r2[1] <= rep[1]:
                        count[r2] = 1
                i = rep[0]
                continue
        if dacapo is not None and i == dacapo and not after_dc:
            after_dc = True
            count = {rep: 1 for rep in repeats}
            i = 0
            continue
        if dalsegno is not None and i == dalsegno and not after_dc:
            after_dc = True
            count = {rep: 1 for rep in repeats}
            i = segno
            continue
        if after_dc and tocoda is not None and coda is not None and i == tocoda:
            i = coda
            continue
        i += 1
    return seq


def grammar(tier):
    cases = [
        ("no_repeats", dict(n=3)),
        ("simple_repeat", dict(n=3, repeats=[(0, 1)])),
        ("repeat_in_middle", dict(n=4, repeats=[(1, 2)])),
        ("two_repeats", dict(n=5, repeats=[(0, 1), (3, 3)])),
        ("nested_repeats", dict(n=5, repeats=[(0, 3), (1, 2)])),
        ("volta_1_2", dict(n=4, repeats=[(0, 1)], endings=[("1", 1, 1), ("2", 2, 2)])),
        ("volta_12_3", dict(n=5, repeats=[(0, 1)], endings=[("1,2", 1, 1), ("3", 2, 2)])),
        ("dacapo_fine", dict(n=4, dacapo=3, fine=1)),
        ("repeat_then_dacapo_fine", dict(n=4, repeats=[(0, 0)], dacapo=3, fine=1)),
        ("three_repeats_six_segments_last_one_repeated", dict(n=6, repeats=[(1, 1), (3, 3), (5, 5)])),
        ("repeat_fine_dacapo_variants", dict(n=3, repeats=[(0, 0)], dacapo=2, fine=1)),
        ("dacapo_without_fine", dict(n=3, dacapo=2)),
        ("volta_then_dacapo_fine", dict(n=5, repeats=[(0, 1)], endings=[("1", 1, 1), ("2", 2, 2)], dacapo=4, fine=2)),
        ("two_repeats_then_dalsegno_fine", dict(n=5, repeats=[(1, 1), (2, 2)], segno=1, dalsegno=4, fine=3)),
        ("dalsegno_at_the_end", dict(n=4, segno=1, dalsegno=3)),
        ("dalsegno_al_fine", dict(n=4, segno=1, dalsegno=3, fine=2)),
        ("dacapo_followed_by_more_music", dict(n=4, dacapo=2)),
        ("dalsegno_al_coda", dict(n=5, segno=1, dalsegno=3, tocoda=2, coda=4)),
        ("dacapo_al_coda", dict(n=4, dacapo=2, tocoda=0, coda=3)),
        ("repeat_then_dacapo_without_fine", dict(n=2, repeats=[(0, 0)], dacapo=1)),
        ("tie_over_repeat_boundary", dict(n=3, repeats=[(0, 1)], tie=1)),
        ("tie_inside_repeat", dict(n=3, repeats=[(0, 1)], tie=0)),
        ("slur_inside_repeat", dict(n=3, repeats=[(0, 1)], slur=(0, 1))),
        ("slur_inside_repeat_end_attached_later", dict(n=3, repeats=[(0, 1)], slur=(0, 1), slur_built="end_later")),
        ("slur_inside_repeat_start_attached_later", dict(n=3, repeats=[(0, 1)], slur=(0, 1), slur_built="start_later")),
        ("tied_unpitched_notes_inside_repeat", dict(n=3, repeats=[(0, 1)], unpitched_tie=0)),
        ("ts_change_inside_repeat", dict(n=4, repeats=[(1, 2)], ts_change=2)),
        ("slur_across_boundary", dict(n=4, repeats=[(1, 2)], slur=(0, 2))),
        ("grace_run_inside_repeat", dict(n=3, repeats=[(0, 1)], grace_chain=1)),
    ]
    if tier == "thorough":
        cases += [("three_repeats", dict(n=6, repeats=[(0, 0), (2, 3), (5, 5)])),
                  ("nested_with_tail", dict(n=6, repeats=[(0, 4), (2, 3)])),
                  ("volta_and_second_repeat", dict(n=6, repeats=[(0, 1), (4, 4)], endings=[("1", 1, 1), ("2", 2, 2)])),
                  ]
    return cases


def _measure_seq(part):
    sc = _sc()
    notes = sorted(part.iter_all(sc.Note), key=lambda x: x.start.t)
    return [("CDEFGAB".index(x.step) + 7 * (x.octave - 4)) for x in notes], notes


def bounded(b):
    sc = _sc()
    from gen import scores as G
    cases = grammar(b.tier)
    b.rules.append("parts of 3..6 one-note measures in a repeat grammar (%d shapes: none, simple, two, nested repeats, 1st/2nd and '1,2'/3rd "
                   "endings, da capo al fine, tie/slur across or inside a repeat, signature change inside) x {maximal, minimal, all variants} "
                   "x update_ids; contract: play order = independent oracle, length = sum of visited measures, per-visit copies unchanged, "
                   "no Repeat/Ending/DaCapo/DalSegno/ToCoda left, references inside the copy, 2^r variants, second call equal, original untouched; "
                   "non-trivial = shape with >= 1 repeat/jump" % len(cases))
    b.scopes.append("%d shapes x 3 unfold entry points x update_ids" % len(cases))
    for name, kw in cases:
        mk = lambda: build_repeat_part(**kw)
        n = kw["n"]
        reps, ends = kw.get("repeats", ()), kw.get("endings", ())
        nontriv = bool(reps or kw.get("dacapo") is not None or kw.get("dalsegno") is not None)
        nav = {k: kw.get(k) for k in ("segno", "dalsegno", "tocoda", "coda")}
        jump_at = kw.get("dacapo") if kw.get("dacapo") is not None else kw.get("dalsegno")
        mid_jump = jump_at is not None and jump_at < n - 1  # music follows the jump mark (as with a coda)
        bounds = {x for (s_, e_) in reps for x in (s_, e_ + 1)} | {x for (_, s_, e_) in ends for x in (s_, e_ + 1)}
        crosses = kw.get("slur") is not None and any(kw["slur"][0] < x <= kw["slur"][1] for x in bounds)
        for upd in (True, False):
            case = {"shape": name, "update_ids": upd}
            if mid_jump:
                case["jump_mark_followed_by_more_music"] = True
            if crosses:
                case["range_crosses_a_segment_boundary"] = True
            part = mk()
            before = G.fingerprint(part)
            ok, un = b.guard("unfold/maximal_no_exception", case, lambda: sc.unfold_part_maximal(part, update_ids=upd))
            if not ok:
                continue
            b.case("unfold/original_not_modified", G.fingerprint(part) == before, case, "fingerprint of the original changed", nontrivial=nontriv)
            seq, notes = _measure_seq(un)
            want = oracle(n, reps, ends, kw.get("dacapo"), kw.get("fine"), "max", **nav)
            b.case("unfold/maximal_play_order", seq == want, case, "measures played %r, notation says %r" % (seq, want), nontrivial=nontriv)
            if seq == want:
                _check_copy(b, case, part, un, want, upd, nontriv)
            ok2, un2 = b.guard("unfold/maximal_no_exception", case, lambda: sc.unfold_part_maximal(part, update_ids=upd))
            if ok2:
                b.case("unfold/second_call_same_result", G.fingerprint(un2) == G.fingerprint(un), case, "second unfolding differs", nontrivial=nontriv)
        if jump_at is not None and not mid_jump:
            # ignore_leaps=False (documented): after the da capo / dal segno the repeats are not taken again
            case = {"shape": name, "ignore_leaps": False}
            part = mk()
            ok, un = b.guard("unfold/maximal_no_exception", case, lambda: sc.unfold_part_maximal(part, update_ids=False, ignore_leaps=False))
            if ok:
                seq, _ = _measure_seq(un)
                want = oracle(n, reps, ends, kw.get("dacapo"), kw.get("fine"), "max", repeats_after_leap=False, **nav)
                b.case("unfold/maximal_play_order", seq == want, case, "measures played %r, with repeats not taken after the leap the notation says %r" % (seq, want), nontrivial=nontriv)
        case = {"shape": name}
        if mid_jump:
            case["jump_mark_followed_by_more_music"] = True
        part = mk()
        before = G.fingerprint(part)
        ok, un = b.guard("unfold/minimal_no_exception", case, lambda: sc.unfold_part_minimal(part))
        if ok:
            seq, _ = _measure_seq(un)
            want = oracle(n, reps, ends, kw.get("dacapo"), kw.get("fine"), "min", **nav)
            b.case("unfold/minimal_play_order", seq == want, case, "measures played %r, expected each section once with the last ending %r" % (seq, want), nontrivial=nontriv)
            b.case("unfold/original_not_modified", G.fingerprint(part) == before, case, "fingerprint of the original changed (minimal)", nontrivial=nontriv)
        ok, variants = b.guard("unfold/variants_no_exception", case, lambda: list(sc.iter_unfolded_parts(part)))
        if ok:
            b.case("unfold/original_not_modified", G.fingerprint(part) == before, case, "fingerprint of the original changed (iter_unfolded_parts)", nontrivial=nontriv)
            simple = not ends and kw.get("dacapo") is None and kw.get("dalsegno") is None and all(not (a != c and a[0] <= c[0] and c[1] <= a[1]) for a in reps for c in reps)
            if simple:
                b.case("unfold/two_to_the_r_variants", len(variants) == 2 ** len(reps), case, "%d variants for %d independent simple repeats" % (len(variants), len(reps)), nontrivial=nontriv)
            seqs = [_measure_seq(v)[0] for v in variants]
            if not reps and not ends and kw.get("dacapo") is None and kw.get("dalsegno") is None:
                plain = list(sc.iter_unfolded_parts(part, update_ids=False))
                b.case("unfold/no_repeat_structure_gives_equal_part", len(plain) == 1 and _same_content(part, plain[0]), case,
                       "a part without repeat structure does not unfold to an equal part")
            # ids suffixed with the visit number (the default of iter_unfolded_parts), whatever the number of variants: the k-th copy
            # of a note in time order is called <id>-k
            onames = {(x.step, x.octave): x.id for x in part.iter_all(sc.Note)}
            okid, whatid = True, ""
            for vi, v in enumerate(variants):
                seen = {}
                for nt in sorted(v.iter_all(sc.Note), key=lambda x: x.start.t):
                    key_ = (nt.step, nt.octave)
                    seen[key_] = seen.get(key_, 0) + 1
                    if key_ in onames and nt.id != "%s-%d" % (onames[key_], seen[key_]):
                        okid, whatid = False, "variant %d of %d: copy %d of note %s is called %r" % (vi + 1, len(variants), seen[key_], onames[key_], nt.id)
            if len(onames) == len(list(part.iter_all(sc.Note))):
                b.case("unfold/per_visit_copies", okid, dict(case, entry="iter_unfolded_parts"), whatid, nontrivial=nontriv)
            for v in variants:
                left = [type(o).__name__ for cls in (sc.Repeat, sc.Ending, sc.DaCapo, sc.DalSegno, sc.ToCoda) for o in v.iter_all(cls)]
                b.case("unfold/no_repeat_marks_left", not left, case, "unfolded part still contains %r" % left, nontrivial=nontriv)
    _score_inputs(b)
    _divisions_inside_repeat(b)
    _alignment_unfolding(b)


def _score_inputs(b):
    """a Score of two parts with the same repeat structure and different notes: each part of the result is the unfolding of THAT part"""
    sc = _sc()
    from gen import scores as G
    for name, kw in (("simple_repeat", dict(n=3, repeats=[(0, 1)])), ("volta_1_2", dict(n=4, repeats=[(0, 1)], endings=[("1", 1, 1), ("2", 2, 2)]))):
        for fn_name, kwargs in (("unfold_part_maximal", {}), ("unfold_part_minimal", {}), ("unfold_part_maximal", {"update_ids": True, "ignore_leaps": False}),
                                ("unfold_part_maximal", {"update_ids": False, "ignore_leaps": True})):
            case = {"shape": name, "argument": "Score of two parts", "function": fn_name, "options": kwargs}
            pa, pb = build_repeat_part(**kw), build_repeat_part(**kw)
            pb.id = "Q"
            for nt in pb.iter_all(sc.Note):
                nt.octave -= 2
                nt.id = "q" + nt.id
            fn = (lambda f_, k_: (lambda x: f_(x, **k_)))(getattr(sc, fn_name), kwargs)
            alone = [fn(build_repeat_part(**kw)), None]
            pb2 = build_repeat_part(**kw)
            for nt in pb2.iter_all(sc.Note):
                nt.octave -= 2
                nt.id = "q" + nt.id
            alone[1] = fn(pb2)
            score = G.simple_score([pa, pb])
            ok, res = b.guard("unfold/score_no_exception", case, lambda: fn(score))
            if not ok:
                continue
            parts = list(res.parts) if hasattr(res, "parts") else list(res)
            sig = lambda p: [(x.start.t, x.end.t, x.step, x.octave, x.id) for x in sorted(p.iter_all(sc.Note), key=lambda x: (x.start.t, x.octave))]
            b.case("unfold/each_part_of_a_score_is_unfolded_from_its_own_notes", len(parts) == 2 and [sig(p) for p in parts] == [sig(a) for a in alone], case,
                   "parts of the unfolded score hold %r, the parts unfolded alone %r" % ([sig(p)[:3] for p in parts], [sig(a)[:3] for a in alone]))


def _divisions_inside_repeat(b):
    """divisions set before a repeated section and changed inside it: every copy keeps the duration IN QUARTERS of its original"""
    sc = _sc()
    from gen import oracles as O
    for name, q0, q1, spans, rep, later in (("four_then_eight_divisions_changed_inside_the_repeat", 4, 8, [(0, 16), (16, 32), (32, 64), (64, 96)], (16, 64), ()),
                                            ("six_then_four_divisions_changed_inside_the_repeat", 6, 4, [(0, 24), (24, 48), (48, 64), (64, 80)], (24, 64), ()),
                                            # three values: one before the repeated section, one from its start, one well after its end
                                            ("two_then_four_at_the_repeat_then_eight_after_it", 2, 4, [(0, 8), (8, 24), (8, 24), (24, 40), (40, 56), (56, 88)], (8, 40), ((56, 8),)),
                                            ("three_changes_the_last_two_after_the_repeat", 2, 4, [(0, 8), (8, 24), (8, 24), (24, 40), (40, 56), (56, 88), (88, 100)], (8, 40), ((56, 8), (88, 3)))):
        spans = [x for i_, x in enumerate(spans) if x not in spans[:i_]]

        def mk():
            p = sc.Part("P", quarter_duration=q0)
            p.set_quarter_duration(spans[1][0] if later else spans[2][0], q1)
            for t_, q_ in later:
                p.set_quarter_duration(t_, q_)
            p.add(sc.TimeSignature(4, 4), 0)
            for i, (s_, e_) in enumerate(spans):
                p.add(sc.Measure(number=i + 1), s_, e_)
                p.add(sc.Note("CDEFGAB"[i], 4, id="n%d" % i, voice=1, staff=1), s_, e_)
            p.add(sc.Repeat(), rep[0], rep[1])
            return p
        for fn_name in ("unfold_part_maximal", "unfold_part_minimal"):
            case = {"shape": name, "function": fn_name}
            part = mk()
            orig_q = {n.step: O._integral(part, n.start.t, n.end.t, "quarter") for n in part.iter_all(sc.Note)}
            ok, un = b.guard("unfold/maximal_no_exception", case, lambda: getattr(sc, fn_name)(part))
            if not ok:
                continue
            bad = None
            pos = Fraction(0)
            for n in sorted(un.iter_all(sc.Note), key=lambda x: x.start.t):
                dq = O._integral(un, n.start.t, n.end.t, "quarter")
                if dq != orig_q[n.step]:
                    bad = bad or "copy %s lasts %s quarters, its original %s" % (n.id, dq, orig_q[n.step])
                if O._integral(un, un.first_point.t, n.start.t, "quarter") != pos:
                    bad = bad or "copy %s starts %s quarters into the part, the visited segments before it last %s" % (n.id, O._integral(un, un.first_point.t, n.start.t, "quarter"), pos)
                pos += orig_q[n.step]
            b.case("unfold/copies_keep_their_duration_in_quarters_under_the_divisions_of_their_segment", bad is None, case, bad or "")


def _alignment_unfolding(b):
    """unfold_part_alignment returns the variant that the performance took: the measures in the order in which the alignment's note ids visit them"""
    sc = _sc()
    for name, kw, paths in (("two_repeats", dict(n=4, repeats=[(0, 0), (2, 2)]), ([0, 1, 2, 3], [0, 0, 1, 2, 3], [0, 1, 2, 2, 3], [0, 0, 1, 2, 2, 3])),
                            ("one_repeat", dict(n=3, repeats=[(0, 1)]), ([0, 1, 2], [0, 1, 0, 1, 2])),
                            ("three_repeats", dict(n=5, repeats=[(0, 0), (2, 2), (4, 4)]), ([0, 1, 2, 2, 3, 4], [0, 1, 2, 3, 4, 4], [0, 0, 1, 2, 3, 4, 4])),
                            ("no_repeats", dict(n=3), ([0, 1, 2],))):
        for path in paths:
            part = build_repeat_part(**kw)
            visits, al = {}, []
            for k, m in enumerate(path):
                visits[m] = visits.get(m, 0) + 1
                al.append(dict(label="match", score_id="n%d-%d" % (m, visits[m]), performance_id="p%d" % k))
            case = {"shape": name, "performed_measures": path}
            al_before = [dict(a) for a in al]
            ok, un = b.guard("unfold/alignment_no_exception", case, lambda: sc.unfold_part_alignment(part, al))
            if not ok:
                continue
            seq, notes = _measure_seq(un)
            b.case("unfold/alignment_play_order", seq == path, case, "the returned part plays the measures %r, the performance %r" % (seq, path))


def _same_content(a, b):
    sc = _sc()

    def sig(p):
        return [(type(o).__name__, o.start.t, o.end.t if o.end else None, getattr(o, "id", None), getattr(o, "step", None), getattr(o, "octave", None),
                 getattr(o, "voice", None), getattr(o, "staff", None)) for o in p.iter_all(sc.GenericNote, include_subclasses=True)] + \
               [(m.start.t, m.end.t, m.number) for m in p.measures] + [(t.start.t, t.beats, t.beat_type) for t in p.iter_all(sc.TimeSignature)]
    return sig(a) == sig(b)


def _check_copy(b, case, orig, un, want, upd, nontriv):
    sc = _sc()
    onotes = {("CDEFGAB".index(x.step) + 7 * (x.octave - 4)): x for x in orig.iter_all(sc.Note)}
    notes = sorted(un.iter_all(sc.Note), key=lambda x: x.start.t)
    ok, what = True, ""
    visits = {}
    for k, (m, nt) in enumerate(zip(want, notes)):
        o = onotes[m]
        visits[m] = visits.get(m, 0) + 1
        if (nt.start.t, nt.end.t - nt.start.t, nt.voice, nt.staff, nt.step, nt.octave) != (D * k, o.end.t - o.start.t, o.voice, o.staff, o.step, o.octave):
            ok, what = False, "copy %d of measure %d not at the shifted position with unchanged pitch/duration/voice/staff" % (visits[m], m)
        total = want.count(m)
        expect_id = "%s-%d" % (o.id, visits[m]) if upd else o.id
        if upd and nt.id != expect_id:
            ok, what = False, "id %r, expected %r" % (nt.id, expect_id)
        if not upd and nt.id != o.id:
            ok, what = False, "id changed although update_ids is off"
    b.case("unfold/per_visit_copies", ok, case, what, nontrivial=nontriv)
    b.case("unfold/length_is_sum_of_visited_segments", (un.last_point.t - un.first_point.t) == D * len(want), case,
           "length %r, sum of visited segments %r" % (un.last_point.t - un.first_point.t, D * len(want)), nontrivial=nontriv)
    inside = set(map(id, un.iter_all()))
    pts = set(map(id, un._points))
    # a slur or tuplet whose two notes lie in different segments: "references between copied objects stay inside the copy" says where a
    # reference may point, not that a reference leaving the segment survives; there an empty (None) end is accepted, a foreign one is not
    crossing = bool(case.get("range_crosses_a_segment_boundary"))
    ok, what = True, ""
    # (the attribute names are listed here, not taken from the objects' own registration of what is to be remapped)
    REFS = ("tie_next", "tie_prev", "grace_next", "grace_prev", "slur_starts", "slur_stops", "tuplet_starts", "tuplet_stops", "_start_note", "_end_note")
    for o in un.iter_all():
        for attr in sorted(set(getattr(o, "_ref_attrs", [])) | {a_ for a_ in REFS if hasattr(o, a_)}):
            v = getattr(o, attr, None)
            for x in (v if isinstance(v, list) else [v]):
                if x is not None and id(x) not in inside:
                    ok, what = False, "%s.%s of a copied object points outside the copy" % (type(o).__name__, attr)
    for p in un._points:
        for q in (p.prev, p.next):
            if q is not None and id(q) not in pts:
                ok, what = False, "time point neighbour outside the copy"
    for nt in notes:
        for q in (nt.tie_next, nt.tie_prev):
            if q is not None and (q.tie_prev is not nt and q.tie_next is not nt):
                ok, what = False, "one-sided tie link in the copy"
    for g in un.iter_all(sc.GraceNote):
        nx, pv = g.grace_next, g.grace_prev
        if nx is None or id(nx) not in inside or (isinstance(nx, sc.GraceNote) and nx.grace_prev is not g):
            ok, what = False, "grace note %s: the next note of its run is %r (outside the copy, or not linked back)" % (g.id, getattr(nx, "id", None))
        if pv is not None and (id(pv) not in inside or pv.grace_next is not g):
            ok, what = False, "grace note %s: the previous note of its run is %r (outside the copy, or not linked forward)" % (g.id, getattr(pv, "id", None))
        orig_g = next((x for x in orig.iter_all(sc.GraceNote) if g.id.split("-")[0] == x.id), None)
        if orig_g is not None and (orig_g.grace_prev is None) != (pv is None):
            ok, what = False, "grace note %s: its original %s a previous grace note, the copy %s" % (g.id, "has" if orig_g.grace_prev is not None else "has not", "has" if pv is not None else "has not")
    # both directions of every slur / tuplet link: the copied range object names its notes, and those notes list that very object
    for rng, sa, ea in [(x, "slur_starts", "slur_stops") for x in un.iter_all(sc.Slur)] + [(x, "tuplet_starts", "tuplet_stops") for x in un.iter_all(sc.Tuplet)]:
        a, z = rng.start_note, rng.end_note
        if crossing and (a is None or z is None) and all(x is None or id(x) in inside for x in (a, z)):
            continue  # the other end lies in another segment: the copy of this visit has no object to name (the library warns "substituting None")
        if a is None or z is None or id(a) not in inside or id(z) not in inside:
            ok, what = False, "%s in the copy has start/end note %r/%r outside the copy" % (type(rng).__name__, getattr(a, "id", None), getattr(z, "id", None))
        elif not any(x is rng for x in getattr(a, sa)) or not any(x is rng for x in getattr(z, ea)):
            ok, what = False, "%s %s..%s: the notes' %s/%s do not list it (%r / %r)" % (type(rng).__name__, a.id, z.id, sa, ea, getattr(a, sa), getattr(z, ea))
    for nt in notes:
        for attr in ("slur_starts", "slur_stops", "tuplet_starts", "tuplet_stops"):
            if any((x is None and not crossing) or (x is not None and id(x) not in inside) for x in getattr(nt, attr)):
                ok, what = False, "note %s: %s holds %r (lost or outside the copy)" % (nt.id, attr, getattr(nt, attr))
    b.case("unfold/references_stay_inside_the_copy", ok, case, what, nontrivial=nontriv)
