"""C11 - adding measures and tying notes normalise notation without changing what sounds.

Tier P:      `estimate_symbolic_duration` on its table branches (single and composite notated values, the "> 4 quarters" rejection):
             symbolic integer duration, divisions by case split; postcondition from the property: converting the estimate back
             gives the numeric duration, or nothing is estimated.
closed-eval: the estimator over EVERY divisions value 1..960 x every duration 1..8*divs (thorough; quick: 40 divisions values) incl.
             the tuplet branch; find_smallest_unit, order_splits, find_tie_split tilings.
Tier B:      add_measures against a tiling oracle; tie_notes / find_tuplets / fill_rests / sanitize_part keep the note array (bounded).
"""
import itertools
from fractions import Fraction

import numpy as np

from pyv.contracts import Contract, Int, Enum
from pyv.sym import sand, sor, Sym
from . import specfns as S

LEVEL = "other"
MANIFEST = {
    "level": "other",
    "technique": "contract-based: SMT contract on estimate_symbolic_duration (real source, symbolic duration); exhaustive closed evaluation of the estimator over all divisions 1..960; bounded run-time contract checks of add_measures (tiling oracle) and tie_notes/find_tuplets/fill_rests/sanitize_part (note array invariance)",
    "text": "For each divisions value of a representative set the estimator is proved, for ALL integer durations reaching its table branches, to return either nothing or a notated value whose numeric duration is exactly the input; the full estimator (tuplet branch included) is evaluated exhaustively for every divisions value 1..960 and every duration up to eight quarters in the thorough tier. Measure filling and the normalisers are run-time contracts on generated parts (bounded).",
    "note": "floats as exact reals in the SMT contract; the tuplet-guessing loop is outside the SMT subset (closed evaluation only); the library's second tie pass (splitting into expressible values) never runs because the symbolic-duration getter returns {} rather than None - observed, not a clause of this property",
}
EXPLANATION = "Estimator: SMT on table branches + exhaustive closed evaluation; normalisers and measure filling: bounded run-time contracts."

DIVS_P = [1, 2, 3, 4, 6, 12, 480, 960]


def _g():
    import partitura.utils.globals as g
    return g


def _numeric(sd, div):
    """numeric duration of a symbolic duration dict under `div` (spec side: exact rationals)"""
    v = Fraction(div) * S.note_value(sd["type"]) * S.dot_multiplier(sd.get("dots", 0))
    if sd.get("actual_notes"):
        v = v * Fraction(sd["normal_notes"], sd["actual_notes"])
    return v


def _table_region(a):
    """the estimator's table branches: duration within its tolerance of a single or composite notated value, or longer than 4 quarters, or 0"""
    g = _g()
    q = a.dur / a.div
    eps = Fraction(1, 1000)
    # (the tolerance is in units of divisions)
    near = [sand((q - Fraction(float(d))) * a.div < eps, (Fraction(float(d)) - q) * a.div < eps) for d in list(g.DURS) + list(g.COMPOSITE_DURS)]
    return sor(a.dur == 0, q > 4, *near)


def _post_estimate(a, r):
    if isinstance(r, dict):
        if not r:
            return True
        return _numeric(r, a.div) == a.dur
    # composite durations (tuple of dicts): tied values add up
    return sum(_numeric(x, a.div) for x in r) == a.dur


CONTRACTS = [
    Contract("C11", "partitura.utils.music.estimate_symbolic_duration",
             [("dur", Int(0, None)), ("div", Enum(DIVS_P)), ("eps", Enum([10**-3])), ("return_com_durations", Enum([False, True]))],
             requires=[("duration_reaches_a_table_branch", _table_region)], float_mode="real", split="div", max_paths=400000,
             ensures=[("estimate_converts_back_to_the_numeric_duration_or_nothing_is_estimated", _post_estimate)]),
]


# ------------------------------------------------------------------------------------------------ closed
def closed_estimator_exhaustive(divs_list):
    def run():
        from partitura.utils.music import estimate_symbolic_duration, symbolic_to_numeric_duration
        n = 0
        for div in divs_list:
            for dur in range(1, 8 * div + 1):
                n += 1
                r = estimate_symbolic_duration(dur, div)
                if r:
                    back = _numeric(r, div)
                    if back != dur:
                        return False, n, {"input": {"dur": dur, "div": div}, "what": "estimate %r evaluates to %s divisions, not %d" % (r, back, dur)}
                    lib = symbolic_to_numeric_duration(r, div)
                    if abs(lib - dur) > 1e-9:
                        return False, n, {"input": {"dur": dur, "div": div}, "what": "symbolic_to_numeric_duration(%r) = %r" % (r, lib)}
        return True, n, ""
    return run


def closed_estimates_are_independent():
    """an estimate handed out is the caller's own: editing it in place does not change what the estimator returns afterwards"""
    import copy
    from partitura.utils.music import estimate_symbolic_duration
    n = 0
    for divs in (1, 2, 4, 6, 12, 480):
        for dur in range(1, 8 * divs + 1, max(1, divs // 4)):
            first = estimate_symbolic_duration(dur, divs)
            if not isinstance(first, dict):
                continue
            n += 1
            keep = copy.deepcopy(first)
            first["actual_notes"], first["normal_notes"], first["dots"], first["type"] = 3, 2, 7, "long"
            again = estimate_symbolic_duration(dur, divs)
            if again != keep:
                return False, n, {"input": [dur, divs], "what": "after editing the first estimate in place the estimator returns %r instead of %r" % (again, keep)}
    return True, n, ""


def closed_split_helpers():
    from partitura.utils.music import find_smallest_unit, order_splits, find_tie_split, estimate_symbolic_duration
    n = 0
    for d in range(1, 961):
        n += 1
        u = find_smallest_unit(d)
        if u % 2 == 0 or d % u != 0 or (d // u) & (d // u - 1):
            return False, n, {"input": d, "what": "find_smallest_unit(%d) = %d is not the odd part" % (d, u)}
    for (s, e, u) in itertools.product(range(0, 13), range(1, 20), (1, 2, 3, 4)):
        if e <= s:
            continue
        n += 1
        r = [int(x) for x in order_splits(s, e, u)]
        if any(not (s < x < e) or x % u != 0 for x in r) or len(set(r)) != len(r):
            return False, n, {"input": [s, e, u], "what": "order_splits gives %r (must lie strictly inside and on the unit grid, without repeats)" % r}
    spans = [(divs, start, length) for divs in (1, 2, 4, 6, 12, 16, 480) for start in (0, 1, divs) for length in list(range(1, 8 * divs + 1))[:: max(1, divs // 8)]]
    # long notes that begin off the coarse grid: they need two or three split points (the quantifier's "two to four tied values")
    spans += [(divs, start, length) for divs in (2, 4) for start in (1, 3, 5) for length in range(8 * divs + 1, 18 * divs + 1)]
    for divs, start, length in spans:
            if True:
                n += 1
                end = start + length
                r = find_tie_split(start, end, divs)
                if r is None:
                    continue
                if r[0][0] != start or r[-1][1] != end or any(a[1] != b2[0] for a, b2 in zip(r[:-1], r[1:])):
                    return False, n, {"input": [start, end, divs], "what": "pieces %r do not tile [start, end]" % r}
                for (lo, hi, sd) in r:
                    if not sd or _numeric(sd, divs) != hi - lo:
                        return False, n, {"input": [start, end, divs], "what": "piece (%d,%d) has symbolic duration %r" % (lo, hi, sd)}
                if len(r) > 4:
                    return False, n, {"input": [start, end, divs], "what": "more than four tied values"}
    return True, n, ""


def _closed():
    import os
    tier = os.environ.get("VERIF_TIER", "quick")
    import sys
    if "--tier" in sys.argv:
        tier = sys.argv[sys.argv.index("--tier") + 1]
    if tier == "thorough":
        divs = list(range(1, 961))
    else:
        divs = sorted(set(list(range(1, 25)) + [30, 32, 36, 48, 60, 64, 96, 120, 128, 192, 240, 256, 384, 480, 768, 840, 960]))
    return [("estimator_roundtrip_all_durations_for_%d_divisions_values" % len(divs), closed_estimator_exhaustive(divs)),
            ("split_helpers_unit_grid_and_tilings", closed_split_helpers),
            ("estimates_are_independent_objects", closed_estimates_are_independent)]


class _LazyClosed(list):
    def __iter__(self):
        return iter(_closed())


CLOSED = _LazyClosed()


# ------------------------------------------------------------------------------------------------ bounded
def measure_oracle(first, last, tss, qchanges, existing):
    """expected measure extents: existing ones kept; uncovered stretches filled from each stretch start with bars of the length the
    signature in force implies, cut by signature changes, existing measures and the end"""
    def q_at(t):
        v = qchanges[0][1]
        for tq, dq in qchanges:
            if tq <= t:
                v = dq
        return v
    tsl = sorted(tss)
    if not tsl or tsl[0][0] > first:
        tsl = [(first, 4, 4)] + tsl
    tsl = [x for x in tsl if x[0] < last]
    out = []
    ex = sorted(existing)
    for i, (ts_t, beats, bt) in enumerate(tsl):
        ts_end = tsl[i + 1][0] if i + 1 < len(tsl) else last
        pos = ts_t
        while pos < ts_end:
            cur = [m for m in ex if m[0] == pos]
            if cur:
                out.append((cur[0][0], cur[0][1], "existing"))
                pos = cur[0][1]
                continue
            # bar length in divisions (divisions may change inside: integrate)
            need = Fraction(beats * 4, bt)
            t = pos
            while need > 0 and t < last:
                nxt = min([x for x, _ in qchanges if x > t] + [last])
                span = Fraction(nxt - t, q_at(t))
                if span >= need:
                    t = t + need * q_at(t)
                    need = 0
                else:
                    need -= span
                    t = nxt
            end = min(Fraction(ts_end), t, Fraction(last))
            nxt_ex = [m for m in ex if pos < m[0] < end]
            if nxt_ex:
                end = Fraction(nxt_ex[0][0])
            out.append((pos, int(end), "new"))
            pos = int(end)
            if nxt_ex:
                out.append((nxt_ex[0][0], nxt_ex[0][1], "existing"))
                pos = nxt_ex[0][1]
    return out


def _measure_cases(tier):
    c = []
    c.append(("no_measures_4_4", dict(divs=4, tss=[(0, 4, 4)], existing=[], last=40)))
    c.append(("cut_by_end", dict(divs=4, tss=[(0, 3, 4)], existing=[], last=29)))
    c.append(("ts_change_cuts", dict(divs=2, tss=[(0, 4, 4), (12, 6, 8)], existing=[], last=30)))
    c.append(("existing_on_grid", dict(divs=4, tss=[(0, 4, 4)], existing=[(16, 32)], last=64)))
    c.append(("existing_off_grid", dict(divs=4, tss=[(0, 4, 4)], existing=[(20, 36)], last=68)))
    c.append(("existing_pickup", dict(divs=4, tss=[(0, 4, 4)], existing=[(0, 4)], last=36)))
    c.append(("two_existing_with_gap", dict(divs=2, tss=[(0, 2, 4)], existing=[(0, 4), (10, 14)], last=22)))
    c.append(("divs_change_inside", dict(divs=2, tss=[(0, 4, 4)], existing=[], last=28, qchanges=[(0, 2), (8, 3)])))
    # the part counts musical beats (two to the bar in 6/8, three in 9/8): the bars are still those of the signature
    c.append(("six_eight_counted_in_musical_beats", dict(divs=4, tss=[(0, 6, 8)], existing=[], last=48, musical=True)))
    c.append(("nine_eight_then_four_four_counted_in_musical_beats", dict(divs=2, tss=[(0, 9, 8), (18, 4, 4)], existing=[(0, 9)], last=34, musical=True)))
    if tier == "thorough":
        c.append(("irregular_existing", dict(divs=4, tss=[(0, 4, 4), (48, 3, 4)], existing=[(16, 22), (22, 48)], last=72)))
        c.append(("ts_not_at_start", dict(divs=4, tss=[(8, 3, 4)], existing=[], last=44)))
    return c


def _build_measure_part(divs, tss, existing, last, qchanges=None, musical=False):
    import partitura.score as sc
    p = sc.Part("P", quarter_duration=divs)
    for t, q in (qchanges or [])[1:]:
        p.set_quarter_duration(t, q)
    for t, b_, bt in tss:
        p.add(sc.TimeSignature(b_, bt), t)
    for i, (s, e) in enumerate(existing):
        p.add(sc.Measure(number=90 + i), s, e)
    p.add(sc.Note("C", 4, id="long", voice=1), 0, last)
    if musical:
        p.use_musical_beat()
    return p


def _note_parts(tier):
    """parts for the normalisers: arbitrary onsets/durations, multi-bar spans, tuplet durations, divs variety"""
    import partitura.score as sc
    from gen import scores as G
    out = []
    out.append(("spans_barlines_divs4", lambda: G.build_part("P", 4, notes=[("a", 0, 20, "C", None, 4, 1, 1), ("b", 20, 5, "D", 1, 4, 1, 1), ("c", 25, 7, "E", None, 4, 1, 1),
                                                                           ("d", 2, 13, "G", None, 3, 2, 1), ("e", 15, 17, "A", -1, 2, 2, 1)], measures="auto")))
    out.append(("triplets_divs6", lambda: G.build_part("P", 6, notes=[("t%d" % i, 4 * i, 4, "CDE"[i % 3], None, 4, 1, 1) for i in range(6)] + [("x", 24, 30, "F", None, 4, 1, 1)], measures="auto")))
    out.append(("ts_change_multibar_divs2", lambda: G.build_part("P", 2, ts=((0, 3, 4), (6, 2, 4)), notes=[("a", 1, 12, "C", None, 4, 1, 1), ("b", 13, 3, "D", None, 4, 1, 1), ("c", 0, 1, "E", None, 5, 1, 1)], measures="auto")))
    out.append(("grace_and_rest_divs12", lambda: G.build_part("P", 12, notes=[("a", 0, 30, "C", None, 4, 1, 1), ("b", 30, 18, "D", None, 4, 1, 1)], rests=[("r", 48, 12, 1, 1)],
                                                             graces=[("g", 30, "B", None, 3, 1, 1, "b")], measures="auto")))
    out.append(("gaps_divs16", lambda: G.build_part("P", 16, notes=[("a", 3, 21, "C", None, 4, 1, 1), ("b", 40, 50, "D", None, 4, 1, 1), ("c", 100, 27, "E", None, 4, 1, 1)], measures="auto")))
    out.append(("divisions_change_at_barline_under_held_note", lambda: G.build_part("P", 4, quarter_changes=[(16, 8)], notes=[("a", 12, 20, "C", None, 4, 1, 1), ("b", 0, 12, "E", None, 4, 1, 1), ("c", 32, 16, "G", None, 4, 1, 1)],
                                                                                       measures=[(0, 16), (16, 48)])))
    def late_then_early():
        # divisions set for a later stretch first and for the opening afterwards, on a part that already has its time points
        # (the part starts out with ONE division per quarter, so that the second call replaces a different value and is not a no-op)
        p = G.build_part("P", 1, notes=[("a", 0, 16, "C", None, 4, 1, 1), ("b", 16, 16, "D", None, 4, 1, 1), ("c", 32, 16, "E", None, 4, 1, 1), ("d", 48, 32, "F", None, 4, 1, 1),
                                        ("lo", 0, 24, "C", None, 3, 2, 1), ("held", 24, 16, "D", None, 3, 2, 1), ("lo2", 40, 56, "E", None, 3, 2, 1)],
                         measures=[(0, 16), (16, 32), (32, 64), (64, 96)])
        p.set_quarter_duration(32, 8)
        p.set_quarter_duration(0, 4)
        return p
    out.append(("divisions_set_for_a_later_stretch_first", late_then_early))
    # a voice that is absent from a whole bar while the other one stops early / starts late in that bar (whole-bar rest next to partial rests)
    out.append(("a_voice_rests_for_a_whole_bar_while_the_other_leaves_gaps", lambda: G.build_part("P", 4, notes=[("a0", 0, 8, "C", None, 5, 1, 1), ("a1", 8, 8, "D", None, 5, 1, 1), ("b0", 0, 16, "C", None, 3, 2, 1),
                                                                                                         ("a2", 16, 12, "E", None, 5, 1, 1), ("a3", 32, 16, "F", None, 5, 1, 1), ("b1", 32, 16, "D", None, 3, 2, 1),
                                                                                                         ("a4", 50, 14, "G", None, 5, 1, 1), ("b2", 64, 16, "E", None, 3, 2, 1), ("a5", 64, 16, "A", None, 5, 1, 1)],
                                                                                                 measures=[(0, 16), (16, 32), (32, 48), (48, 64), (64, 80)])))
    # a tie chain of three notes that do NOT follow each other directly (two gaps): sanitising unties all of it
    def broken_chain():
        p = G.build_part("P", 4, notes=[("x0", 0, 6, "C", None, 4, 1, 1), ("x1", 8, 6, "C", None, 4, 1, 1), ("x2", 18, 4, "C", None, 4, 1, 1), ("y", 16, 16, "D", None, 4, 2, 1)],
                         measures=[(0, 16), (16, 32)])
        byid = {n.id: n for n in p.iter_all(sc.Note)}
        for a_, b_ in (("x0", "x1"), ("x1", "x2")):
            byid[a_].tie_next, byid[b_].tie_prev = byid[b_], byid[a_]
        return p
    out.append(("tie_chain_of_three_notes_with_gaps", broken_chain))
    # two notes already tied to each other, the FIRST of which is longer than its bar: splitting it at the barline keeps the tie to the second
    def tied_pair_first_crosses_barline():
        p = G.build_part("P", 2, notes=[("a", 0, 12, "C", None, 4, 1, 1), ("b", 12, 4, "C", None, 4, 1, 1), ("lo", 0, 16, "E", None, 3, 2, 1)], measures=[(0, 8), (8, 16)])
        byid = {n.id: n for n in p.iter_all(sc.Note)}
        byid["a"].tie_next, byid["b"].tie_prev = byid["b"], byid["a"]
        return p
    out.append(("tied_pair_whose_first_note_crosses_a_barline", tied_pair_first_crosses_barline))
    # a part that was edited before it was barred: a note taken out again (its time points go with it), then measures added
    def edited_by_removal():
        p = G.build_part("P", 4, notes=[("n0", 0, 4, "E", None, 4, 1, 1), ("nx", 8, 6, "F", None, 4, 1, 1), ("n2", 16, 8, "G", None, 4, 1, 1), ("lo1", 4, 20, "C", None, 3, 2, 1), ("lo2", 24, 8, "D", None, 3, 2, 1)], measures=None)
        p.remove([n for n in p.iter_all(sc.Note) if n.id == "nx"][0])
        sc.add_measures(p)
        return p
    out.append(("a_note_removed_before_the_measures_were_added", edited_by_removal))
    # tuplet values under divisions with which the float product of value and ratio falls just short of the whole number
    out.append(("tuplet_values_at_11_divisions", lambda: G.build_part("P", 11, notes=[("a", 0, 15, "C", None, 4, 1, 1), ("b", 15, 14, "D", None, 4, 1, 1), ("c", 29, 30, "E", None, 4, 1, 1), ("lo", 0, 44, "C", None, 3, 2, 1)], measures=[(0, 44), (44, 88)])))
    out.append(("tuplet_values_at_45_and_480_divisions", lambda: G.build_part("P", 45, quarter_changes=[(180, 480)], notes=[("a", 0, 63, "C", None, 4, 1, 1), ("b", 63, 117, "D", None, 4, 1, 1), ("c", 180, 123, "E", None, 4, 1, 1),
                                                                                                                     ("d", 303, 1797, "F", None, 4, 1, 1)], measures=[(0, 180), (180, 2100)])))
    # a voice entering after a silence whose length is not one notated value (5 sixteenths; 17 thirty-seconds)
    out.append(("voice_enters_after_a_composite_silence", lambda: G.build_part("P", 8, notes=[("a", 10, 22, "C", None, 4, 1, 1), ("b", 32, 32, "D", None, 4, 1, 1), ("c", 81, 15, "E", None, 4, 1, 1), ("lo", 0, 96, "C", None, 3, 2, 1)],
                                                                              measures=[(0, 32), (32, 64), (64, 96)])))
    # a grace note that is not linked to its main note (grace_next unset) although a note of its voice starts at its onset
    out.append(("unlinked_grace_note_before_a_note_of_its_voice", lambda: G.build_part("P", 4, notes=[("a", 0, 8, "C", None, 4, 1, 1), ("b", 8, 8, "D", None, 4, 1, 1), ("c", 16, 16, "E", None, 4, 1, 1)],
                                                                                        graces=[("g0", 8, "E", None, 5, 1, 1, None)], measures="auto")))
    if tier == "thorough":
        out.append(("divs480", lambda: G.build_part("P", 480, notes=[("a", 0, 2400, "C", None, 4, 1, 1), ("b", 2400, 600, "D", None, 4, 1, 1), ("c", 3000, 3615, "E", None, 4, 1, 1)], measures="auto")))
        out.append(("divs1", lambda: G.build_part("P", 1, notes=[("a", 0, 7, "C", None, 4, 1, 1), ("b", 7, 2, "D", None, 4, 1, 1)], measures="auto")))
    return out


def _q(part, n):
    """the divisions in force at the note's start, from the part's table of changes (not from the value cached on the time point)"""
    from gen import oracles as O
    return O.q_in_force(part, n.start.t)


def _sounding(part):
    from gen import oracles as O
    return sorted((on, dur, pitch) for (on, dur, pitch, _) in O.sounding_notes(part))


def bounded(b):
    import partitura.score as sc
    mc = _measure_cases(b.tier)
    b.rules.append("add_measures on %d configurations (no measures, cut by the end, cut by a signature change, existing measure on/off the bar grid, "
                   "existing pickup, two existing with a gap, divisions change inside a bar): extents and numbers vs a tiling oracle, existing "
                   "measures in place; normalisers (tie_notes, find_tuplets, fill_rests, sanitize_part) on generated parts (notes over several bars, "
                   "a signature change, triplet runs, grace notes, gaps; divs 2,4,6,12,16): sounding notes unchanged, each pitched note inside one "
                   "measure, chains contiguous with one pitch/voice/staff, assigned symbolic durations evaluate to the numeric ones; non-trivial = all" % len(mc))
    b.scopes.append("%d measure configurations, %d note parts" % (len(mc), len(_note_parts(b.tier))))
    for name, kw in mc:
        case = {"measures": name}
        part = _build_measure_part(**kw)
        existing_objs = [(m, m.start.t, m.end.t) for m in part.iter_all(sc.Measure)]
        ok, _ = b.guard("add_measures/no_exception", case, lambda: sc.add_measures(part))
        if not ok:
            continue
        qch = kw.get("qchanges") or [(0, kw["divs"])]
        want = measure_oracle(part.first_point.t, part.last_point.t, kw["tss"], qch, kw["existing"])
        got = sorted((m.start.t, m.end.t) for m in part.iter_all(sc.Measure))
        b.case("add_measures/covers_exactly_the_uncovered_stretches_with_bars_of_the_signature_length", got == sorted((s, e) for s, e, _ in want), case,
               "measures %r, expected %r" % (got, sorted((s, e) for s, e, _ in want)))
        b.case("add_measures/existing_measures_left_in_place", all(m.start.t == s and m.end.t == e for m, s, e in existing_objs), case, "an existing measure moved")
        nums = [m.number for m in sorted(part.iter_all(sc.Measure), key=lambda m: m.start.t)]
        b.case("add_measures/numbers_consecutive", nums == list(range(1, len(nums) + 1)), case, "measure numbers %r" % nums)
    for name, mk in _note_parts(b.tier):
        # reading the estimated notation of the notes and THEN changing the divisions: the notation in force follows the new divisions
        part = mk()
        case = {"part": name, "op": "read_symbolic_durations_then_double_the_divisions"}
        if len(part._quarter_durations) == 1:
            first = {n.id: (dict(n.symbolic_duration) if isinstance(n.symbolic_duration, dict) else n.symbolic_duration) for n in part.iter_all(sc.GenericNote, include_subclasses=True)}
            ok, _ = b.guard("normalise/no_exception", case, lambda: part.set_quarter_duration(0, 2 * int(part._quarter_durations[0])))
            if ok:
                good, what = True, ""
                for n in part.iter_all(sc.GenericNote, include_subclasses=True):
                    sd = n.symbolic_duration
                    if sd and n.duration and isinstance(sd, dict) and sd.get("type") and _numeric(sd, _q(part, n)) != n.duration:
                        good, what = False, "note %s duration %d but symbolic %r = %s under %d divisions (read as %r before the change)" % (n.id, n.duration, sd, _numeric(sd, _q(part, n)), n.start.quarter, first.get(n.id))
                b.case("normalise/assigned_symbolic_durations_evaluate_to_numeric", good, case, what)
        for op_name in ("tie_notes", "find_tuplets", "fill_rests", "fill_rests_not_measurewise", "sanitize_part", "tie_then_tuplets"):
            case = {"part": name, "op": op_name}
            part = mk()
            before = _sounding(part)
            ops = {"tie_notes": [sc.tie_notes], "find_tuplets": [sc.find_tuplets], "fill_rests": [sc.fill_rests], "sanitize_part": [sc.sanitize_part],
                   "fill_rests_not_measurewise": [lambda p_: sc.fill_rests(p_, measurewise=False)],
                   "tie_then_tuplets": [sc.tie_notes, sc.find_tuplets]}[op_name]
            ok = True
            for op in ops:
                if op in (sc.tie_notes,):
                    ok, _ = b.guard("normalise/no_exception", case, lambda: op(part))
                else:
                    # whether fill_rests / find_tuplets / sanitize_part can process a given part is not a clause of this property
                    # (fill_rests raises on a measure in which no note starts): such runs are skipped, not judged
                    try:
                        op(part)
                    except Exception:
                        ok = False
                if not ok:
                    break
            if not ok:
                continue
            if name == "tie_chain_of_three_notes_with_gaps":
                # (what a chain that is not a chain "sounds" is not defined; what is defined is the state afterwards)
                if op_name == "sanitize_part":
                    pieces = sorted((n.start.t, n.end.t) for n in part.iter_all(sc.Note) if n.id.startswith("x"))
                    rows = sorted((int(r["onset_div"]), int(r["onset_div"] + r["duration_div"])) for r in part.note_array() if int(r["pitch"]) == 60)
                    b.case("normalise/each_note_in_one_measure_chains_contiguous", rows == pieces and all(n.tie_next is None and n.tie_prev is None for n in part.iter_all(sc.Note) if n.id.startswith("x")), case,
                           "after sanitising, the three notes %r appear in the note array as %r; tie links left: %r" % (pieces, rows, [(n.id, getattr(n.tie_prev, "id", None), getattr(n.tie_next, "id", None)) for n in part.iter_all(sc.Note) if n.id.startswith("x")]))
                continue
            b.case("normalise/sounding_notes_unchanged", _sounding(part) == before, case, "sounding notes %r, before %r" % (_sounding(part)[:8], before[:8]))
            if "tie" in op_name or op_name == "sanitize_part":
                good, what = True, ""
                meas = [(m.start.t, m.end.t) for m in part.iter_all(sc.Measure)]
                for n in part.iter_all(sc.Note, include_subclasses=True):
                    if "tie" in op_name and n.duration and not any(s <= n.start.t and n.end.t <= e for s, e in meas):
                        good, what = False, "note %s [%d,%d] not inside one measure" % (n.id, n.start.t, n.end.t)
                    if n.tie_prev is not None and n.tie_prev.tie_next is not n:
                        good, what = False, "note %s names %s as the note it continues, which does not name it as its continuation" % (n.id, n.tie_prev.id)
                    if n.tie_next is not None:
                        m = n.tie_next
                        if m.start.t != n.end.t or (m.step, m.alter, m.octave, m.voice, m.staff) != (n.step, n.alter, n.octave, n.voice, n.staff) or m.tie_prev is not n:
                            good, what = False, "tie chain from %s is not contiguous / changes pitch, voice or staff" % n.id
                b.case("normalise/each_note_in_one_measure_chains_contiguous", good, case, what)
            good, what = True, ""
            for n in part.iter_all(sc.GenericNote, include_subclasses=True):
                sd = n.symbolic_duration
                if sd and n.duration and isinstance(sd, dict) and sd.get("type"):
                    if _numeric(sd, _q(part, n)) != n.duration:
                        good, what = False, "note %s duration %d but symbolic %r = %s under %d divisions" % (n.id, n.duration, sd, _numeric(sd, _q(part, n)), _q(part, n))
                    # ... and the library's own evaluation of the symbolic duration says the same (to float rounding)
                    try:
                        own = float(n.duration_from_symbolic)
                    except Exception as e:
                        own = None
                    if own is not None and abs(own - float(_numeric(sd, _q(part, n)))) > 1e-6:
                        good, what = False, "note %s: symbolic %r evaluates to %s under %d divisions, duration_from_symbolic says %r" % (n.id, sd, _numeric(sd, _q(part, n)), _q(part, n), own)
            b.case("normalise/assigned_symbolic_durations_evaluate_to_numeric", good, case, what)
