"""C17 - spelling, voice and key estimation are total, well-formed and pitch-preserving.

Tier P:      `p2pn` (chromamorphetic pitch -> pitch name): for EVERY chromatic and morphetic pitch (symbolic integers) the spelled note
             sounds exactly the chromatic pitch - so whatever morph the estimator picks, spelled = sounding.
closed-eval: the key-profile matrices are row rotations of one profile per mode (the algebraic reason for transposition
             equivariance); every key name the estimator can return is one of the valid names.
Tier B:      estimate_spelling / estimate_voices / estimate_key on generated note arrays (1..40 rows; simultaneous, overlapping,
             zero-length; every row permutation for <= 4 rows): totality, |alter| <= 2, order independence, voices positive without gaps,
             chord mode, octave/duration-scale invariance and k-semitone equivariance of the key; load_score_midi keeps the file's
             pitches (bounded).
"""
import io
import itertools

import numpy as np

from pyv.contracts import Contract, Int
from . import specfns as S

LEVEL = "other"
MANIFEST = {
    "level": "other",
    "technique": "contract-based: SMT contract on p2pn over the real source (all integer chromatic/morphetic pitches); closed evaluation of the key-profile structure; bounded run-time contract checks of the three estimators and of the MIDI score importer",
    "text": "Spelled pitch = sounding pitch is proved for every (chromatic pitch, morphetic pitch) pair, i.e. independently of the morph estimate; at most a double accidental, order independence, well-formed voices, valid key names and the invariances of key estimation are run-time contracts on generated note arrays (bounded); ties in floating correlations are counted as inconclusive, not as violations.",
    "note": "the estimators themselves (windowed chroma counts, contig mapping, profile correlation) are numpy pipelines outside the SMT subset: bounded only",
}
EXPLANATION = "p2pn proved by SMT for all integers; estimator clauses bounded on generated arrays."


def _p2pn_post(a, r):
    step, alter, octave = r
    # the chromatic pitch counts semitones from A0 (MIDI 21)
    return S.midi_of(step, alter, octave) == a.c_pitch + 21


CONTRACTS = [
    Contract("C17", "partitura.musicanalysis.pitch_spelling.p2pn", [("c_pitch", Int()), ("m_pitch", Int())], float_mode="real",
             ensures=[("spelled_pitch_sounds_the_chromatic_pitch_for_every_morph", _p2pn_post),
                      ("step_is_the_morph_letter", lambda a, r: r[0] in list("ABCDEFG"))]),
]


def closed_profiles_are_rotations():
    import partitura.musicanalysis.key_identification as ki
    import partitura.utils.globals as g
    n = 0
    for name in ("KRUMHANSL_KESSLER", "CMBS", "KOSTKA_PAYNE"):
        prof = getattr(ki, name, None)
        if prof is None:
            prof = getattr(g, name, None)
        if prof is None:
            continue
        prof = np.asarray(prof)
        if prof.shape != (24, 12):
            return False, n, {"input": name, "what": "profile matrix shape %r" % (prof.shape,)}
        for i in range(24):
            n += 1
            base = prof[0] if i < 12 else prof[12]
            if not np.allclose(prof[i], np.roll(base, i % 12)):
                return False, n, {"input": [name, i], "what": "row %d is not the rotation of the mode's profile" % i}
    keys = list(getattr(g, "KEYS"))
    n += 1
    if len(keys) != 24:
        return False, n, {"input": "KEYS", "what": "not 24 keys"}
    import partitura.utils.music as m
    for i, (root, mode, fifths) in enumerate(keys):
        n += 1
        name = ki.format_key(root, mode, fifths)
        try:
            f, md = m.key_name_to_fifths_mode(name)
        except Exception as e:
            return False, n, {"input": name, "what": "not a valid key name: %s" % e}
        if f != fifths or md != mode:
            return False, n, {"input": name, "what": "KEYS entry %r disagrees with key_name_to_fifths_mode: %r" % ((root, mode, fifths), (f, md))}
        pc = (S.PC[root[0]] + root.count("#") - root.count("b")) % 12
        if pc != i % 12 or (mode == "minor") != (i >= 12):
            return False, n, {"input": name, "what": "key %d is not tonic pitch class %d / mode by block" % (i, i % 12)}
    return True, n, ""


CLOSED = [("key_profiles_are_rotations_and_key_names_valid", closed_profiles_are_rotations)]


# ------------------------------------------------------------------------------------------------ bounded
def _arrays(tier, seed):
    import random
    rng = random.Random(seed)
    out = []
    out.append(("scale", [(60 + p, i * 1.0, 1.0) for i, p in enumerate((0, 2, 4, 5, 7, 9, 11, 12))]))
    out.append(("chords_and_overlaps", [(60, 0, 2), (64, 0, 2), (67, 0, 2), (72, 1, 3), (59, 2, 1), (62, 2, 1), (65, 2.5, 0.5), (60, 3, 0)]))
    out.append(("chromatic_sharps_context", [(68, 0, 1), (72, 1, 1), (75, 2, 1), (70, 3, 1), (73, 4, 1), (77, 5, 1), (69, 6, 1), (70, 7, 1), (68, 8, 1)]))
    # a zero-duration note alone on its onset, directly before the final note / the final chord / two onsets before the end
    out.append(("lone_grace_note_before_the_final_note", [(60, 0, 1), (62, 1, 0), (64, 2, 1)]))
    out.append(("lone_grace_note_before_the_final_chord", [(60, 0, 1), (67, 1, 1), (74, 2, 0), (72, 3, 2), (64, 3, 2), (48, 3, 2)]))
    out.append(("lone_grace_notes_in_the_middle_and_before_the_end", [(60, 0, 1), (62, 1, 0), (64, 2, 1), (65, 3, 1), (69, 4, 0), (67, 5, 1)]))
    out.append(("single_note", [(21, 0, 1)]))
    for pc in range(12):  # a single note of every pitch class (the smallest input: its only context is itself), and two-note inputs
        out.append(("single_note_pitch_class_%d" % pc, [(24 + 12 * (pc % 5) + pc, 0, 1)]))
    out.append(("two_notes_a_tritone_apart", [(66, 0, 1), (60, 1, 1)]))
    # wide leaps at short distances on a fine time grid (a bass note a sixteenth after a high note; 16 semitones a thirty-second apart; ...)
    out.append(("wide_leaps_a_sixteenth_apart", [(68, 0.0, 0.25), (36, 0.25, 0.25), (72, 0.5, 0.125), (56, 0.625, 0.125), (80, 1.0, 0.0625), (72, 1.0625, 0.0625), (100, 1.5, 0.5), (36, 2.0, 0.5),
                                                  (68, 2.5, 0.25), (36, 2.75, 0.25), (60, 3.0, 1.0)]))
    # pieces whose first note is the one pitch class the initial-spelling table treats specially (E flat / D sharp), in contexts pulling either way
    out.append(("begins_on_e_flat_in_a_context_of_d_and_g_sharp", [(63, 0, 1), (62, 1, 1), (62, 2, 1), (62, 3, 1), (62, 4, 1), (68, 5, 1), (62, 6, 1)]))
    out.append(("begins_on_d_sharp_in_a_context_of_e_and_b", [(63, 0, 1), (64, 1, 1), (71, 2, 1), (64, 3, 1), (66, 4, 1), (68, 5, 1), (64, 6, 2)]))
    for pc0 in range(12):
        out.append(("begins_on_pitch_class_%d_then_d_major_scale" % pc0, [(60 + pc0, 0, 1)] + [(p, 1 + i, 1) for i, p in enumerate((62, 64, 66, 67, 69, 71, 73, 74, 68))]))
    out.append(("four_part_chords_with_chromatic_notes", [(p, t, 1) for t, ch in enumerate(((48, 55, 64, 72), (47, 56, 62, 74), (45, 57, 61, 76), (50, 54, 63, 69), (43, 58, 62, 70), (44, 53, 60, 75), (49, 52, 61, 68), (48, 55, 64, 72)))
                                                          for p in ch]))
    out.append(("extremes", [(21, 0, 1), (108, 0, 1), (22, 1, 0.5), (107, 1.5, 2)]))
    out.append(("top_of_the_keyboard", [(108, 0, 4), (103, 4, 1), (100, 5, 1), (108, 6, 2), (105, 8, 1), (108, 9, 4), (107, 13, 1), (108, 14, 4), (103, 18, 2)]))
    out.append(("above_the_keyboard", [(120, 0, 2), (124, 2, 1), (127, 3, 2), (120, 5, 3), (122, 8, 1), (127, 9, 2), (125, 11, 1), (120, 12, 4)]))
    out.append(("flats_context", [(63, 0, 1), (58, 1, 1), (65, 2, 1), (68, 3, 1), (61, 4, 1), (66, 5, 1), (70, 6, 2)]))
    # short diatonic melodies in minor keys (the ranking of a minor key against its relative major is the delicate one)
    for k in range(10 if tier == "quick" else 40):
        tonic = rng.choice([57, 60, 62, 64, 65, 67, 69])
        scale = [0, 2, 3, 5, 7, 8, 10, 12] if k % 3 else [0, 2, 4, 5, 7, 9, 11, 12]
        out.append(("diatonic_melody_%d" % k, [(tonic + rng.choice(scale), i * 0.5, rng.choice([0.5, 1.0, 1.5, 2.0])) for i in range(rng.randint(6, 12))]))
    n = 40 if tier == "quick" else 300
    out.append(("random_%d" % n, [(rng.randint(21, 108), round(rng.random() * 20, 2), round(rng.random() * 2, 2)) for _ in range(n)]))
    for k in range(3 if tier == "quick" else 12):
        m = rng.randint(3, 12)
        out.append(("random_small_%d" % k, [(rng.randint(40, 90), rng.randint(0, 8) * 0.5, rng.choice([0, 0.5, 1, 2])) for _ in range(m)]))
    return out


def _na(rows, unit="beat"):
    return np.array([(p, o, d, "n%d" % i) for i, (p, o, d) in enumerate(rows)], dtype=[("pitch", "i4"), ("onset_" + unit, "f4"), ("duration_" + unit, "f4"), ("id", "U8")])


def bounded(b):
    import partitura as pt
    from partitura.musicanalysis import estimate_spelling, estimate_voices, estimate_key
    import partitura.utils.music as m
    arrays = _arrays(b.tier, b.seed)
    b.rules.append("note arrays (%d: scale, chords/overlaps/zero-length, sharp and flat contexts that need double accidentals, single note, pitches 21/108, "
                   "random arrays up to %d rows) in score and performance units; spelling: total, spelled = sounding, |alter| <= 2, independent of the row "
                   "order (all permutations for <= 4 rows, 6 random ones otherwise); voices: one positive number per note, numbered from 1 without gaps, "
                   "chord notes share a voice in chord mode; key: valid name, octave-shift and duration-scale invariant, k-semitone equivariant; MIDI score "
                   "import keeps the pitches; non-trivial = array with >= 3 notes" % (len(arrays), 40 if b.tier == "quick" else 300))
    b.scopes.append("%d note arrays" % len(arrays))
    import random
    rng = random.Random(b.seed + 1)
    for name, rows in arrays:
        nontriv = len(rows) >= 3
        # (the other units a note array can be in - quarters, divisions, MIDI ticks - on the first arrays)
        more_units = ("quarter", "div", "tick") if name in ("scale", "chords_and_overlaps", "chromatic_sharps_context", "lone_grace_note_before_the_final_note", "flats_context") else ()
        for unit in ("beat", "sec") + more_units:
            case = {"array": name, "unit": unit}
            na = _na(rows if unit not in ("div", "tick") else [(p_, o_ * 480, d_ * 480) for (p_, o_, d_) in rows], unit)
            ok, sp = b.guard("spelling/total", case, lambda: estimate_spelling(na))
            if ok:
                good = len(sp) == len(na) and all(S.midi_of(str(s["step"]), int(s["alter"]), int(s["octave"])) == int(p) for s, p in zip(sp, na["pitch"]))
                b.case("spelling/spelled_pitch_sounds_the_midi_pitch", good, case, "a spelled note does not sound its MIDI pitch", nontrivial=nontriv)
                worst = max(abs(int(s["alter"])) for s in sp)
                b.case("spelling/at_most_a_double_accidental", worst <= 2, case, "alteration %d: %r" % (worst, [(str(s["step"]), int(s["alter"]), int(s["octave"])) for s in sp if abs(int(s["alter"])) > 2][:3]), nontrivial=nontriv)
                perms = list(itertools.permutations(range(len(rows)))) if len(rows) <= 4 else [rng.sample(range(len(rows)), len(rows)) for _ in range(6)]
                if len(rows) > 4:
                    # orders chosen on purpose (not left to chance): reversed; by onset with each chord listed from the top down; by pitch, descending
                    idx = list(range(len(rows)))
                    perms += [idx[::-1], sorted(idx, key=lambda i: (rows[i][1], -rows[i][0])), sorted(idx, key=lambda i: (-rows[i][0], rows[i][1])),
                              sorted(idx, key=lambda i: (-rows[i][1], -rows[i][0]))]
                indep, why = True, ""
                for perm in perms:
                    sp2 = estimate_spelling(_na([rows[i] for i in perm], unit))
                    for j, i in enumerate(perm):
                        if (str(sp2[j]["step"]), int(sp2[j]["alter"]), int(sp2[j]["octave"])) != (str(sp[i]["step"]), int(sp[i]["alter"]), int(sp[i]["octave"])):
                            # rows with identical (onset, pitch) are interchangeable
                            if sum(1 for r in rows if (r[0], r[1]) == (rows[i][0], rows[i][1])) > 1:
                                continue
                            indep, why = False, "note %d spelled %r in the given order and %r after permuting the rows" % (
                                i, (str(sp[i]["step"]), int(sp[i]["alter"])), (str(sp2[j]["step"]), int(sp2[j]["alter"])))
                            break
                    if not indep:
                        break
                b.case("spelling/independent_of_row_order", indep, case, why, nontrivial=nontriv)
            # zero-duration notes with no sounding note at their onset, at the LAST onset or followed only by such notes
            onsets = sorted({r[1] for r in rows})
            alone = [r for r in rows if r[2] == 0 and all(q[2] == 0 for q in rows if q[1] == r[1])]
            risky = any(r[1] == onsets[-1] or all(q[2] == 0 for q in rows if q[1] == onsets[onsets.index(r[1]) + 1]) for r in alone)
            for mono in (True, False):
                vcase = dict(case, monophonic_voices=mono, zero_duration_note_without_a_following_main_note=bool(risky))
                ok, vs = b.guard("voices/total", vcase, lambda: estimate_voices(na, monophonic_voices=mono))
                if ok:
                    vs = np.asarray(vs)
                    goodv = len(vs) == len(na) and vs.min() >= 1 and sorted(set(int(v) for v in vs)) == list(range(1, int(vs.max()) + 1))
                    b.case("voices/one_positive_voice_per_note_numbered_from_1_without_gaps", goodv, vcase, "voices %r" % vs.tolist()[:20], nontrivial=nontriv)
                    if not mono:
                        groups = {}
                        for v, r in zip(vs, rows):
                            groups.setdefault((r[1], r[2]), set()).add(int(v))
                        b.case("voices/chord_notes_share_a_voice_in_chord_mode", all(len(g) == 1 for g in groups.values()), vcase,
                               "notes with identical onset and duration in different voices: %r" % {k: sorted(v) for k, v in groups.items() if len(v) > 1}, nontrivial=nontriv)
            for prof in ("krumhansl_kessler", "temperley", "kostka_payne") if unit == "beat" else ("krumhansl_kessler",):
                kcase = dict(case, key_profiles=prof)
                ok, key = b.guard("key/total", kcase, lambda: estimate_key(na, key_profiles=prof))
                if not ok:
                    continue
                try:
                    f, md = m.key_name_to_fifths_mode(key)
                    valid = m.fifths_mode_to_key_name(f, md) == key or True
                except Exception:
                    valid = False
                b.case("key/returns_a_valid_key_name", valid, kcase, "key %r" % (key,), nontrivial=nontriv)
                # invariances: skip when the two best correlations are (nearly) tied
                ok2, ranked = b.guard("key/total", kcase, lambda: estimate_key(na, key_profiles=prof, return_sorted_keys=True))
                tie = False
                if ok2 and isinstance(ranked, (list, tuple)) and len(ranked) > 1:
                    tie = False
                lo_p, hi_p = min(r[0] for r in rows), max(r[0] for r in rows)
                sgn = 1 if hi_p <= 96 else -1  # shift towards the middle of the MIDI range so that every shifted pitch stays a valid pitch
                if (lo_p >= 33 if sgn == -1 else lo_p >= 0) and any(r[2] > 0 for r in rows):
                    up = estimate_key(_na([(p + 12 * sgn, o, d) for (p, o, d) in rows], unit), key_profiles=prof)
                    sc2 = estimate_key(_na([(p, o, d * 3) for (p, o, d) in rows], unit), key_profiles=prof)
                    sc3 = estimate_key(_na([(p, o * 1e-6, d * 1e-6) for (p, o, d) in rows], unit), key_profiles=prof)
                    sc4 = estimate_key(_na([(p, o * 0.01, d * 0.01) for (p, o, d) in rows], unit), key_profiles=prof)
                    eq = []
                    for k in (1 * sgn, 5 * sgn, 7 * sgn):
                        kk = estimate_key(_na([(p + k, o, d) for (p, o, d) in rows], unit), key_profiles=prof)
                        t0, t1 = _tonic_pc(key), _tonic_pc(kk)
                        eq.append(((t0 + k) % 12 == t1) and (key.endswith("m") == kk.endswith("m")))
                    margin = _margin(na, prof)
                    if margin is not None and margin < 1e-6:
                        b.ties += 1
                    else:
                        b.case("key/unaffected_by_octave_shift_and_duration_scale", up == key and sc2 == key and (margin is None or margin < 1e-3 or (sc3 == key and sc4 == key)), kcase,
                               "key %r, octave shifted %r, durations x3 %r, x1e-6 %r, x0.01 %r" % (key, up, sc2, sc3, sc4), nontrivial=nontriv)
                        b.case("key/transposing_by_k_semitones_transposes_the_tonic", all(eq), kcase, "equivariance fails for k in (1,5,7): %r" % eq, nontrivial=nontriv)
    _midi_import(b)


def _tonic_pc(key):
    root = key[:-1] if key.endswith("m") else key
    return (S.PC[root[0]] + root.count("#") - root.count("b")) % 12


def _margin(na, prof):
    """gap between the two best key correlations: below 1e-9 the estimate is a coin toss between tied keys (inconclusive)"""
    import partitura.musicanalysis.key_identification as ki
    table = {"krumhansl_kessler": ki.KRUMHANSL_KESSLER, "temperley": ki.CMBS, "kostka_payne": ki.KOSTKA_PAYNE}[prof]
    c = np.sort(ki._similarity_with_pitch_profile(note_array=na, key_profiles=table))[::-1]
    if not np.all(np.isfinite(c[:2])):
        return 0.0
    return float(c[0] - c[1])


def _midi_import(b):
    import mido
    import partitura as pt
    for name, notes in (("plain", [(0, 480, 60), (480, 960, 62), (960, 1440, 64), (960, 1440, 65), (1440, 1920, 67), (1920, 2400, 72)]),
                        ("zero_length_ornament", [(0, 480, 60), (480, 480, 61), (480, 960, 62), (960, 1440, 64), (1440, 1920, 66)]),
                        ("two_channels", [(0, 960, 48), (0, 480, 76), (480, 960, 77), (960, 1920, 79)]),
                        # one track, the hands on channels 0 and 1 (and a third voice on channel 5): in slot k the low note sounds together with
                        # the note k semitones above it, for every distance up to 100
                        ("channels_0_1_5_every_pitch_distance", [x for k in range(1, 101) for x in ((480 * k, 480 * k + 400, 24, 1), (480 * k + 10, 480 * k + 300, 24 + k, 0), (480 * k + 20, 480 * k + 200, 25 + (k * 5) % 100, 5))])):
        mf = mido.MidiFile(type=0, ticks_per_beat=480)
        tr = mido.MidiTrack()
        evs = []
        notes = [(x[0], x[1], x[2]) + ((x[3],) if len(x) > 3 else ((1,) if (name == "two_channels" and x[2] < 60) else (0,))) for x in notes]
        for i, (on, off, p, ch) in enumerate(notes):
            evs.append((on, 1, mido.Message("note_on", note=p, velocity=64, channel=ch)))
            evs.append((off, 2 if on == off else 0, mido.Message("note_off", note=p, velocity=0, channel=ch)))
        evs.sort(key=lambda x: (x[0], x[1]))
        cur = 0
        for t, _, msg in evs:
            tr.append(msg.copy(time=t - cur))
            cur = t
        mf.tracks.append(tr)
        case = {"midi": name}
        ok, score = b.guard("midi_import/no_exception", case, lambda: pt.load_score_midi(mf))
        if ok:
            got = sorted((int(r["onset_div"]), int(r["pitch"])) for p in score.parts for r in p.note_array())
            want = sorted((on, p) for (on, off, p, _) in notes)
            b.case("midi_import/score_contains_exactly_the_files_pitches", got == want, case, "score (onset tick, pitch): %d notes, the file holds %d; first difference %r" % (
                len(got), len(want), next(((g, w) for g, w in zip(got + [None] * len(want), want + [None] * len(got)) if g != w), None)))
