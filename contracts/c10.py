"""C10 - signature, clef and measure maps return what is in force at the queried time.

closed-eval: mode / clef codes (C12 proves the functions; here the tables the maps encode with).
Tier B:      the six maps against the oracle "latest element starting at or before t, the first one before it, the documented
             default when none", measure containing t with the documented pickup rule; scalar vs array agreement; agreement with
             the optional note-array columns (bounded: tables and interp1d(kind='previous') are numpy/scipy end to end).
"""
import itertools
from fractions import Fraction

import numpy as np

LEVEL = "exploration"
MANIFEST = {
    "level": "exploration",
    "technique": "contract-based run-time checking (bounded): the maps' contracts (latest element in force / containing measure with pickup rule / defaults) evaluated on the real functions for every integer position of generated parts; no obligation of this property is within the SMT subset beyond the code tables proved under C12",
    "text": "Every integer position (and two positions past the end) of generated parts with 0..3 time signatures, key signatures over several fifths and modes incl. a missing mode, clefs on 1..3 staves with a clef-less staff, regular/irregular measures, pickups, elements starting after the first time point, and no measures/signatures at all is checked against an independent oracle; scalar and array queries and the derived note-array columns are compared.",
    "note": "bounded only: numpy table building and scipy interp1d(kind='previous') are not modelled by the verifier; the C12 proofs cover key_mode_to_int / clef codes",
}
EXPLANATION = "Bounded run-time contracts against an independent oracle; nothing here is counted as proved."


def _sc():
    import partitura.score as sc
    return sc


def closed_codes_used_by_the_maps():
    """the integer codes the maps put into their tables decode to what was encoded (functions proved under C12)"""
    import partitura.utils.music as m
    n = 0
    for mode, want in (("major", 1), ("minor", -1), (None, 1), ("none", 1), (1, 1), (-1, -1)):
        n += 1
        if m.key_mode_to_int(mode) != want:
            return False, n, {"input": mode, "what": "key_mode_to_int"}
    signs = ["G", "F", "C", "percussion", "TAB", "jianpu", "none"]
    for s in signs:
        n += 1
        if m.clef_int_to_sign(m.clef_sign_to_int(s)) != s:
            return False, n, {"input": s, "what": "clef code does not decode to the sign"}
    if len({m.clef_sign_to_int(s) for s in signs}) != len(signs):
        return False, n, {"input": None, "what": "clef codes not distinct"}
    for bad in ("X", "major", 7):
        n += 1
        try:
            m.clef_sign_to_int(bad)
            return False, n, {"input": bad, "what": "unknown clef sign accepted"}
        except KeyError:
            pass
    return True, n, ""


CLOSED = [("mode_and_clef_codes", closed_codes_used_by_the_maps)]


def _cases(tier):
    sc = _sc()
    out = []

    def mk(divs=4, tss=(), kss=(), clefs=(), measures=(), note=(0, 32), staves=1, musical=None, rests=(), first_number=1, then=None):
        def f():
            p = sc.Part("P", quarter_duration=divs)
            for t, b_, bt in tss:
                p.add(sc.TimeSignature(b_, bt), t)
            for t, f5, mode in kss:
                p.add(sc.KeySignature(f5, mode), t)
            for t, staff, sign, line, oc in clefs:
                p.add(sc.Clef(staff=staff, sign=sign, line=line, octave_change=oc), t)
            for i, (s, e) in enumerate(measures):
                p.add(sc.Measure(number=i + first_number), s, e)
            # the signatures as they were asked for, kept apart from the objects (musical beats: the user's value for that signature, else
            # the documented default - 2, 3, 4 for numerators 6, 9, 12 and the numerator for all others)
            p._verif_tss = [(t, b_, bt, (musical or {}).get("%d/%d" % (b_, bt), {6: 2, 9: 3, 12: 4}.get(b_, b_))) for t, b_, bt in tss]
            p._verif_kss = [(t, f5, -1 if mode in ("minor", -1) else 1) for t, f5, mode in kss]
            # the numbers the measures were given, kept apart from the objects
            p._verif_measure_numbers = {s: i + first_number for i, (s, e) in enumerate(measures)}
            for st in range(1, staves + 1):
                p.add(sc.Note("C", 4, id="n%d" % st, voice=st, staff=st), note[0], note[1])
            for k_, (rs, re_) in enumerate(rests):
                p.add(sc.Rest(id="r%d" % k_, voice=5, staff=1), rs, re_)
            if musical is not None:
                p.use_musical_beat(musical)
            if then == "notated":
                # the user's beats taken back: the documented defaults are in force again
                p.use_notated_beat()
                p._verif_tss = [(t, b_, bt, {6: 2, 9: 3, 12: 4}.get(b_, b_)) for t, b_, bt in tss]
            elif then == "default_musical":
                p.use_notated_beat()
                p.use_musical_beat()
                p._verif_tss = [(t, b_, bt, {6: 2, 9: 3, 12: 4}.get(b_, b_)) for t, b_, bt in tss]
            return p
        return f
    out.append(("nothing_at_all", mk()))
    out.append(("one_of_each_at_zero", mk(tss=[(0, 3, 4)], kss=[(0, -3, "minor")], clefs=[(0, 1, "G", 2, 0)], measures=[(0, 12), (12, 24), (24, 36)], note=(0, 36))))
    # (the time signature of the first measure is present from the start: what a measure means before any time signature is not
    # addressed by the statement, and the pickup rule needs the signature of the first measure)
    out.append(("single_late_key_and_clef", mk(tss=[(0, 6, 8)], kss=[(8, 2, None)], clefs=[(8, 1, "F", 4, 0)], measures=[(0, 8), (8, 20), (20, 32)])))
    out.append(("single_late_time_signature", mk(tss=[(8, 3, 4)], kss=[(0, 0, "major")], measures=[], note=(0, 32))))
    out.append(("late_compound_time_signatures", mk(tss=[(8, 6, 8), (20, 9, 8)], kss=[(0, 0, "major")], measures=[], note=(0, 38))))
    out.append(("timeline_ends_after_the_last_measure", mk(tss=[(0, 4, 4)], measures=[(0, 16), (16, 32), (32, 48)], note=(44, 52))))
    out.append(("clef_change_at_the_last_time_point", mk(tss=[(0, 4, 4)], clefs=[(0, 1, "G", 2, 0), (32, 1, "F", 4, 0)], measures=[(0, 16), (16, 32)], note=(0, 32))))
    out.append(("only_clef_of_staff_2_at_the_last_time_point", mk(tss=[(0, 4, 4)], clefs=[(0, 1, "G", 2, 0), (32, 2, "F", 4, 0)], measures=[(0, 16), (16, 32)], note=(0, 32), staves=2)))
    # the less common clef signs (their codes are documented: G 0, F 1, C 2, percussion 3, TAB 4, jianpu 5, none 6), the highest staff holding
    # nothing but its clef (a tacet pedal staff)
    out.append(("tablature_and_jianpu_clefs_third_staff_with_a_clef_only", mk(tss=[(0, 4, 4)], clefs=[(0, 1, "G", 2, 0), (0, 2, "TAB", 5, 0), (0, 3, "jianpu", 1, 0), (16, 1, "percussion", 2, 0), (16, 3, "none", 1, 0)],
                                                                              measures=[(0, 16), (16, 32)], note=(0, 32), staves=2)))
    out.append(("key_signature_with_mode_none", mk(tss=[(0, 4, 4)], kss=[(0, -7, "none"), (16, 3, "none")], measures=[(0, 16), (16, 32)], note=(0, 32))))
    # modes given by their documented integer codes (-1 minor, 1 major), as the ks_mode column of a note array hands them out
    out.append(("key_modes_given_as_integer_codes", mk(tss=[(0, 4, 4)], kss=[(0, -3, -1), (16, 2, 1), (24, 4, np.int32(-1))], measures=[(0, 16), (16, 32)], note=(0, 32))))
    # numerators that are multiples of three beyond twelve: the documented default number of musical beats is the numerator
    out.append(("fifteen_eight_and_eighteen_sixteen", mk(divs=4, tss=[(0, 15, 8), (30, 18, 16), (48, 21, 8)], measures=[(0, 30), (30, 48), (48, 90)], note=(0, 90), musical={})))
    out.append(("three_changes", mk(tss=[(0, 4, 4), (16, 6, 8), (28, 2, 2)], kss=[(0, 0, "major"), (16, 7, "major"), (28, -7, "minor")],
                                  clefs=[(0, 1, "G", 2, 0), (16, 1, "C", 3, 0), (20, 1, "G", 2, -1)], measures=[(0, 16), (16, 28), (28, 44)], note=(0, 44))))
    # rests that end exactly at a change of signature, that span one, and that begin at one
    out.append(("rests_around_signature_changes", mk(tss=[(0, 4, 4), (16, 3, 4), (28, 6, 8)], kss=[(0, 0, "major"), (16, 2, "major"), (28, -3, "minor")], clefs=[(0, 1, "G", 2, 0)],
                                                     measures=[(0, 16), (16, 28), (28, 40)], note=(0, 40), rests=[(12, 16), (26, 30), (28, 34), (2, 6)])))
    # musical beats that do not divide the numerator (5/8 counted in two, 7/8 in three), with a pickup
    out.append(("musical_beats_five_eight_in_two_with_a_pickup", mk(divs=4, tss=[(0, 5, 8)], measures=[(0, 2), (2, 12), (12, 22)], note=(0, 22), musical={"5/8": 2})))
    out.append(("musical_beats_seven_eight_in_three_with_a_pickup", mk(divs=2, tss=[(0, 7, 8)], measures=[(0, 3), (3, 10), (10, 17)], note=(0, 17), musical={"7/8": 3})))
    # the upbeat bar counted as bar 0 (as editions and the kern reader number it)
    out.append(("pickup_numbered_zero_3_4", mk(tss=[(0, 3, 4)], measures=[(0, 4), (4, 16), (16, 28)], note=(0, 28), first_number=0)))
    out.append(("user_beats_for_4_4_and_5_8_then_notated_beats_again", mk(divs=2, tss=[(0, 4, 4), (16, 5, 8), (26, 6, 8)], measures=[(0, 8), (8, 16), (16, 21), (21, 26), (26, 32)], note=(0, 32), musical={"4/4": 2, "5/8": 2, "6/8": 3}, then="notated")))
    out.append(("user_beats_for_4_4_and_5_8_then_the_default_musical_beats", mk(divs=2, tss=[(0, 4, 4), (16, 5, 8), (26, 6, 8)], measures=[(0, 8), (8, 16), (16, 21), (21, 26), (26, 32)], note=(0, 32), musical={"4/4": 2, "5/8": 2, "6/8": 3}, then="default_musical")))
    out.append(("pickup_4_4", mk(tss=[(0, 4, 4)], kss=[(0, 1, "major")], clefs=[(0, 1, "G", 2, 0)], measures=[(0, 4), (4, 20), (20, 36)], note=(0, 36))))
    # musical beats enabled: a full first bar stays a full bar, a pickup stays a pickup (the extent of a measure does not depend on the beat unit)
    out.append(("musical_beats_full_first_bar_4_4_in_two", mk(tss=[(0, 4, 4)], measures=[(0, 16), (16, 32)], note=(0, 32), musical={"4/4": 2})))
    out.append(("musical_beats_pickup_6_8", mk(divs=2, tss=[(0, 6, 8)], measures=[(0, 2), (2, 8), (8, 14)], note=(0, 14), musical={})))
    out.append(("musical_beats_full_first_bar_3_8", mk(divs=2, tss=[(0, 3, 8)], measures=[(0, 3), (3, 6), (6, 9)], note=(0, 9), musical={})))
    out.append(("pickup_6_8_divs2", mk(divs=2, tss=[(0, 6, 8)], measures=[(0, 2), (2, 8), (8, 14)], note=(0, 14))))
    out.append(("pickup_6_8_divs3_beat_not_a_whole_number_of_divisions", mk(divs=3, tss=[(0, 6, 8)], measures=[(0, 3), (3, 12), (12, 21)], note=(0, 21))))
    out.append(("pickup_6_8_divs1", mk(divs=1, tss=[(0, 6, 8)], measures=[(0, 1), (1, 4), (4, 7)], note=(0, 7))))
    out.append(("three_staves_one_without_clef", mk(tss=[(0, 4, 4)], clefs=[(0, 1, "G", 2, 0), (0, 3, "F", 4, 0), (16, 3, "percussion", 2, 0)], measures=[(0, 16), (16, 32)], staves=3)))
    out.append(("irregular_measures", mk(tss=[(0, 4, 4)], measures=[(0, 16), (16, 22), (22, 40), (40, 41)], note=(0, 41))))
    out.append(("gap_before_first_measure", mk(tss=[(4, 2, 4)], kss=[(6, -1, "minor")], measures=[(4, 12), (12, 20)], note=(0, 20))))
    if tier == "thorough":
        out.append(("late_clef_two_staves", mk(tss=[(0, 2, 4)], clefs=[(6, 2, "F", 4, 0)], measures=[(0, 8), (8, 16)], note=(0, 16), staves=2)))
        out.append(("many_keys", mk(tss=[(0, 4, 4)], kss=[(4 * i, f5, m) for i, (f5, m) in enumerate(itertools.product((-7, -1, 0, 5), ("major", "minor", None)))], measures=[(0, 16), (16, 48)], note=(0, 48))))
    return out


def _latest(elems, t):
    """elems sorted by time: latest starting <= t, else the first one; None if empty"""
    if not elems:
        return None
    cur = elems[0]
    for e in elems:
        if e[0] <= t:
            cur = e
    return cur


def bounded(b):
    sc = _sc()
    from gen import oracles as O
    cases = _cases(b.tier)
    b.rules.append("generated parts (%d: nothing at all, one of each, single late element of each kind, three changes, pickups in 4/4 and 6/8, three "
                   "staves one without clef, irregular measures, gap before the first measure) x every integer position first..last+2 x scalar/array; "
                   "non-trivial = (part, position) pairs with at least one element in force" % len(cases))
    b.scopes.append("%d parts, all integer positions" % len(cases))
    for name, mk in cases:
        part = mk()
        lo, hi = part.first_point.t, part.last_point.t
        pos = list(range(lo, hi + 3))
        tss = sorted(getattr(part, "_verif_tss", None) or [(t.start.t, t.beats, t.beat_type, t.musical_beats) for t in part.iter_all(sc.TimeSignature)])
        kss = sorted(getattr(part, "_verif_kss", None) or [(k.start.t, k.fifths, -1 if k.mode in ("minor", -1) else 1) for k in part.iter_all(sc.KeySignature)])
        clefs = sorted((c.start.t, c.staff, {"G": 0, "F": 1, "C": 2, "percussion": 3, "TAB": 4, "jianpu": 5, "none": 6}[c.sign], c.line, c.octave_change or 0) for c in part.iter_all(sc.Clef))
        given = getattr(part, "_verif_measure_numbers", {})
        meas = sorted((m.start.t, m.end.t, given.get(m.start.t, m.number)) for m in part.iter_all(sc.Measure))
        case = {"part": name}
        for mapname, want_fn in (("time_signature_map", lambda t: tuple(_latest(tss, t)[1:]) if tss else (4, 4, 4)),
                                 ("key_signature_map", lambda t: tuple(_latest(kss, t)[1:]) if kss else (0, 1))):
            ok, f = b.guard("maps/%s_no_exception" % mapname, case, lambda: getattr(part, mapname))
            if not ok:
                continue
            bad = None
            for t in pos:
                try:
                    got = tuple(int(x) if x == x else None for x in np.asarray(f(t)).ravel())
                except Exception as e:
                    bad = "raised %s at t=%d" % (type(e).__name__, t)
                    break
                if got != want_fn(t):
                    bad = "%s(%d) = %r, in force %r" % (mapname, t, got, want_fn(t))
                    break
            b.case("maps/%s_latest_element_in_force" % mapname, bad is None, case, bad or "")
            try:
                arr = np.asarray(f(np.array(pos)))
                same = all(tuple(int(x) if x == x else None for x in arr[i]) == tuple(int(x) if x == x else None for x in np.asarray(f(t)).ravel()) for i, t in enumerate(pos))
            except Exception as e:
                same = False
            b.case("maps/%s_scalar_and_array_agree" % mapname, same, case, "array query differs from scalar queries")
        # clefs
        ok, f = b.guard("maps/clef_map_no_exception", case, lambda: part.clef_map)
        if ok:
            nst = max([1] + [n.staff or 1 for n in part.iter_all(sc.GenericNote, include_subclasses=True)] + [c[1] for c in clefs])
            bad = None
            for t in pos:
                try:
                    got = np.asarray(f(t))
                except Exception as e:
                    bad = "raised %s at t=%d" % (type(e).__name__, t)
                    break
                if got.ndim != 2 or got.shape[0] < nst:
                    bad = "clef_map(%d) has %r rows, the part has %d staves (notes or clefs on them)" % (t, got.shape, nst)
                    break
                for s in range(1, nst + 1):
                    sc_ = [c for c in clefs if c[1] == s]
                    want = tuple(_latest(sc_, t)[1:]) if sc_ else (s, 6, 0, 0)
                    if tuple(int(x) for x in got[s - 1]) != want:
                        bad = "clef_map(%d) staff %d = %r, in force %r" % (t, s, tuple(int(x) for x in got[s - 1]), want)
                        break
                if bad:
                    break
            b.case("maps/clef_map_latest_clef_per_staff_default_none", bad is None, case, bad or "")
        # measures
        if meas:
            first = meas[0]
            ts0 = _latest(tss, 0) if tss else (0, 4, 4, 4)
            full = Fraction(ts0[1] * 4, ts0[2]) * O.q_in_force(part, 0)  # full bar in divisions at the start
            corrected = list(meas)
            if first[1] - first[0] < full:
                corrected[0] = (int(first[1] - full), first[1], first[2])
        else:
            corrected = [(lo, hi, 1)]

        def meas_at(t):
            cur = corrected[0]
            for m in corrected:
                if m[0] <= t:
                    cur = m
            return cur
        for mapname in ("measure_map", "measure_number_map", "metrical_position_map"):
            ok, f = b.guard("maps/%s_no_exception" % mapname, case, lambda: getattr(part, mapname))
            if not ok:
                continue
            bad = None
            # positions inside some measure (before the first measure there is no "measure containing t")
            for t in range(max(lo, meas[0][0]) if meas else lo, hi):
                m = meas_at(t)
                try:
                    got = f(t)
                except Exception as e:
                    bad = "raised %s at t=%d: %s" % (type(e).__name__, t, str(e)[:80])
                    break
                if mapname == "measure_map":
                    want = (m[0], m[1])
                    g = tuple(int(x) for x in np.asarray(got).ravel())
                elif mapname == "measure_number_map":
                    want = (m[2],)
                    g = (int(got),)
                else:
                    if len(corrected) < 2:
                        want = (0, 0)
                    else:
                        want = (t - m[0], m[1] - m[0])
                    g = tuple(int(x) for x in np.asarray(got).ravel())
                if g != want:
                    bad = "%s(%d) = %r, expected %r (measure containing t, pickup counted as a full bar)" % (mapname, t, g, want)
                    break
            b.case("maps/%s_measure_containing_t" % mapname, bad is None, case, bad or "")
        # every way of passing the positions: numpy integer scalars answer like Python integers, lists / tuples / arrays give one row per position
        inside = [t for t in range(max(lo, meas[0][0]) if meas else lo, hi)]
        for mapname in ("time_signature_map", "key_signature_map", "measure_map", "measure_number_map", "metrical_position_map", "clef_map"):
            try:
                f = getattr(part, mapname)
                ref = [np.asarray(f(t)) for t in inside]
            except Exception:
                continue
            if not inside:
                continue
            bad = None
            for t, r in zip(inside[:6] + inside[-2:], ref[:6] + ref[-2:]):
                for form, arg in (("np.int64", np.int64(t)), ("np.int32", np.int32(t))):
                    try:
                        g = np.asarray(f(arg))
                    except Exception as e:
                        bad = bad or "%s(%s(%d)) raised %s" % (mapname, form, t, type(e).__name__)
                        continue
                    if g.shape != r.shape or not np.array_equal(np.nan_to_num(g.astype(float), nan=-99), np.nan_to_num(r.astype(float), nan=-99)):
                        bad = bad or "%s(%s(%d)) has shape %r value %r, the Python integer gives shape %r value %r" % (mapname, form, t, g.shape, g.tolist(), r.shape, r.tolist())
            if mapname != "clef_map":
                for form, arg in (("list", list(inside)), ("tuple", tuple(inside)), ("int array", np.array(inside)), ("two-element list", list(inside[:2])), ("one-element array", np.array(inside[:1]))):
                    k = len(arg)
                    try:
                        g = np.asarray(f(arg))
                    except Exception as e:
                        bad = bad or "%s(%s) raised %s" % (mapname, form, type(e).__name__)
                        continue
                    want = np.array([x for x in ref[:k]])
                    if g.shape != want.shape or not np.array_equal(np.nan_to_num(g.astype(float), nan=-99), np.nan_to_num(want.astype(float), nan=-99)):
                        bad = bad or "%s(%s of %d positions) has shape %r, one row per position would be %r%s" % (mapname, form, k, g.shape, want.shape, "" if g.shape != want.shape else "; values differ")
            b.case("maps/%s_all_ways_of_passing_positions_agree" % mapname, bad is None, case, bad or "")
        # note array columns agree with the maps
        ok, na = b.guard("maps/note_array_columns_no_exception", case, lambda: part.note_array(include_time_signature=True, include_key_signature=True, include_metrical_position=True))
        if ok and len(na):
            good = True
            what = ""
            for r in na:
                t = int(r["onset_div"])
                if meas and t < meas[0][0]:
                    continue
                tsv = np.asarray(part.time_signature_map(t)).ravel()
                ksv = np.asarray(part.key_signature_map(t)).ravel()
                if (int(r["ts_beats"]), int(r["ts_beat_type"])) != (int(tsv[0]), int(tsv[1])) or (int(r["ks_fifths"]), int(r["ks_mode"])) != (int(ksv[0]), int(ksv[1])):
                    good, what = False, "signature columns at onset %d differ from the maps" % t
                mp = np.asarray(part.metrical_position_map(t)).ravel()
                if (int(r["rel_onset_div"]), int(r["tot_measure_div"])) != (int(mp[0]), int(mp[1])):
                    good, what = False, "metrical position columns at onset %d differ from the map" % t
            b.case("maps/note_array_columns_agree_with_maps", good, case, what)
        if list(part.iter_all(sc.Rest)):
            ok, ra = b.guard("maps/note_array_columns_no_exception", dict(case, array="rest"), lambda: part.rest_array(include_time_signature=True, include_key_signature=True, include_metrical_position=True))
            if ok:
                bad = None
                for r in ra:
                    t = int(r["onset_div"])
                    tsv, ksv, mp = np.asarray(part.time_signature_map(t)).ravel(), np.asarray(part.key_signature_map(t)).ravel(), np.asarray(part.metrical_position_map(t)).ravel()
                    if (int(r["ts_beats"]), int(r["ts_beat_type"])) != (int(tsv[0]), int(tsv[1])):
                        bad = bad or "rest at %d: time signature columns %d/%d, the map at its onset says %d/%d" % (t, int(r["ts_beats"]), int(r["ts_beat_type"]), int(tsv[0]), int(tsv[1]))
                    if (int(r["ks_fifths"]), int(r["ks_mode"])) != (int(ksv[0]), int(ksv[1])):
                        bad = bad or "rest at %d: key signature columns differ from the map at its onset" % t
                    if "rel_onset_div" in ra.dtype.names and (int(r["rel_onset_div"]), int(r["tot_measure_div"])) != (int(mp[0]), int(mp[1])):
                        bad = bad or "rest at %d: metrical position columns differ from the map at its onset" % t
                b.case("maps/note_array_columns_agree_with_maps", bad is None, dict(case, array="rest"), bad or "", nontrivial=len(ra) > 0)
    _score_columns(b)


def _score_columns(b):
    """the metrical-position columns of a note array taken over parts with DIFFERENT divisions: each row's pair (distance from the start of
    the measure, length of the measure) is the answer of its part's map in ONE unit - the part's own divisions or the common divisions of
    the array - never one number in each"""
    sc = _sc()
    from gen import scores as G
    from partitura.utils.music import note_array_from_part_list
    for divs in ((4, 6), (2, 3, 12), (8, 2)):
        parts = []
        for i, d in enumerate(divs):
            bar = 3 * d
            notes = [("p%dn%d" % (i, k), s_, l_, "CDEFGAB"[(k + i) % 7], None, 4 - i, 1, 1) for k, (s_, l_) in enumerate(((0, d), (d, d), (2 * d, d // 2 or 1), (d + bar, 2 * d), (d + bar + 2 * d, d)))]
            parts.append(G.build_part("P%d" % i, d, ts=((0, 3, 4),), notes=notes, measures=[(0, d), (d, d + bar), (d + bar, d + 2 * bar)]))
        lcm = int(np.lcm.reduce(list(divs)))
        case = {"parts_with_divisions": list(divs)}
        for how, get in (("score", lambda: G.simple_score(parts).note_array(include_metrical_position=True)), ("part_list", lambda: note_array_from_part_list(parts, include_metrical_position=True))):
            ok, na = b.guard("maps/note_array_columns_no_exception", dict(case, taken_from=how), get)
            if not ok:
                continue
            bad = None
            byid = {}
            for p_, d in zip(parts, divs):
                for n in p_.iter_all(sc.Note):
                    byid[n.id] = (p_, d, n)
            for r in na:
                rid = str(r["id"])
                key_ = [k for k in byid if rid == k or rid.endswith("_" + k) or rid.endswith(k)]
                if not key_:
                    continue
                p_, d, n = byid[sorted(key_, key=len)[-1]]
                mp = np.asarray(p_.metrical_position_map(n.start.t)).ravel()
                got = (int(r["rel_onset_div"]), int(r["tot_measure_div"]))
                mult = lcm // d
                if got not in ((int(mp[0]), int(mp[1])), (int(mp[0]) * mult, int(mp[1]) * mult)):
                    bad = bad or "note %s of the part with %d divisions: columns (rel_onset_div, tot_measure_div) = %r; its part's map says %r in its own divisions = %r in the common divisions" % (
                        n.id, d, got, (int(mp[0]), int(mp[1])), (int(mp[0]) * mult, int(mp[1]) * mult))
            b.case("maps/note_array_columns_agree_with_maps", bad is None, dict(case, taken_from=how), bad or "")
