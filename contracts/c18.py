"""C18 - decoding an encoded performance reproduces the performance.

closed-eval: the five beat-period scale/rescale pairs are inverse on a grid; notewise<->onsetwise index algebra; get_matched_notes
             pairs exactly the matches whose ids occur on both sides, in alignment order.
Tier B:      encode_performance -> decode_performance on generated single-part scores (chords, two voices, grace notes, pickup, 6/8)
             with note-for-note performances (positive inter-onset intervals and durations), alignments with added insertions,
             deletions and ornaments, x 5 normalisations x 2 tempo-curve methods: onsets up to one common shift, durations and
             velocities within single-precision tolerance; matched-note table order; time maps interpolate matched onsets (bounded:
             float numpy pipelines with a float32 tolerance - nothing the verifier can discharge).
"""
import itertools

import numpy as np

LEVEL = "exploration"
MANIFEST = {
    "level": "exploration",
    "technique": "contract-based run-time checking (bounded) of decode(encode(p)) = p up to one shift and float32 tolerance on generated aligned performances; closed evaluation of the scale/rescale pairs, the onset-wise index algebra and the matched-note pairing",
    "text": "For generated single-part scores and note-for-note performances, with alignments that also contain insertions, deletions and ornaments, for the five tempo normalisations and the two built-in tempo-curve methods: decoded onsets equal the performed ones up to one common shift, durations and velocities within 1e-3 (float32 columns); the matched-note table pairs exactly the matches present on both sides ordered by score onset then pitch; time maps interpolate the matched onsets (chords by their mean) in both directions.",
    "note": "bounded only: numpy float pipelines (log/exp, interpolation) with a single-precision tolerance are outside what the verifier can decide",
}
EXPLANATION = "Bounded run-time round-trip contracts; closed checks of the small algebraic kernels."


def closed_scale_rescale_pairs():
    import partitura.musicanalysis.performance_codec as pc
    n = 0
    bp = np.array([0.25, 0.5, 0.5, 0.75, 1.0, 0.4, 2.0])
    for name, d in pc.TEMPO_NORMALIZATION.items():
        n += 1
        vals = d["scale"](bp)
        params = dict(zip(d["param_names"], vals))
        back = d["rescale"](params)
        if not np.allclose(back, bp, rtol=1e-9, atol=1e-12):
            return False, n, {"input": name, "what": "rescale(scale(bp)) = %r, bp = %r" % (np.asarray(back).tolist(), bp.tolist())}
    if sorted(pc.TEMPO_NORMALIZATION) != sorted(["beat_period", "beat_period_log", "beat_period_ratio", "beat_period_ratio_log", "beat_period_standardized"]):
        return False, n, {"input": sorted(pc.TEMPO_NORMALIZATION), "what": "the five tempo normalisations are not all present"}
    for onsets in ([0, 0, 1, 2, 2, 2, 5], [3], [0, 1, 2], [1, 1, 1]):
        n += 1
        u = pc.get_unique_onset_idxs(np.array(onsets, dtype=float))
        flat = sorted(i for g in u for i in g)
        if flat != list(range(len(onsets))) or any(len({onsets[i] for i in g}) != 1 for g in u):
            return False, n, {"input": onsets, "what": "unique onset groups %r do not partition the notes by onset" % [list(map(int, g)) for g in u]}
        vals = np.arange(len(onsets), dtype=float) * 2 + 1
        ow = pc.notewise_to_onsetwise(vals, u)
        want = [float(np.mean([vals[i] for i in g])) for g in u]
        if not np.allclose(ow, want):
            return False, n, {"input": onsets, "what": "onset-wise values %r, group means %r" % (np.asarray(ow).tolist(), want)}
        nw = pc.onsetwise_to_notewise(np.asarray(want), u)
        if not np.allclose(nw, [want[[k for k, g in enumerate(u) if i in g][0]] for i in range(len(onsets))]):
            return False, n, {"input": onsets, "what": "note-wise expansion %r" % np.asarray(nw).tolist()}
    return True, n, ""


def closed_matched_notes_pairing():
    import partitura.musicanalysis.performance_codec as pc
    n = 0
    s = np.array([("s0", 0), ("s1", 1), ("s2", 2), ("s3", 3)], dtype=[("id", "U8"), ("onset_div", "i4")])
    p = np.array([("p0", 0.0), ("p1", 0.5), ("p2", 1.0), ("p9", 2.0)], dtype=[("id", "U8"), ("onset_sec", "f4")])
    al = [dict(label="match", score_id="s2", performance_id="p0"), dict(label="deletion", score_id="s1"), dict(label="match", score_id="s0", performance_id="p2"),
          dict(label="insertion", performance_id="p1"), dict(label="match", score_id="sX", performance_id="p9"), dict(label="match", score_id="s3", performance_id="pX"),
          dict(label="ornament", score_id="s1", performance_id="p1")]
    got = pc.get_matched_notes(s, p, al)
    n += 1
    if np.asarray(got).tolist() != [[2, 0], [0, 2]]:
        return False, n, {"input": "alignment with matches on both/one side, deletion, insertion, ornament", "what": "matched index pairs %r, expected [[2,0],[0,2]]" % np.asarray(got).tolist()}
    return True, n, ""


CLOSED = [("scale_rescale_pairs_and_onsetwise_algebra", closed_scale_rescale_pairs), ("matched_notes_pairing", closed_matched_notes_pairing)]


# ------------------------------------------------------------------------------------------------ bounded
def _scores(tier):
    from gen import scores as G
    out = []
    out.append(("chords_two_voices_4_4", lambda: G.build_part("P1", 4, notes=[("n0", 0, 4, "C", None, 4, 1, 1), ("n1", 0, 4, "E", None, 4, 1, 1), ("n2", 4, 4, "D", None, 4, 1, 1), ("n3", 8, 8, "G", None, 4, 1, 1),
                                                                                ("n4", 0, 8, "C", None, 3, 2, 1), ("n5", 8, 4, "F", None, 3, 2, 1), ("n6", 12, 4, "G", None, 3, 2, 1),
                                                                                ("n7", 16, 4, "A", None, 4, 1, 1), ("n8", 20, 12, "B", None, 4, 1, 1)])))
    out.append(("pickup_six_eight", lambda: G.build_part("P1", 2, ts=((0, 6, 8),), notes=[("u", 0, 1, "G", None, 4, 1, 1), ("a", 1, 3, "C", None, 5, 1, 1), ("b", 1, 3, "E", None, 4, 1, 1), ("c", 4, 2, "D", None, 5, 1, 1),
                                                                                        ("d", 6, 1, "F", 1, 4, 1, 1), ("e", 7, 6, "G", None, 4, 1, 1), ("f", 7, 3, "B", None, 3, 2, 1), ("g", 10, 3, "C", None, 4, 2, 1)],
                                                         measures=[(0, 1), (1, 7), (7, 13)])))
    # a written-out rolled chord and a flam on a fine grid: distinct score onsets a few thousandths of a beat apart
    out.append(("rolled_chord_on_a_grid_of_480_divisions", lambda: G.build_part("P1", 480, notes=[("r0", 0, 480, "C", None, 4, 1, 1), ("r1", 3, 477, "E", None, 4, 1, 1), ("r2", 6, 474, "G", None, 4, 1, 1),
                                                                                                   ("m0", 480, 480, "D", None, 4, 1, 1), ("f0", 960, 4, "A", None, 4, 1, 1), ("f1", 964, 476, "B", None, 4, 1, 1),
                                                                                                   ("m1", 1440, 480, "C", None, 5, 1, 1), ("lo", 0, 1920, "C", None, 3, 2, 1)])))
    # a long run of triplet eighths (inter-onset intervals of a third of a beat: no multiple of any decimal grid), then a held note
    out.append(("three_hundred_triplet_eighths", lambda: G.build_part("P1", 12, notes=[("t%d" % i, 4 * i, 4, "CDEFGAB"[i % 7], None, 4 + (i // 7) % 2, 1, 1) for i in range(300)] + [("end", 1200, 48, "C", None, 4, 1, 1),
                                                                                      ("lo", 0, 1200, "C", None, 2, 2, 1)])))
    # an acciaccatura from ABOVE its main note (the grace note has the higher pitch of the two that share the onset), over a lower voice
    out.append(("with_a_grace_note_from_above", lambda: G.build_part("P1", 4, notes=[("n0", 0, 4, "C", None, 5, 1, 1), ("n1", 4, 4, "C", None, 5, 1, 1), ("n2", 8, 8, "E", None, 5, 1, 1), ("lo", 0, 16, "C", None, 3, 2, 1)],
                                                                     graces=[("g", 4, "D", None, 5, 1, 1, "n1")])))
    if True:
        out.append(("with_grace", lambda: G.build_part("P1", 4, notes=[("n0", 0, 4, "C", None, 4, 1, 1), ("n1", 4, 4, "D", None, 4, 1, 1), ("n2", 8, 8, "E", None, 4, 1, 1)], graces=[("g", 4, "B", None, 3, 1, 1, "n1")])))
    return out


def _performance(part, seed, extra=True, match_grace=False, extremes=False):
    """note-for-note performance with positive IOIs/durations (tempo varies), plus an inserted note; alignment with match/insertion/deletion/ornament"""
    import random
    import partitura.performance as pf
    rng = random.Random(seed)
    na = part.note_array()
    order = np.lexsort((na["pitch"], na["onset_beat"]))
    t = 0.5
    last_beat = None
    notes = []
    al = []
    bp = 0.5
    for k, i in enumerate(order):
        r = na[i]
        if r["duration_beat"] <= 0 and match_grace:
            # a grace note played just before the beat and matched in the alignment (used for the time maps only)
            pid = "p%d" % k
            gt = t + (float(r["onset_beat"] - last_beat) * bp if last_beat is not None else 0.0) - 0.06
            notes.append(dict(id=pid, midi_pitch=int(r["pitch"]), note_on=gt, note_off=gt + 0.05, velocity=44, track=0, channel=0))
            al.append(dict(label="match", score_id=str(r["id"]), performance_id=pid))
            continue
        if r["duration_beat"] <= 0:
            al.append(dict(label="deletion", score_id=str(r["id"])))
            continue
        if last_beat is not None and r["onset_beat"] > last_beat:
            bp = 0.4 + 0.3 * rng.random()
            if extremes:
                # a fermata in the middle (8 s, then 3.6 s per beat: sixteen times slower than what precedes) and a presto stretch (0.085 s per beat)
                n_on = len({float(x["onset_beat"]) for x in na})
                idx = sorted({float(x["onset_beat"]) for x in na}).index(float(r["onset_beat"]))
                bp = (8.0 if idx == n_on // 3 else 3.6) if n_on // 3 <= idx < n_on // 3 + 2 else (0.085 if idx >= 2 * n_on // 3 else 0.5)
            t += (r["onset_beat"] - last_beat) * bp
        last_beat = r["onset_beat"]
        on = t + (0.01 * rng.random() if k % 3 else 0.0)
        dur = max(0.08, float(r["duration_beat"]) * bp * (0.6 + 0.5 * rng.random()))
        pid = "p%d" % k
        notes.append(dict(id=pid, midi_pitch=int(r["pitch"]), note_on=on, note_off=on + dur, velocity=30 + (7 * k) % 90, track=0, channel=0))
        al.append(dict(label="match", score_id=str(r["id"]), performance_id=pid))
    if extra:
        notes.append(dict(id="pins", midi_pitch=40, note_on=0.1, note_off=0.2, velocity=20, track=0, channel=0))
        al.append(dict(label="insertion", performance_id="pins"))
        notes.append(dict(id="porn", midi_pitch=74, note_on=0.45, note_off=0.5, velocity=25, track=0, channel=0))
        al.append(dict(label="ornament", score_id=str(na[order[0]]["id"]), performance_id="porn"))
        al.append(dict(label="match", score_id="not_in_score", performance_id="pins"))
    return pf.PerformedPart(notes, id="PP"), al


def bounded(b):
    import copy
    import partitura.musicanalysis.performance_codec as pc
    scores = _scores(b.tier)
    norms = ["beat_period", "beat_period_log", "beat_period_ratio", "beat_period_ratio_log", "beat_period_standardized"]
    b.rules.append("generated single-part scores (%d: chords, two voices, pickup in 6/8, grace note) x seeded note-for-note performances with varying tempo, "
                   "positive inter-onset intervals and durations, alignment incl. an insertion, an ornament, a deletion and a match to an id missing from "
                   "the score x 5 normalisations x {average, derivative} tempo curves; non-trivial = every case" % len(scores))
    b.scopes.append("%d scores x %d seeds x 5 normalisations x 2 methods" % (len(scores), 2 if b.tier == "quick" else 6))
    for sname, mk in scores:
        for seed in range(2 if b.tier == "quick" else 6):
          for extremes in (False, True):
            if extremes and seed > 0:
                continue
            part = mk()
            ppart, al = _performance(part, b.seed * 100 + seed, extremes=extremes)
            al_before = copy.deepcopy(al)
            for norm in norms:
                for method in ("average", "derivative"):
                    case = {"score": sname, "seed": seed, "normalization": norm, "tempo_smooth": method}
                    if extremes:
                        case["tempo_with_a_standstill_and_a_presto"] = True
                    ok, enc = b.guard("codec/encode_no_exception", case, lambda: pc.encode_performance(part, ppart, al, beat_normalization=norm, tempo_smooth=method))
                    if not ok:
                        continue
                    params, snote_ids = enc[0], enc[1]
                    b.case("codec/alignment_argument_untouched", al == al_before, case, "encode_performance modified the alignment it was given")
                    ok, dec = b.guard("codec/decode_no_exception", case, lambda: pc.decode_performance(part, params, snote_ids=snote_ids, beat_normalization=norm))
                    if not ok:
                        continue
                    matched = [(a["score_id"], a["performance_id"]) for a in al if a["label"] == "match" and a["score_id"] != "not_in_score"]
                    orig = {n["id"]: n for n in ppart.notes}
                    dn = list(dec.notes)
                    good, what = len(dn) == len(matched), "%d decoded notes for %d matched notes" % (len(dn), len(matched))
                    if good:
                        # decoded notes are in score order (onset, pitch) = order of snote_ids
                        sid_to_pid = dict(matched)
                        pairs = [(orig[sid_to_pid[sid]], d) for sid, d in zip(snote_ids, dn)]
                        shifts = [d["note_on"] - o["note_on"] for o, d in pairs]
                        if not all(np.isfinite(float(d[k_])) for _, d in pairs for k_ in ("note_on", "note_off")):
                            good, what = False, "decoded times that are not numbers: %r" % ([(d["id"], d["note_on"], d["note_off"]) for _, d in pairs if not (np.isfinite(float(d["note_on"])) and np.isfinite(float(d["note_off"])))][:4],)
                        elif max(shifts) - min(shifts) > 2e-3:
                            good, what = False, "decoded onsets differ from the performed ones by more than one common shift (spread %.4f s)" % (max(shifts) - min(shifts))
                        for o, d in pairs:
                            if abs((d["note_off"] - d["note_on"]) - (o["note_off"] - o["note_on"])) > 2e-3:
                                good, what = False, "duration %.4f decoded as %.4f" % (o["note_off"] - o["note_on"], d["note_off"] - d["note_on"])
                            if d["velocity"] != o["velocity"]:
                                good, what = False, "velocity %r decoded as %r" % (o["velocity"], d["velocity"])
                            if d["midi_pitch"] != o["midi_pitch"]:
                                good, what = False, "pitch"
                    b.case("codec/decode_of_encode_reproduces_onsets_durations_velocities", good, case, what)
            # the same round trip when the grace notes are played and matched: the ordinary notes still come back as performed
            na0 = part.note_array()
            grace_ids = {str(r["id"]) for r in na0 if float(r["duration_beat"]) == 0}
            if grace_ids:
                ppg, alg = _performance(part, b.seed * 100 + seed, extra=True, match_grace=True)
                for norm in norms:
                    for method in ("average", "derivative"):
                        case = {"score": sname, "seed": seed, "normalization": norm, "tempo_smooth": method, "grace_notes_matched": True}
                        ok, enc = b.guard("codec/encode_no_exception", case, lambda: pc.encode_performance(part, ppg, alg, beat_normalization=norm, tempo_smooth=method))
                        if not ok:
                            continue
                        params, snote_ids = enc[0], enc[1]
                        ok, dec = b.guard("codec/decode_no_exception", case, lambda: pc.decode_performance(part, params, snote_ids=snote_ids, beat_normalization=norm))
                        if not ok:
                            continue
                        sid_to_pid = {a["score_id"]: a["performance_id"] for a in alg if a["label"] == "match" and a["score_id"] != "not_in_score"}
                        orig = {n["id"]: n for n in ppg.notes}
                        dn = list(dec.notes)
                        good, what = len(dn) == len(snote_ids), "%d decoded notes for %d encoded notes" % (len(dn), len(snote_ids))
                        if good:
                            for sid, d in zip(snote_ids, dn):
                                if sid in grace_ids or sid not in sid_to_pid:
                                    continue
                                o = orig[sid_to_pid[sid]]
                                if abs((d["note_off"] - d["note_on"]) - (o["note_off"] - o["note_on"])) > 2e-3:
                                    good, what = False, "note %s: duration %.4f decoded as %.4f" % (sid, o["note_off"] - o["note_on"], d["note_off"] - d["note_on"])
                                if d["velocity"] != o["velocity"] or d["midi_pitch"] != o["midi_pitch"]:
                                    good, what = False, "note %s: velocity/pitch" % sid
                        b.case("codec/decode_of_encode_reproduces_onsets_durations_velocities", good, case, what)
            # matched note table and time maps
            case = {"score": sname, "seed": seed}
            ok, ms = b.guard("codec/matched_score_no_exception", case, lambda: pc.to_matched_score(part, ppart, al))
            if ok:
                m_score, sids = ms
                na = part.note_array()
                byid = {str(r["id"]): r for r in na}
                keys = [(float(byid[s]["onset_beat"]), int(byid[s]["pitch"])) for s in sids]
                want_ids = sorted([a["score_id"] for a in al if a["label"] == "match" and a["score_id"] in byid], key=lambda s: (float(byid[s]["onset_div"]), int(byid[s]["pitch"])))
                b.case("codec/matched_table_pairs_the_matches_present_on_both_sides_in_score_order", list(sids) == want_ids and keys == sorted(keys), case,
                       "table ids %r, expected %r" % (list(sids)[:8], want_ids[:8]))
            ppart_g, al_g = _performance(part, seed, extra=True, match_grace=True)
            for rm_orn in (True, False):
              case = {"score": sname, "seed": seed, "remove_ornaments": rm_orn}
              ok, maps = b.guard("codec/time_maps_no_exception", case, lambda: pc.get_time_maps_from_alignment(ppart_g, part, al_g, remove_ornaments=rm_orn))
              if ok:
                ptime_to_stime, stime_to_ptime = maps
                na = part.note_array()
                byid = {str(r["id"]): r for r in na}
                orig = {n["id"]: n for n in ppart_g.notes}
                groups = {}
                for a in al_g:
                    if a["label"] == "match" and a["score_id"] in byid:
                        if rm_orn and float(byid[a["score_id"]]["duration_beat"]) == 0:
                            continue  # grace notes (no score duration) are left out of the maps on request (the default)
                        groups.setdefault(float(byid[a["score_id"]]["onset_beat"]), []).append(orig[a["performance_id"]]["note_on"])
                good, what = True, ""
                for sb, pons in groups.items():
                    mean = float(np.mean(pons))
                    if abs(float(stime_to_ptime(sb)) - mean) > 1e-4 or abs(float(ptime_to_stime(mean)) - sb) > 1e-4:
                        good, what = False, "score onset %.3f (performed mean %.4f): maps give %.4f / %.4f" % (sb, mean, float(stime_to_ptime(sb)), float(ptime_to_stime(mean)))
                b.case("codec/time_maps_interpolate_matched_onsets_chords_by_mean", good, case, what)
    _single_onset_maps(b)
    _edit_between_encodings(b)
    _steady_performance(b)


def _edit_between_encodings(b):
    """a part that was encoded once, then edited (a note moved and lengthened), is encoded and decoded like a part built in the edited state"""
    import partitura.performance as pf
    import partitura.score as sc
    import partitura.musicanalysis.performance_codec as pc
    from gen import scores as G

    def mk(edited):
        notes = [("n0", 0, 4, "C", None, 4, 1, 1), ("n1", 4, 4, "D", None, 4, 1, 1), ("n2", 8, 4, "E", None, 4, 1, 1), ("n3", 12, 4, "F", None, 4, 1, 1), ("n4", 16, 8, "G", None, 4, 1, 1)]
        if edited:
            notes[1] = ("n1", 6, 2, "D", None, 4, 1, 1)
            notes[3] = ("n3", 12, 3, "F", None, 4, 1, 1)
        return G.build_part("P1", 4, notes=notes, measures=[(0, 16), (16, 32)])
    ppart = pf.PerformedPart([dict(id="p%d" % i, midi_pitch=60 + [0, 2, 4, 5, 7][i], note_on=0.5 + 0.55 * t, note_off=0.5 + 0.55 * t + d, velocity=50 + 5 * i, track=0, channel=0)
                              for i, (t, d) in enumerate(((0, 0.4), (1.5, 0.2), (2, 0.5), (3, 0.3), (4, 1.0)))], id="PP")
    al = [dict(label="match", score_id="n%d" % i, performance_id="p%d" % i) for i in range(5)]
    part = mk(False)
    case = {"sequence": "encode, move and shorten two notes of the part, encode again"}
    ok, _ = b.guard("codec/encode_no_exception", case, lambda: (pc.encode_performance(part, ppart, al), pc.get_time_maps_from_alignment(ppart, part, al)))
    if not ok:
        return
    # the edit, through the public API
    for nid, s_, e_ in (("n1", 6, 8), ("n3", 12, 15)):
        n = next(x for x in part.iter_all(sc.Note) if x.id == nid)
        part.remove(n)
        part.add(n, s_, e_)
    fresh = mk(True)
    ok, res = b.guard("codec/encode_no_exception", case, lambda: (pc.encode_performance(part, ppart, al), pc.encode_performance(fresh, ppart, al),
                                                                pc.get_time_maps_from_alignment(ppart, part, al), pc.get_time_maps_from_alignment(ppart, fresh, al)))
    if ok:
        e1, e2, m1, m2 = res
        same_params = all(np.allclose(np.asarray(e1[0][f], dtype=float), np.asarray(e2[0][f], dtype=float), atol=1e-6) for f in e1[0].dtype.names)
        qs = [0.0, 1.0, 1.5, 2.0, 3.0]
        same_maps = np.allclose(np.asarray(m1[1](np.array(qs)), dtype=float), np.asarray(m2[1](np.array(qs)), dtype=float), atol=1e-6)
        b.case("codec/decode_of_encode_reproduces_onsets_durations_velocities", same_params and same_maps, case,
               "the parameters / time maps of the edited part differ from those of a part built in the edited state (parameters equal: %r, maps equal: %r)" % (same_params, same_maps))


def _steady_performance(b):
    """an almost metronomic performance (beat period between 0.510 and 0.490 s): the round trip holds for every normalisation"""
    import partitura.performance as pf
    import partitura.musicanalysis.performance_codec as pc
    from gen import scores as G
    part = G.build_part("P1", 4, notes=[("n%d" % i, 4 * i, 4, "CDEFGAB"[i % 7], None, 4, 1, 1) for i in range(12)], measures=[(0, 16), (16, 32), (32, 48)])
    t, notes = 1.0, []
    for i in range(12):
        bp = 0.510 - 0.020 * i / 11
        # (played legato: the last note lasts one beat period too, so that its own "tempo" is in line with the others)
        notes.append(dict(id="p%d" % i, midi_pitch=[60, 62, 64, 65, 67, 69, 71][i % 7], note_on=t + (0.0004 if i % 3 == 1 else 0.0), note_off=t + bp, velocity=60 + i, track=0, channel=0))
        t += bp
    ppart = pf.PerformedPart(notes, id="PP")
    al = [dict(label="match", score_id="n%d" % i, performance_id="p%d" % i) for i in range(12)]
    _hand_made(b, "almost metronomic (0.510 to 0.490 s per beat)", part, ppart, al)
    # a chord rolled slowly upward (0.23 s from note to note) while the other hand plays sixteenths in time: the chord's mean onset
    # lies AFTER the mean onsets of the next two score onsets
    sn = [("lo%d" % i, 4 * i, 4, "C", None, 3, 2, 1) for i in range(1)] + [("s%d" % i, 4 + i, 1, "CDEFGAB"[i % 7], None, 3, 2, 1) for i in range(8)] + [("q%d" % i, 12 + 4 * i, 4, "G", None, 3, 2, 1) for i in range(3)] + \
         [("c%d" % k, 4, 8, st, None, oc, 1, 1) for k, (st, oc) in enumerate((("C", 4), ("E", 4), ("G", 4), ("C", 5)))] + [("up", 12, 12, "D", None, 5, 1, 1)]
    part2 = G.build_part("P1", 4, notes=sn, measures=[(0, 16), (16, 32)])
    pn, al2 = [], []
    for k, (nid, on, du, st, _, oc, _, _) in enumerate(sn):
        t_on = 1.0 + on / 4 * 0.5 + (0.23 * int(nid[1:]) if nid.startswith("c") else 0.0)
        pn.append(dict(id="p" + nid, midi_pitch=12 * (oc + 1) + {"C": 0, "D": 2, "E": 4, "F": 5, "G": 7, "A": 9, "B": 11}[st], note_on=t_on, note_off=t_on + du / 4 * 0.45, velocity=50 + k, track=0, channel=0))
        al2.append(dict(label="match", score_id=nid, performance_id="p" + nid))
    _hand_made(b, "a chord rolled slowly upward over sixteenths played in time", part2, pf.PerformedPart(pn, id="PP"), al2)


def _hand_made(b, pname, part, ppart, al):
    import partitura.musicanalysis.performance_codec as pc
    for norm in ("beat_period", "beat_period_log", "beat_period_ratio", "beat_period_ratio_log", "beat_period_standardized"):
        for method in ("average", "derivative"):
            case = {"performance": pname, "normalization": norm, "tempo_smooth": method}
            ok, enc = b.guard("codec/encode_no_exception", case, lambda: pc.encode_performance(part, ppart, al, beat_normalization=norm, tempo_smooth=method))
            if not ok:
                continue
            ok, dec = b.guard("codec/decode_no_exception", case, lambda: pc.decode_performance(part, enc[0], snote_ids=enc[1], beat_normalization=norm))
            if not ok:
                continue
            orig = {n["id"]: n for n in ppart.notes}
            pid_of = {a_["score_id"]: a_["performance_id"] for a_ in al}
            pairs = [(orig[pid_of[str(sid)]], d) for sid, d in zip(enc[1], dec.notes)]
            shifts = [d["note_on"] - o["note_on"] for o, d in pairs]
            bad = None
            if not all(np.isfinite(float(d[k_])) for _, d in pairs for k_ in ("note_on", "note_off")):
                bad = "decoded times that are not numbers: %r" % ([(d["id"], d["note_on"], d["note_off"]) for _, d in pairs if not (np.isfinite(float(d["note_on"])) and np.isfinite(float(d["note_off"])))][:4],)
            elif max(shifts) - min(shifts) > 1e-3:
                bad = "decoded onsets differ from the performed ones by more than one common shift (spread %.4f s)" % (max(shifts) - min(shifts))
            for o, d in pairs:
                if abs((d["note_off"] - d["note_on"]) - (o["note_off"] - o["note_on"])) > 1e-3:
                    bad = bad or "duration %.4f decoded as %.4f" % (o["note_off"] - o["note_on"], d["note_off"] - d["note_on"])
            b.case("codec/decode_of_encode_reproduces_onsets_durations_velocities", bad is None, case, bad or "")


def _single_onset_maps(b):
    """an alignment in which the notes of ONE score onset are matched (a chord; everything else deleted): both maps are constant, whatever
    the type of the position they are asked for"""
    import partitura.performance as pf
    import partitura.musicanalysis.performance_codec as pc
    from gen import scores as G
    part = G.build_part("P1", 4, notes=[("n0", 0, 8, "C", None, 4, 1, 1), ("n1", 8, 8, "E", None, 4, 1, 1), ("n1b", 8, 8, "G", None, 4, 1, 1), ("n2", 16, 16, "D", None, 4, 1, 1)])
    ppart = pf.PerformedPart([dict(id="p1", midi_pitch=64, note_on=3.6, note_off=4.0, velocity=60, track=0, channel=0), dict(id="p2", midi_pitch=67, note_on=3.8, note_off=4.1, velocity=62, track=0, channel=0)], id="PP")
    al = [dict(label="deletion", score_id="n0"), dict(label="match", score_id="n1", performance_id="p1"), dict(label="match", score_id="n1b", performance_id="p2"), dict(label="deletion", score_id="n2")]
    case = {"alignment": "one chord matched, everything else deleted"}
    ok, maps = b.guard("codec/time_maps_no_exception", case, lambda: pc.get_time_maps_from_alignment(ppart, part, al))
    if not ok:
        return
    p2s, s2p = maps
    sb = float(part.beat_map(8))
    bad = None
    for form, q in (("int", 2), ("float", 2.0), ("numpy.int64", np.int64(2)), ("numpy.int32", np.int32(3)), ("list of ints", [1, 2, 3]), ("int array", np.array([0, 2, 5])), ("float array", np.array([0.0, 2.0]))):
        try:
            v = np.asarray(s2p(q), dtype=float).ravel()
            w = np.asarray(p2s(q if not isinstance(q, (int, float)) or True else q), dtype=float).ravel()
        except Exception as e:
            bad = bad or "query given as %s raised %s" % (form, type(e).__name__)
            continue
        if any(abs(x - 3.7) > 1e-6 for x in v) or any(abs(x - sb) > 1e-6 for x in w):
            bad = bad or "query given as %s: score->performance %r (the chord is played at 3.7 s on average), performance->score %r (the chord stands at beat %s)" % (form, v.tolist(), w.tolist(), sb)
    b.case("codec/time_maps_interpolate_matched_onsets_chords_by_mean", bad is None, case, bad or "")
