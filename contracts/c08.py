"""C08 - saving an alignment as a match file and loading it returns the same data.

Tier B only (plus nothing under SMT): matchfile_from_alignment / save_match / load_match are 500-line numpy + regular-expression
functions working on a text format.  The contract is evaluated at run time on generated single-part scores with one divisions value
and a complete final measure (pickup, time-signature change, ties, grace note, chords, voices, staves) x partial alignments mixing
matches, deletions, insertions and ornaments x ppq/mpq pairs x pedal streams; plus hand-written files for the duplicate-id rules and
the fixture match files of the historical versions (never duplicates or loses a note line).
"""
import copy
import io
import os
import tempfile
from fractions import Fraction

import numpy as np

LEVEL = "exploration"
MANIFEST = {
    "level": "exploration",
    "technique": "contract-based run-time checking (bounded) of load_match(save_match(x)) = x on generated score/performance/alignment triples, of the documented duplicate-id resolution on hand-written files and of the fixture files of all historical versions; the functions are text-format/regular-expression code outside the verifier's reach",
    "text": "Alignment (labels and ids), performance (pitch, velocity, onset/offset in ticks and seconds, sustain and soft pedal, clock units and rate) and, with create_score, score notes (onset/duration in beats, pitch spelling, ids, voices, staves), measures and time/key signatures at the bar where they were written, on generated inputs in a stated scope; duplicate ids resolved as documented; loading the fixtures neither duplicates nor loses a note line.",
    "note": "bounded only; the format stores no measure lengths, so only scores with a complete final measure are generated",
}
EXPLANATION = "Bounded run-time round-trip contracts on generated triples and hand-written files."


def _scores(tier):
    from gen import scores as G
    import partitura.score as sc
    out = []
    out.append(("plain_4_4", lambda: G.build_part("P1", 4, notes=[("n0", 0, 4, "C", None, 4, 1, 1), ("n1", 4, 4, "E", -1, 4, 1, 1), ("n2", 8, 8, "G", 1, 4, 1, 1), ("n3", 16, 8, "C", None, 5, 1, 1),
                                                                    ("n4", 24, 8, "B", None, 3, 1, 1), ("b0", 0, 16, "C", None, 3, 2, 2), ("b1", 16, 16, "G", None, 2, 2, 2)],
                                                  key=(-3, "minor"), measures=[(0, 16), (16, 32)])))
    out.append(("pickup_chord_tie_ts_change", lambda: G.build_part("P1", 2, ts=((0, 3, 4), (14, 2, 4)), notes=[("u", 0, 2, "G", None, 4, 1, 1), ("a", 2, 6, "C", None, 5, 1, 1), ("a2", 2, 6, "E", None, 4, 1, 1),
                                                                                                             ("t0", 8, 6, "D", None, 4, 1, 1), ("t1", 14, 2, "D", None, 4, 1, 1), ("z", 16, 2, "F", 1, 4, 1, 1)],
                                                                   ties=[("t0", "t1")], key=(2, "major"), measures=[(0, 2), (2, 8), (8, 14), (14, 18)])))
    out.append(("metre_leaves_and_returns_to_the_initial_signature", lambda: G.build_part("P1", 2, ts=((0, 4, 4), (8, 3, 4), (14, 4, 4)),
                                                                                         notes=[("r0", 0, 4, "C", None, 4, 1, 1), ("r1", 4, 4, "D", None, 4, 1, 1), ("r2", 8, 6, "E", None, 4, 1, 1),
                                                                                                ("r3", 14, 4, "F", None, 4, 1, 1), ("r4", 18, 4, "G", None, 4, 1, 1)],
                                                                                         key=(0, "major"), measures=[(0, 8), (8, 14), (14, 22)])))
    out.append(("first_bar_opens_with_an_eighth_rest", lambda: G.build_part("P1", 4, notes=[("n0", 2, 2, "C", None, 4, 1, 1), ("n1", 4, 4, "D", None, 4, 1, 1), ("n2", 8, 8, "E", None, 4, 1, 1),
                                                                                           ("n3", 16, 8, "F", None, 4, 1, 1), ("n4", 24, 8, "G", None, 4, 1, 1)],
                                                                         rests=[("r0", 0, 2, 1, 1)], key=(0, "major"), measures=[(0, 16), (16, 32)])))
    out.append(("notes_on_the_beat_shorter_than_the_beat_followed_by_rests", lambda: G.build_part("P1", 12, notes=[("n0", 0, 6, "C", None, 4, 1, 1), ("n1", 12, 3, "D", None, 4, 1, 1), ("n2", 24, 4, "E", None, 4, 1, 1),
                                                                                                                   ("n3", 36, 12, "F", None, 4, 1, 1), ("n4", 48, 48, "G", None, 4, 1, 1)],
                                                                                               rests=[("r0", 6, 6, 1, 1), ("r1", 15, 9, 1, 1), ("r2", 28, 8, 1, 1)], key=(0, "major"), measures=[(0, 48), (48, 96)])))
    out.append(("pickup_and_metre_change_in_the_final_bar", lambda: G.build_part("P1", 2, ts=((0, 3, 4), (14, 2, 4)), notes=[("u", 0, 2, "G", None, 4, 1, 1), ("a", 2, 6, "C", None, 5, 1, 1), ("b", 8, 4, "D", None, 5, 1, 1),
                                                                                                                               ("c", 12, 2, "E", None, 5, 1, 1), ("z", 14, 4, "F", None, 5, 1, 1)],
                                                                               key=(1, "major"), measures=[(0, 2), (2, 8), (8, 14), (14, 18)])))
    out.append(("pickup_and_four_four_in_the_final_bar", lambda: G.build_part("P1", 2, ts=((0, 3, 4), (14, 4, 4)), notes=[("u", 0, 2, "G", None, 4, 1, 1), ("a", 2, 6, "C", None, 5, 1, 1), ("b", 8, 6, "D", None, 5, 1, 1),
                                                                                                                            ("z", 14, 8, "F", None, 5, 1, 1)],
                                                                            key=(0, "major"), measures=[(0, 2), (2, 8), (8, 14), (14, 22)])))
    out.append(("double_sharps_and_double_flats", lambda: G.build_part("P1", 4, notes=[("d0", 0, 4, "F", 2, 4, 1, 1), ("d1", 4, 4, "B", -2, 3, 1, 1), ("d2", 8, 4, "C", 2, 5, 1, 1), ("d3", 12, 4, "G", 1, 4, 1, 1),
                                                                                      ("d4", 16, 8, "F", 2, 3, 1, 1), ("d5", 24, 8, "E", -2, 4, 1, 1)],
                                                                     graces=[("dg", 16, "A", 2, 4, 1, 1, "d4")], key=(5, "minor"), measures=[(0, 16), (16, 32)])))
    def with_keys(p, *changes):
        for t, fifths, mode in changes:
            p.add(sc.KeySignature(fifths, mode), t)
        return p
    out.append(("key_change_at_the_second_and_third_bar", lambda: with_keys(G.build_part("P1", 4, notes=[("n0", 0, 16, "C", None, 4, 1, 1), ("n1", 16, 16, "D", None, 4, 1, 1), ("n2", 32, 16, "E", None, 4, 1, 1)],
                                                                                          key=(0, "major"), measures=[(0, 16), (16, 32), (32, 48)]), (16, 3, "major"), (32, -2, "minor"))))
    # an organ part: manuals on staves 1 and 2, the pedal on staff 3
    out.append(("three_staves_pedal_on_the_third", lambda: G.build_part("P1", 4, notes=[("m0", 0, 8, "E", None, 5, 1, 1), ("m1", 8, 8, "D", None, 5, 1, 1), ("l0", 0, 16, "G", None, 3, 2, 2), ("p0", 0, 8, "C", None, 2, 3, 3),
                                                                                        ("p1", 8, 8, "G", None, 2, 3, 3), ("m2", 16, 16, "D", None, 4, 1, 1), ("l1", 16, 16, "B", None, 3, 2, 2), ("p2", 16, 16, "G", None, 2, 3, 3)],
                                                                        key=(0, "major"), measures=[(0, 16), (16, 32)])))
    # voices numbered per staff as notation programs do (1-4, 5-8, 9-12): voice numbers of two digits
    out.append(("three_staves_voices_numbered_per_staff", lambda: G.build_part("P1", 4, notes=[("m0", 0, 8, "E", None, 5, 1, 1), ("m1", 8, 8, "D", None, 5, 1, 1), ("l0", 0, 16, "G", None, 3, 5, 2), ("p0", 0, 8, "C", None, 2, 10, 3),
                                                                                               ("p1", 8, 8, "G", None, 2, 10, 3), ("q0", 0, 16, "C", None, 3, 12, 3), ("m2", 16, 16, "D", None, 4, 1, 1), ("l1", 16, 16, "B", None, 3, 5, 2),
                                                                                               ("p2", 16, 16, "G", None, 2, 10, 3), ("q1", 16, 16, "E", None, 3, 12, 3)],
                                                                               key=(0, "major"), measures=[(0, 16), (16, 32)])))
    out.append(("change_to_the_relative_minor_and_back", lambda: with_keys(G.build_part("P1", 4, notes=[("n0", 0, 16, "C", None, 4, 1, 1), ("n1", 16, 16, "A", None, 3, 1, 1), ("n2", 32, 16, "E", None, 4, 1, 1)],
                                                                                         key=(0, "major"), measures=[(0, 16), (16, 32), (32, 48)]), (16, 0, "minor"), (32, 0, "major"))))
    # the beat unit changes and the number of beats stays (3/4 -> 3/8 -> 3/4, 2/4 -> 2/2)
    out.append(("three_four_to_three_eight_and_back", lambda: G.build_part("P1", 4, ts=((0, 3, 4), (24, 3, 8), (36, 3, 4)), notes=[("n0", 0, 12, "C", None, 4, 1, 1), ("n0b", 12, 12, "D", None, 4, 1, 1), ("n1", 24, 6, "E", None, 4, 1, 1),
                                                                                                                               ("n2", 30, 6, "F", None, 4, 1, 1), ("n3", 36, 12, "G", None, 4, 1, 1)],
                                                                          key=(0, "major"), measures=[(0, 12), (12, 24), (24, 30), (30, 36), (36, 48)])))
    out.append(("two_four_to_two_two", lambda: G.build_part("P1", 4, ts=((0, 2, 4), (16, 2, 2)), notes=[("n0", 0, 8, "C", None, 4, 1, 1), ("n0b", 8, 8, "D", None, 4, 1, 1), ("n1", 16, 16, "E", None, 4, 1, 1), ("n2", 32, 16, "F", None, 4, 1, 1)],
                                                           key=(0, "major"), measures=[(0, 8), (8, 16), (16, 32), (32, 48)])))
    out.append(("beat_type_changes_six_eight_to_four_four", lambda: G.build_part("P1", 4, ts=((0, 6, 8), (24, 4, 4)), notes=[("n0", 0, 12, "C", None, 4, 1, 1), ("n0b", 12, 12, "C", None, 4, 1, 1), ("n1", 24, 16, "D", None, 4, 1, 1),
                                                                                                                             ("n2", 40, 16, "E", None, 4, 1, 1)], key=(0, "major"), measures=[(0, 12), (12, 24), (24, 40), (40, 56)])))
    out.append(("beat_type_changes_two_two_to_three_eight_with_a_key_change", lambda: with_keys(G.build_part("P1", 4, ts=((0, 2, 2), (32, 3, 8)), notes=[("n0", 0, 16, "C", None, 4, 1, 1), ("n0b", 16, 16, "C", None, 4, 1, 1),
                                                                                                                                                         ("n1", 32, 6, "D", None, 4, 1, 1), ("n2", 38, 6, "E", None, 4, 1, 1)],
                                                                                                              key=(0, "major"), measures=[(0, 16), (16, 32), (32, 38), (38, 44)]), (32, 4, "major"))))
    out.append(("pickup_in_six_eight_then_four_four_and_a_new_key", lambda: with_keys(G.build_part("P1", 4, ts=((0, 6, 8), (14, 4, 4)), notes=[("u", 0, 2, "C", None, 4, 1, 1), ("n0", 2, 12, "C", None, 4, 1, 1), ("n1", 14, 16, "D", None, 4, 1, 1),
                                                                                                                                               ("n2", 30, 16, "E", None, 4, 1, 1)], key=(0, "major"), measures=[(0, 2), (2, 14), (14, 30), (30, 46)]),
                                                                                      (14, 4, "major"))))
    if tier == "thorough":
        out.append(("grace", lambda: G.build_part("P1", 4, notes=[("n0", 0, 8, "C", None, 4, 1, 1), ("n1", 8, 8, "D", None, 4, 1, 1)], graces=[("g0", 8, "E", None, 4, 1, 1, "n1")], measures=[(0, 16)])))
    return out


def _triple(part, variant):
    import partitura.performance as pf
    na = part.note_array()
    notes, al = [], []
    t = 0.25
    order = np.lexsort((na["pitch"], na["onset_div"]))
    for k, i in enumerate(order):
        r = na[i]
        sid = str(r["id"])
        if variant == "partial" and k % 4 == 1:
            al.append(dict(label="deletion", score_id=sid))
            continue
        on = 0.25 + float(r["onset_quarter"] - na["onset_quarter"].min()) * 0.5 + 0.003 * (k % 3)
        dur = max(0.05, float(r["duration_quarter"]) * 0.45)
        pid = "n%d" % k
        notes.append(dict(id=pid, midi_pitch=int(r["pitch"]), note_on=on, note_off=on + dur, velocity=(0 if k == 2 else 40 + 5 * k), track=0, channel=0))   # (one key pressed without a sound: velocity 0)
        al.append(dict(label="match", score_id=sid, performance_id=pid))
    if variant == "partial":
        notes.append(dict(id="n900", midi_pitch=50, note_on=0.1, note_off=0.3, velocity=33, track=0, channel=0))
        al.append(dict(label="insertion", performance_id="n900"))
        notes.append(dict(id="n901", midi_pitch=77, note_on=0.2, note_off=0.24, velocity=20, track=0, channel=0))
        al.append(dict(label="ornament", score_id=str(na[order[0]]["id"]), performance_id="n901", type="trill"))
        # a trill: several ornament notes on ONE score note, and one more on another note
        for j, (pid_, pitch_, on_) in enumerate((("n902", 79, 0.26), ("n903", 77, 0.32), ("n904", 79, 0.38))):
            notes.append(dict(id=pid_, midi_pitch=pitch_, note_on=on_, note_off=on_ + 0.05, velocity=21 + j, track=0, channel=0))
            al.append(dict(label="ornament", score_id=str(na[order[0 if j < 2 else min(2, len(order) - 1)]]["id"]), performance_id=pid_, type="trill"))
    controls = [] if variant == "plain" else [dict(number=64, time=0.3, value=127, track=0, channel=0), dict(number=64, time=1.1, value=0, track=0, channel=0), dict(number=67, time=0.5, value=90, track=0, channel=0),
                                                      # two pedal values on one tick (a fast pedal movement on a coarse clock), and a soft and a sustain event on one tick
                                                      dict(number=64, time=1.5, value=70, track=0, channel=0), dict(number=64, time=1.5, value=90, track=0, channel=0),
                                                      dict(number=67, time=1.5, value=20, track=0, channel=0), dict(number=67, time=1.5, value=0, track=0, channel=0)]
    return pf.PerformedPart(notes, id="PP", controls=controls), al


def bounded(b):
    import partitura as pt
    import partitura.score as sc
    scores = _scores(b.tier)
    # (454545 microseconds per quarter = 132 bpm: a rate that is not a whole number of milliseconds)
    settings = [(480, 500000), (96, 600000), (480, 454545)] if b.tier == "quick" else [(480, 500000), (96, 600000), (480, 454545), (960, 250000), (48, 1000000), (384, 666667)]
    b.rules.append("generated single-part scores (%d: two voices/staves, pickup, chord, tie, time-signature change, key signature) x alignments {all matched, "
                   "partial with deletions, an insertion and an ornament} x pedal streams {none, sustain+soft} x ppq/mpq %r; contract on "
                   "load_match(save_match(...), create_score=True); plus hand-written files with duplicate ids and the 3 fixture files; non-trivial = all" % (len(scores), settings))
    b.scopes.append("%d scores x 2 alignment variants x %d ppq/mpq" % (len(scores), len(settings)))
    for sname, mk in scores:
        for variant in ("plain", "partial"):
            for (ppq, mpq) in settings:
                case = {"score": sname, "alignment": variant, "ppq": ppq, "mpq": mpq}
                part = mk()
                ppart, al = _triple(part, variant)
                al_before = copy.deepcopy(al)
                from gen import scores as G
                fp_before = G.fingerprint(part)
                d = tempfile.mkdtemp(prefix="c08_")
                fn = os.path.join(d, "x.match")
                try:
                    ok, _ = b.guard("match/save_no_exception", case, lambda: pt.save_match(al, ppart, part, fn, mpq=mpq, ppq=ppq, assume_unfolded=True))
                    if not ok:
                        continue
                    b.case("match/arguments_untouched_by_export", al == al_before and G.fingerprint(part) == fp_before, case, "save_match modified the alignment or the score part")
                    if (ppq, mpq) == (480, 500000):
                        # the default option (the part is unfolded to fit the alignment first): same arguments afterwards, and a file is written
                        fn_d = os.path.join(d, "default.match")
                        okd, _ = b.guard("match/save_no_exception", dict(case, assume_unfolded=False), lambda: pt.save_match(al, ppart, part, fn_d, mpq=mpq, ppq=ppq))
                        if okd:
                            b.case("match/arguments_untouched_by_export", al == al_before and G.fingerprint(part) == fp_before, dict(case, assume_unfolded=False),
                                   "save_match with its default options modified the alignment or the score part")
                            # ... and that file holds the signatures of the score as well (a part without repeats unfolds to itself)
                            okl, resd = b.guard("match/load_no_exception", dict(case, assume_unfolded=False), lambda: pt.load_match(fn_d, create_score=True))
                            if okl and not list(part.iter_all(sc.Repeat)):
                                sp_d = resd[2].parts[0]
                                qp = lambda p_, o_: round(float(p_.quarter_map(o_.start.t) - p_.quarter_map(p_.first_point.t)), 4)
                                tsd = lambda p_: sorted((qp(p_, t), t.beats, t.beat_type) for t in p_.iter_all(sc.TimeSignature))
                                ksd = lambda p_: sorted((qp(p_, k), k.fifths, k.mode) for k in p_.iter_all(sc.KeySignature))
                                b.case("match/time_and_key_signatures_at_the_bar_where_they_were_written", tsd(sp_d) == tsd(part) and ksd(sp_d) == ksd(part), dict(case, assume_unfolded=False),
                                       "signatures in the file written with the default options %r %r, in the score %r %r" % (tsd(sp_d), ksd(sp_d), tsd(part), ksd(part)))
                    ok, res = b.guard("match/load_no_exception", case, lambda: pt.load_match(fn, create_score=True))
                    if not ok:
                        continue
                    perf, al2, score2 = res
                    key = lambda a: (a["label"], str(a.get("score_id")), str(a.get("performance_id")))
                    b.case("match/same_alignment_entries_and_ids", sorted(map(key, al2)) == sorted(map(key, al)), case,
                           "loaded alignment %r, saved %r" % (sorted(map(key, al2))[:6], sorted(map(key, al))[:6]))
                    pn = {n["id"]: n for n in perf.performedparts[0].notes}
                    good, what = set(pn) == {n["id"] for n in ppart.notes}, "performed note ids differ"
                    if good:
                        for n in ppart.notes:
                            m = pn[n["id"]]
                            t_on = round(Fraction(10**6 * ppq) * Fraction(n["note_on"]) / mpq)
                            t_off = round(Fraction(10**6 * ppq) * Fraction(n["note_off"]) / mpq)
                            if (m["midi_pitch"], m["velocity"]) != (n["midi_pitch"], n["velocity"]):
                                good, what = False, "pitch/velocity of %s" % n["id"]
                            if abs(m["note_on_tick"] - t_on) > 1 or abs(m["note_off_tick"] - t_off) > 1:
                                good, what = False, "ticks of %s: %r..%r, expected %r..%r" % (n["id"], m["note_on_tick"], m["note_off_tick"], t_on, t_off)
                            if abs(m["note_on"] - m["note_on_tick"] * mpq / (1e6 * ppq)) > 1e-6:
                                good, what = False, "seconds of %s do not follow from ticks under the file's clock units and rate" % n["id"]
                    b.case("match/same_performance_pitch_velocity_ticks_seconds", good, case, what)
                    pp2 = perf.performedparts[0]
                    b.case("match/clock_units_and_rate", (pp2.ppq, pp2.mpq) == (ppq, mpq), case, "ppq/mpq loaded as %r" % ((pp2.ppq, pp2.mpq),))
                    want_ped = sorted((c["number"], c["value"], round(Fraction(10**6 * ppq) * Fraction(c["time"]) / mpq)) for c in ppart.controls)
                    got_ped = sorted((c["number"], c["value"], int(round(c["time"] * 1e6 * ppq / mpq))) for c in pp2.controls)
                    b.case("match/same_sustain_and_soft_pedal_events", [g[:2] for g in got_ped] == [w[:2] for w in want_ped] and all(abs(g[2] - w[2]) <= 1 for g, w in zip(got_ped, want_ped)), case,
                           "pedal events %r, expected %r" % (got_ped, want_ped))
                    # score
                    spart2 = score2.parts[0]
                    na1, na2 = part.note_array(include_pitch_spelling=True, include_staff=True), spart2.note_array(include_pitch_spelling=True, include_staff=True)
                    sig = lambda na: sorted((str(r["id"]), round(float(r["onset_beat"] - na["onset_beat"].min()), 4), round(float(r["duration_beat"]), 4), str(r["step"]), int(r["alter"]), int(r["octave"]),
                                             int(r["voice"]), int(r["staff"])) for r in na)
                    b.case("match/same_score_notes_onset_duration_beats_spelling_ids_voices_staves", sig(na1) == sig(na2), case, "score notes %r, expected %r" % (sig(na2)[:4], sig(na1)[:4]))
                    m1 = sorted(round(float(part.beat_map(m.start.t) - part.beat_map(part.first_point.t)), 4) for m in part.iter_all(sc.Measure))
                    m2 = sorted(round(float(spart2.beat_map(m.start.t) - spart2.beat_map(spart2.first_point.t)), 4) for m in spart2.iter_all(sc.Measure))
                    b.case("match/measures_at_the_same_positions", m1 == m2, case, "measure starts (beats from the start) %r, expected %r" % (m2, m1))
                    ts1 = sorted((round(float(part.beat_map(t.start.t) - part.beat_map(part.first_point.t)), 4), t.beats, t.beat_type) for t in part.iter_all(sc.TimeSignature))
                    ts2 = sorted((round(float(spart2.beat_map(t.start.t) - spart2.beat_map(spart2.first_point.t)), 4), t.beats, t.beat_type) for t in spart2.iter_all(sc.TimeSignature))
                    qpos = lambda p, o: round(float(p.quarter_map(o.start.t) - p.quarter_map(p.first_point.t)), 4)
                    ks1 = sorted((qpos(part, k), k.fifths, k.mode) for k in part.iter_all(sc.KeySignature))
                    ks2 = sorted((qpos(spart2, k), k.fifths, k.mode) for k in spart2.iter_all(sc.KeySignature))
                    ts1 = [x + (qpos(part, t),) for x, t in zip(ts1, sorted(part.iter_all(sc.TimeSignature), key=lambda t: t.start.t))]
                    ts2 = [x + (qpos(spart2, t),) for x, t in zip(ts2, sorted(spart2.iter_all(sc.TimeSignature), key=lambda t: t.start.t))]
                    b.case("match/time_and_key_signatures_at_the_bar_where_they_were_written", ts1 == ts2 and ks1 == ks2, case, "signatures %r %r, expected %r %r" % (ts2, ks2, ts1, ks1))
                    # second generation under ANOTHER clock: the loaded performance carries ticks of the first file; saving it with a different
                    # ppq/mpq must still write the same seconds
                    ppq2, mpq2 = (480, 500000) if (ppq, mpq) != (480, 500000) else (960, 600000)
                    fn2 = os.path.join(d, "y.match")
                    case2 = dict(case, resaved_with=[ppq2, mpq2])
                    ok, _ = b.guard("match/save_no_exception", case2, lambda: pt.save_match(al2, pp2, score2.parts[0], fn2, mpq=mpq2, ppq=ppq2, assume_unfolded=True))
                    if ok:
                        ok, res2 = b.guard("match/load_no_exception", case2, lambda: pt.load_match(fn2))
                        if ok:
                            pp3 = res2[0].performedparts[0]
                            first = {n["id"]: n for n in pp2.notes}
                            tick2 = mpq2 / (1e6 * ppq2)
                            bad = None
                            for n in pp3.notes:
                                m = first.get(n["id"])
                                if m is None or abs(n["note_on"] - m["note_on"]) > tick2 or abs(n["note_off"] - m["note_off"]) > tick2:
                                    bad = bad or "note %s saved at %r..%r s comes back at %r..%r s" % (n["id"], m and m["note_on"], m and m["note_off"], n["note_on"], n["note_off"])
                            b.case("match/resaving_under_another_clock_keeps_the_seconds", bad is None and (pp3.ppq, pp3.mpq) == (ppq2, mpq2), case2, bad or "clock %r" % ((pp3.ppq, pp3.mpq),))
                finally:
                    import shutil
                    shutil.rmtree(d, ignore_errors=True)
    _duplicates_and_fixtures(b)


HEAD = """info(matchFileVersion,1.0.0).
info(piece,test).
info(scoreFileName,s.musicxml).
info(midiFileName,p.mid).
info(midiClockUnits,480).
info(midiClockRate,500000).
scoreprop(keySignature,C,1:1,0,0.0000).
scoreprop(timeSignature,4/4,1:1,0,0.0000).
"""


def _duplicates_and_fixtures(b):
    import partitura as pt
    files = {
        "performed_id_in_match_and_insertion": ("snote(n1,[C,n],4,1:1,0,1/4,0.0000,1.0000,[v1,staff1])-note(p1,60,480,960,64,0,0).\ninsertion-note(p1,60,480,960,64,0,0).\n"
                                                "snote(n2,[D,n],4,1:2,0,1/4,1.0000,2.0000,[v1,staff1])-note(p2,62,960,1440,64,0,0).\n", {"insertion": 0, "match": 2}),
        "score_id_in_match_and_deletion": ("snote(n1,[C,n],4,1:1,0,1/4,0.0000,1.0000,[v1,staff1])-note(p1,60,480,960,64,0,0).\nsnote(n1,[C,n],4,1:1,0,1/4,0.0000,1.0000,[v1,staff1])-deletion.\n"
                                           "snote(n2,[D,n],4,1:2,0,1/4,1.0000,2.0000,[v1,staff1])-note(p2,62,960,1440,64,0,0).\n", {"deletion": 0, "match": 2}),
        "both_kinds": ("snote(n1,[C,n],4,1:1,0,1/4,0.0000,1.0000,[v1,staff1])-note(p1,60,480,960,64,0,0).\nsnote(n1,[C,n],4,1:1,0,1/4,0.0000,1.0000,[v1,staff1])-deletion.\ninsertion-note(p1,60,480,960,64,0,0).\n"
                       "snote(n2,[D,n],4,1:2,0,1/4,1.0000,2.0000,[v1,staff1])-note(p2,62,960,1440,64,0,0).\n", {"deletion": 0, "insertion": 0, "match": 2}),
    }
    # a line that occurs twice in the file, with other lines in between (a block pasted again at the end): one note line, not two, not none
    n1 = "snote(n1,[C,n],4,1:1,0,1/4,0.0000,1.0000,[v1,staff1])-note(p1,60,480,960,64,0,0).\n"
    n2 = "snote(n2,[D,n],4,1:2,0,1/4,1.0000,2.0000,[v1,staff1])-note(p2,62,960,1440,64,0,0).\n"
    n3 = "snote(n3,[E,n],4,1:3,0,1/4,2.0000,3.0000,[v1,staff1])-deletion.\n"
    ins = "insertion-note(p9,70,100,200,50,0,0).\n"
    files["match_line_repeated_after_other_lines"] = (n1 + n2 + n3 + n1, {"match": 2, "deletion": 1, "insertion": 0})
    files["insertion_line_repeated_after_other_lines"] = (ins + n1 + n2 + ins, {"match": 2, "insertion": 1})
    files["deletion_line_repeated_after_other_lines"] = (n3 + n1 + n2 + n3, {"match": 2, "deletion": 1})
    for name, (body, want) in files.items():
        d = tempfile.mkdtemp(prefix="c08_")
        fn = os.path.join(d, "d.match")
        open(fn, "w").write(HEAD + body)
        case = {"file": name}
        ok, res = b.guard("duplicates/load_no_exception", case, lambda: pt.load_match(fn))
        if ok:
            perf, al = res[0], res[1]
            counts = {k: sum(1 for a in al if a["label"] == k) for k in ("match", "deletion", "insertion")}
            good = all(counts.get(k, 0) == v for k, v in want.items())
            ids = [n["id"] for n in perf.performedparts[0].notes]
            b.case("duplicates/conflicting_deletions_and_insertions_dropped_matches_kept", good and len(ids) == len(set(ids)), case, "alignment counts %r (expected %r), performed ids %r" % (counts, want, ids))
        import shutil
        shutil.rmtree(d, ignore_errors=True)
    base = os.path.join(os.path.dirname(pt.__file__), "..", "tests", "data", "match")
    for fn in sorted(os.listdir(base)):
        path = os.path.join(base, fn)
        case = {"fixture": fn}
        ok, res = b.guard("fixtures/load_no_exception", case, lambda: pt.load_match(path, create_score=True))
        if not ok:
            continue
        perf, al, score = res
        text = open(path, encoding="utf-8").read().splitlines()
        import re
        note_ids = set()
        snote_ids = set()
        for l in set(text):
            mm = re.search(r"note\(([^,]+),", l.split("-")[-1]) if "note(" in l.split("-")[-1] else None
            if mm and not l.split("-")[-1].startswith("snote"):
                note_ids.add(mm.group(1))
            ms = re.match(r"snote\(([^,]+),", l)
            if ms:
                snote_ids.add(ms.group(1))
        pids = [str(n["id"]) for n in perf.performedparts[0].notes]
        note_ids = {x if x.startswith("n") else "n" + x for x in note_ids}  # the loader's documented id convention
        b.case("fixtures/no_performed_note_line_duplicated_or_lost", len(pids) == len(set(pids)) and set(pids) == note_ids, case,
               "%d performed notes loaded (%d distinct), %d distinct note lines in the file" % (len(pids), len(set(pids)), len(note_ids)))
        sids = [str(r["id"]) for r in score.parts[0].note_array()]
        lost = {s for s in snote_ids if not any(x == s or x.startswith(s) for x in sids)}
        b.case("fixtures/no_score_note_line_lost", not lost, case, "score note ids missing after loading: %r" % sorted(lost)[:5])
